#!/bin/sh
# MANIFEST.setup_cmd: nothing to build (pure Python, stdlib + /venv); sanity only.
HERE="$(cd "$(dirname "$0")" && pwd)"
cd "$HERE" || exit 1
mkdir -p evidence replays
REPO="${MXV_REPO:-/repo}"
PYTHONPATH="$REPO:$HERE" PYTHONDONTWRITEBYTECODE=1 /venv/bin/python - <<'PY' || exit 1
import sys
assert sys.version_info >= (3, 12), sys.version
from mxv import env
mx = env.import_modelx()
print("modelx", mx.__version__, "from", mx.__file__)
PY
