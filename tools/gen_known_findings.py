"""Regenerates the *fixed* section of known_findings.json from the table below (development-time
helper; the checks only ever read the file).  Known (unrepaired) findings are kept as written."""
import json, os
HERE = os.path.dirname(os.path.dirname(os.path.abspath(__file__)))
FIXED = [
    # mechanism, properties, commit, what failed
    ("A", ["C11", "C12"], "6652fc9", "add_bases accepted a base whose cells name is a reference/child-space name in the sub: `B.x = 5; X.new_cells('x'); B.add_bases(X)`"),
    ("F", ["C11", "C12"], "059ac85", "_can_add looked at the first sub space only: sub S3 has cells m1, sub S2 has ref m1, `S1.new_cells('m1')` accepted"),
    ("G", ["C03", "C11"], "04c4e6c", "add_bases/remove_bases re-derived subs in edge order: IndexError in on_inherit, model half updated (S1.m2; S3<-[S2,S0]; S2<-[S0]; S0<-[S1]; S0.remove_bases(S1))"),
    ("U", ["C03", "C13"], "213351c", "deleting a space did not re-derive subs of its child spaces and visited subs in edge order (`Y<-X.Ch; del model.X` left Y's derived members)"),
    ("I", ["C11"], "1f8d5d2", "UserSpace.rename accepted invalid identifiers ('1a', '_x', 'for', '')"),
    ("J", ["C11"], "724e605", "a rejected formula/doc assignment cleared the inputs of the cells first (`A.a[7]=70; A.a.formula='def a(x) return'`)"),
    ("K", ["C11"], "9eb31df", "new_cells with a malformed formula left a half-constructed cells registered"),
    ("L", ["C11"], "b3e5adc", "assigning an invalid space formula deleted the old formula first"),
    ("EE", ["C11"], "162d3ce", "`cells[k] = None` where None is not allowed raised after the existing input and its dependents had been cleared"),
    ("NEWREF2", ["C12", "C11"], "580d5b9", "a reference named like a child space of a sub space was accepted when a model-level reference of that name exists: the sub space got a derived reference and a child space of one name"),
    ("FF", ["C11"], "904f5dc", "add_bases/remove_bases refused during re-derivation (relative reference out of scope) left the members derived so far in place (`A.set_ref('r', Z, 'relative'); X.add_bases(A)` -> X keeps derived c and r)"),
    ("T", ["C12"], "713ee47", "mxsys._check_sanity() failed after `model.r = space` (model-level reference to a modelx object)"),
    ("Z", ["C12"], "a821d82", "mxsys._check_sanity() failed on a consistent model with same-named spaces at different levels (B.Ch and B.Gc.Ch)"),
    ("B", ["C03"], "ea50013", "redefining a base cells overwrote defined overrides and copies derived from an override in between"),
    ("II", ["C03"], "78fad33", "defining a derived cells (formula or cached flag) in the middle of an inheritance chain updated the subs with the changed property only: a sub for which it became the nearest defined base kept the formula / cached flag of its former base"),
    ("D", ["C03"], "4daecfe", "a cells newly defined in a nearer base was ignored by subs deriving the name from a farther base"),
    ("E", ["C03", "C10"], "379b44b", "new_ref/change_ref stopped at the first sub with its own definition; sibling subs kept stale derived references"),
    ("a", ["C02"], "8d85db5", "a space-level reference starting to shadow a model-level one did not clear values reading `<space>.<name>` by attribute path"),
    ("b", ["C02", "C09"], "2d38670", "a reference read by attribute path inside an uncached cells was not linked to the cached caller; changing it left the caller stale"),
    ("c", ["C02", "C13"], "af576dd", "deleting/renaming a space kept values that read its references by attribute path (`_model.P.Ch.r`)"),
    ("H", ["C02", "C07", "C13"], "c60c4b2", "deleting a cells of a child space of a parametrised space kept the ItemSpaces (`I[1].Ch.icc(1)` kept answering)"),
    ("W", ["C07"], "deee8ab", "allow_none of a cells / child space was not carried into ItemSpaces: `A.c(1)` returned None but `A[1].c(1)` raised NoneReturnedError"),
    ("X", ["C03", "C07"], "c967a5a", "allow_none set on a base cells/space after derivation or instantiation was not passed on to derived cells and live ItemSpaces (`B<-A; A.c.allow_none=True; B.c(1)` raised NoneReturnedError)"),
    ("V", ["C02", "C09"], "699917d", "a reference created/changed/deleted in a space did not clear cached cells of other spaces computed through an uncached cells of that space (`B.c: _model.A.u(i)`, `A.u` uncached reading `x`; `A.x = 2` left `B.c(1)` stale)"),
    ("Y", ["C02", "C07"], "4c373e1", "creating/deleting a reference in a child space of a parametrised space (or in a space used as `base`) kept the live ItemSpaces (`Ch.g = 70` / `del Ch.s` left `A[1].Ch.f(0)` stale or raising NameError)"),
    ("AA", ["C02", "C06"], "bcf6de5", "clear_attr_referrers left the dependents of cleared elements in the reference graph; an input assigned to such an element later was wiped by a change of a reference its old computation had read"),
    ("BB", ["C02", "C09", "C13"], "f376ff6", "deleting a space kept values computed through its uncached cells (`T.tb: _model.D.bc(x)`, `D.bc` uncached, `del model.D`)"),
    ("CC", ["C02", "C09"], "a7f2770", "renaming a space kept values computed through uncached cells of its tree (`B.c5: Ch.Gc.d0(x)`, d0 uncached, `Ch.rename(...)`)"),
    ("C18-SAME", ["C18"], "d205150", "re-assigning the same value to its only reference deleted the value's IOSpec (`A.new_pandas('x',...,df); A.x = df` -> model.iospecs == [])"),
    ("C18-SQUEEZE", ["C18"], "11cf51b", "update_pandas(Series -> one-column DataFrame), write, read_model: value read back as a Series"),
    ("C18-UPDBOUND", ["C18"], "eb64bf6", "update_pandas onto a value already bound elsewhere forgot that reference: spec deleted while still bound, later del raised AssertionError"),
    ("C18-DELSPACE", ["C18"], "fcef8cf", "deleting a space left the IOSpec of a value bound only to its references listed and its location claimed"),
    ("C18-DOTDOT", ["C18"], "f510a1c", "'d/../d/f.xlsx' and 'd/f.xlsx' accepted as two locations: two specs for one file"),
    ("C18-RESPEC", ["C18"], "236b381", "a second new_pandas / update_pandas for a value that already has a spec created a spec that was never released"),
    ("REFMODE-FALSE", ["C04", "C11"], "e0ea72a", "references created by new_pandas/new_module/new_excel_range had reference mode False: re-deriving them raised ValueError('must not happen') mid-edit"),
    ("C04-CR", ["C04"], "f6544a4", "carriage returns in documentation text were read back as newlines"),
    ("C04-IOMODE", ["C04"], "845bcc2", "the reference mode of an IOSpec-valued space reference was read back as the spec id (a number)"),
    ("C10-F1", ["C10"], "c7f249a", "string-prefix comparison of dotted names in DynBaseRefDict.wrap_impl: outside target 'I_K'/'I2' of base 'I' bound to a wrong object / ItemSpace could not be built"),
    ("C10-F4", ["C10", "C03"], "04e2314", "a derived reference kept the reference mode it was created with when its nearest defining base changed"),
    ("C10-F3", ["C10"], "b84f4ca", "re-assigning a reference lost its relative flag; ItemSpaces of the enclosing space then failed with AttributeError 'direct_bases'"),
    ("C10-F2", ["C10"], "3f40626", "an auto reference derived from an outside base whose target lies inside the ItemSpace's base tree stayed bound to the static object"),
    ("C10-F5", ["C10"], "13f7d6b", "add_bases/remove_bases did not re-derive references of child spaces bound relatively through their parents' inheritance: after `C.remove_bases(A)` `C.X.t` was a null object"),
    ("HALFBUILT", ["C05", "C11"], "1145371", "a failed ItemSpace construction stayed registered in its base's dynamic-space list; the next namespace change raised AttributeError 'argvalues_if'"),
    ("C04-NEWREF", ["C04", "C11"], "d3e60d4", "a model whose sub space was created before its base and overrides a reference was written without error but read_model raised 'Cannot create reference'; new_ref looked at the first sub space only"),
    ("C14-X", ["C14"], "a6ca415", "a zip save whose temporary directory is on another file system was copied onto the destination: a fault during the copy left a truncated archive at the path"),
    ("DD", ["C07", "C13", "C02"], "98f7b78", "deleting a parametrised space left its ItemSpaces alive (old handles answered and computed); renaming a space named as `base` by another space's formula kept the instances built from it"),
    ("C10-F5b", ["C10"], "119103b", "deleting a space did not re-derive references of the child spaces of the re-derived sub spaces (`del model.Mid` left `B.K.t` bound through the vanished inheritance)"),
    ("C04-RELREFS", ["C04", "C11"], "18ae908", "_check_subs_relrefs stopped at the first sub space defining the name: an impossible relative reference was accepted depending on sub-space order and the written model could not be read back"),
    ("GG", ["C20", "C03"], "cd22548", "renaming a cells in a base to a name a sub space uses for its own cells was accepted and the sub space lost its definition"),
    ("HH", ["C07"], "05b2bad", "setting/replacing/deleting the formula of a child space of a parametrised space kept the live ItemSpaces with the old formula"),
    ("HALFBUILT2", ["C05", "C11"], "2a3dd9b", "an ItemSpace whose construction failed inside the base constructor stayed registered in its base's dynamic-space list"),
    ("C20-DOCTOK", ["C20"], "0ecf5ba", "replacing a docstring written as adjacent literals or in parentheses cut it at its first token ('newb' / SyntaxError)"),
    ("C20-SPLIT", ["C20", "C04"], "5f436a5", "str.splitlines on source text: a def with a form feed / U+2028 / NEL inside a string literal was rejected, such characters in a new doc became newlines"),
    ("C20-DEDENT", ["C20"], "2816b2e", "a function object defined in an indented block lost that indentation inside its multi-line string literals (other values) and was rejected when a line started at column 0"),
    ("M", ["C15"], "b10cccc", "export: names in a comprehension following a nested class/def scope were not rewritten to self.<name> (NameError in the package)"),
    ("N", ["C17"], "c0724cd", "nodes rolled back by a failure a formula handled leaked into the next traceback"),
    ("O", ["C04"], "14fa167", "`_is_cached = False` of a lambda-defined cells was written but not read back"),
    ("R", ["C20", "C11"], "47b0eb5", "setting the doc of a one-line `def f(x): return x` produced invalid source (SyntaxError)"),
    ("Q", ["C04", "C20"], "04ec7dd", "doc strings were embedded between triple quotes unescaped: docs containing triple quotes / ending in a quote made a written model unreadable and `cells.doc = 'ends \"'` raise SyntaxError; backslash sequences changed on reading"),
    ("Q2", ["C04"], "58407cb", "an empty doc string of a lambda-defined cells was not written and read back as None"),
]
path = os.path.join(HERE, "known_findings.json")
try:
    cur = json.load(open(path))
except OSError:
    cur = []
KNOWN = [
    ("C04", "C04-P refmode of non-object reference lost",
     "A.absref(x=1) (or relref; also a reference whose value is a deleted modelx object): refmode reads back 'auto' after write/read (the file format has no place for the mode of a literal/pickled value)",
     "findings/c04_witnesses.py::P"),
    ("C04", "C04 input values of a derived cells are not written",
     "B(bases=A); B.c[1] = 50 on the derived cells c: the input is missing after write/read and B.c(1) is recomputed",
     "findings/c04_witnesses.py::derived_input"),
    ("C04", "C04 comment and blank lines before / after a def formula are not read back",
     "formula source with a leading comment line, a comment after the last statement or trailing blank lines reads back without the lines outside the def statement",
     "findings/c04_witnesses.py::def_surroundings"),
    ("C04", "C04 a model whose documentation text contains a section-divider line cannot be read back",
     "model.doc containing the line '# ' + '-'*75 followed by '# References': write succeeds, read_model raises JSONDecodeError/ValueError",
     "findings/c04_witnesses.py::divider_in_doc"),
    ("C04", "C04 whitespace-only lines of a def formula captured from CRLF text are emptied when read back",
     "a def formula given as CRLF text with a whitespace-only line inside a triple-quoted string: after write/read the line is empty and the value changes",
     "findings/c04_witnesses.py::crlf_blank_line"),
    ("C04", "C04 a reference to a module that cannot be imported by name is written without error and cannot be read back",
     "`A.mod = types.ModuleType('dyn')` (a module object that `import dyn` cannot find): write succeeds and emits (\"Module\", \"dyn\"); read_model raises ModuleNotFoundError. A repair needs a pre-write validation pass (about 40 lines): not small",
     "findings/c04_witnesses.py"),
    ("C04", "C04 a derived reference that is a null object in the source (its target in a child space was created after the reference) is bound to that object after write/read",
     "Ab.s2 = Ab.Gc.max (auto); Base(bases=Ab) has a child Gc without max: derived Base.s2 is a null object and stays one when Base.Gc.max is created later; after write/read Base.s2 is Base.Gc.max (descendant targets under static derivation are outside what C10 states)",
     "findings/c04_witnesses.py::null_derived_ref"),
    ("C14", "C14-S consecutive failed saves push the last good copy down",
     "two (or more) consecutive failed directory saves: each partial output is rotated into _BAK1, the last good copy moves to _BAK2, _BAK3 and is deleted after the fourth failure",
     "findings/c14_witnesses.py::S"),
    ("C18", "an accepted creation bound no reference to the value (scalar cells) [history has: creation under a scalar cells name]",
     "new_pandas/new_module under the name of a scalar cells is accepted, assigns the cells' value, creates no reference, and the spec stays in the IOManager (location never released)",
     "findings/c18_witnesses.py::SCALAR"),
    ("C18", "a value still bound to a reference lost its spec [history has: value bound in the other model]",
     "a spec at an absolute path whose value is also bound in a second model is ended by the second model (del / rebind / close there) while the first model's reference is still bound",
     "findings/c18_witnesses.py::XMODEL"),
]
known = [{"status": "known", "property": p, "signature": sig, "what_fails": wf, "witness": wit}
         for p, sig, wf, wit in KNOWN]
out = list(known)
for mech, props, commit, what in FIXED:
    for p in props:
        out.append({"status": "fixed", "property": p, "mechanism": mech, "commit": commit,
                    "line": "fixed: property=%s %s %s" % (p, commit, what)})
json.dump(out, open(path, "w"), indent=1)
print(len(known), "known,", len(out) - len(known), "fixed entries")
