"""Runs the quick check of each own / stress-test mutant's property (mutants/<PROP>-<name>.patch) against a scratch
copy of /repo carrying the mutant, and records the outcome in mutants/MATRIX.json.  Development-time tool.
usage: tools/mutant_matrix.py [-j N] [name prefixes ...]        (N mutants at a time, each check with MXV_JOBS=4)"""
import json, os, re, subprocess, sys
from concurrent.futures import ThreadPoolExecutor
HERE = os.path.dirname(os.path.dirname(os.path.abspath(__file__)))
args = sys.argv[1:]
par = 3
if args[:1] == ["-j"]:
    par = int(args[1]); args = args[2:]
out_path = os.path.join(HERE, "mutants", "MATRIX.json")
try:
    matrix = json.load(open(out_path))
except Exception:
    matrix = {}
head = subprocess.run(["git", "-C", "/repo", "log", "--format=%h", "-1"], stdout=subprocess.PIPE, text=True).stdout.strip()
names = sorted(f[:-6] for f in os.listdir(os.path.join(HERE, "mutants")) if f.endswith(".patch"))
names = [n for n in names if not args or any(n.startswith(a) for a in args)]


def one(n):
    prop = n.split("-")[0]
    env = dict(os.environ, MXV_JOBS="4")
    p = subprocess.run([os.path.join(HERE, "tools", "try_mutant.sh"), os.path.join(HERE, "mutants", n + ".patch"),
                        "quick", prop], stdout=subprocess.PIPE, stderr=subprocess.STDOUT, text=True, env=env)
    m = re.search(r"%s exit=(\d)" % prop, p.stdout)
    sigs = sorted(set(s.strip() for s in re.findall(r"violated: ([^{]+)", p.stdout)))[:3]
    r = {"property": prop, "repo_head": head, "tier": "quick", "exit": int(m.group(1)) if m else None,
         "signatures": sigs}
    if "PATCH FAILED" in p.stdout:
        r["note"] = "patch does not apply"
    print(n, r["exit"], sigs[:1], flush=True)
    return n, r


with ThreadPoolExecutor(par) as ex:
    for n, r in ex.map(one, names):
        matrix[n] = r
        json.dump(matrix, open(out_path, "w"), indent=1, sort_keys=True)
