"""Prints markdown tables for DESIGN.md from evidence/*.json and seeded/*/meta.json (development-time helper)."""
import json, glob, os
HERE = os.path.dirname(os.path.dirname(os.path.abspath(__file__)))
print("| property | tier | cases | distinct non-trivial | wall s | main monitor counters |")
print("|---|---|---|---|---|---|")
for f in sorted(glob.glob(os.path.join(HERE, "evidence", "C*.json"))):
    e = json.load(open(f))
    c = e["coverage"]
    cnt = c.get("counters", {})
    top = sorted(cnt.items(), key=lambda kv: -kv[1] if isinstance(kv[1], (int, float)) else 0)[:5]
    print("| %s | %s | %s | %s | %s | %s |" % (e["property_id"], e["tier"], c.get("evaluations"), c.get("distinct_nontrivial"),
                                             e.get("wall_s"), ", ".join("%s=%s" % kv for kv in top)))
print()
print("| seeded change | property | what it needs | caught by (quick tier) |")
print("|---|---|---|---|")
for d in sorted(glob.glob(os.path.join(HERE, "seeded", "*"))):
    m = json.load(open(os.path.join(d, "meta.json")))
    det = m.get("detected_by", {})
    txt = "; ".join("%s: %s" % (p, ("exit %s - " % v.get("exit")) + " / ".join(v.get("signatures", [])[:2])) for p, v in det.items()) or "not run yet"
    print("| %s | %s | %s | %s |" % (os.path.basename(d), m.get("property"), (m.get("needs") or "")[:160].replace("|", "/").replace("\n", " "), txt[:260].replace("|", "/")))
