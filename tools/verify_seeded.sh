#!/bin/sh
# tools/verify_seeded.sh <dir with patch.diff demo.py meta.json> <id>
# Confirms a seeded change: patch applies to a scratch copy of /repo, the repository's own suite still passes
# (869), the demonstration passes on the unchanged tree and fails with the change.  Writes /verif/seeded/<id>/.
SRC="$1"; ID="$2"
HERE="$(cd "$(dirname "$0")/.." && pwd)"
SCR="$(mktemp -d /tmp/mxv_seed.XXXXXX)"
rsync -a --exclude .git /repo/ "$SCR/repo/" || exit 2
HEAD=$(git -C /repo log --format=%h -1)
cd "$SCR/repo" || exit 2
PYTHONPATH="$SCR/repo" timeout 600 /venv/bin/python "$SRC/demo.py" > "$SCR/demo_clean.log" 2>&1; RC_CLEAN=$?
if ! patch -p1 -s --no-backup-if-mismatch < "$SRC/patch.diff" > "$SCR/patch.log" 2>&1; then
  echo "$ID: PATCH DOES NOT APPLY to $HEAD"; rm -rf "$SCR"; exit 3
fi
PYTHONPATH="$SCR/repo" timeout 600 /venv/bin/python "$SRC/demo.py" > "$SCR/demo_mut.log" 2>&1; RC_MUT=$?
SUITE=$(env -u MODELX_VERIF PYTHONPATH="$SCR/repo" /venv/bin/python -m pytest -q -p no:cacheprovider --timeout=900 --continue-on-collection-errors -n 4 2>&1 | tail -1)
OK=no
echo "$SUITE" | grep -q " 869 passed" && echo "$SUITE" | grep -q "15 failed" && [ $RC_CLEAN -eq 0 ] && [ $RC_MUT -ne 0 ] && OK=yes
echo "$ID: clean_demo_rc=$RC_CLEAN mutated_demo_rc=$RC_MUT suite='$SUITE' confirmed=$OK"
if [ "$OK" = yes ]; then
  mkdir -p "$HERE/seeded/$ID"
  ( cd "$SCR/repo" && diff -ruN --exclude=__pycache__ --exclude="*.orig" --exclude="*.rej" /repo/modelx modelx | sed "s#^--- /repo/#--- a/#; s#^+++ modelx#+++ b/modelx#" ) > "$HERE/seeded/$ID/patch.diff"
  cp "$SRC/demo.py" "$HERE/seeded/$ID/demo.py"
  /venv/bin/python - "$SRC/meta.json" "$HERE/seeded/$ID/meta.json" "$HEAD" "$RC_CLEAN" "$RC_MUT" "$SUITE" <<'PY'
import json, sys
src, dst, head, rc_clean, rc_mut, suite = sys.argv[1:7]
try:
    m = json.load(open(src))
except Exception:
    m = {}
out = {"property": m.get("property"), "summary": m.get("summary"), "needs": m.get("needs"), "files": m.get("files"),
       "origin": "independent sub-agent given only the property text and a scratch worktree",
       "confirmed": {"repo_head": head, "demo_rc_unchanged_tree": int(rc_clean), "demo_rc_with_change": int(rc_mut),
                     "repo_suite_with_change": suite,
                     "how": "tools/verify_seeded.sh: scratch copy of /repo, patch -p1, demo.py with PYTHONPATH=<copy>, pytest -n 4"},
       "detected_by": {}}
json.dump(out, open(dst, "w"), indent=1)
PY
fi
rm -rf "$SCR"
