"""Runs the quick check of each seeded change's own property against the change (scratch copy of /repo) and
records what caught it in seeded/<id>/meta.json ("detected_by").  Development-time tool, not a registered check.
usage: tools/seeded_matrix.py [ids or property ids ...]"""
import json, os, re, subprocess, sys
HERE = os.path.dirname(os.path.dirname(os.path.abspath(__file__)))
want = sys.argv[1:]
for sid in sorted(os.listdir(os.path.join(HERE, "seeded"))):
    d = os.path.join(HERE, "seeded", sid)
    meta = json.load(open(os.path.join(d, "meta.json")))
    prop = meta.get("property") or sid.split("-")[0]
    if want and sid not in want and prop not in want:
        continue
    p = subprocess.run([os.path.join(HERE, "tools", "try_mutant.sh"), os.path.join(d, "patch.diff"), "quick", prop],
                       stdout=subprocess.PIPE, stderr=subprocess.STDOUT, text=True)
    out = p.stdout
    m = re.search(r"%s exit=(\d)" % prop, out)
    sigs = re.findall(r"violated: ([^{]+)", out)
    meta.setdefault("detected_by", {})[prop] = {"tier": "quick", "exit": int(m.group(1)) if m else None,
                                                 "signatures": sorted(set(s.strip() for s in sigs))[:4]}
    json.dump(meta, open(os.path.join(d, "meta.json"), "w"), indent=1)
    print(sid, prop, "exit", m.group(1) if m else "?", sorted(set(s.strip() for s in sigs))[:2], flush=True)
