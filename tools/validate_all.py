"""Validates MANIFEST.json and every evidence/*.json against the schemas in /root/.vp (python3-vt has jsonschema);
checks that known_findings.json lists every fix: commit of /repo.  usage: python3-vt tools/validate_all.py"""
import glob, json, os, subprocess, sys
import jsonschema
HERE = os.path.dirname(os.path.dirname(os.path.abspath(__file__)))
ok = True
m = json.load(open(os.path.join(HERE, "MANIFEST.json")))
jsonschema.validate(m, json.load(open("/root/.vp/MANIFEST.schema.json")))
es = json.load(open("/root/.vp/EVIDENCE.schema.json"))
ids = [c["property_id"] for c in m["checks"]]
for pid in ids:
    f = os.path.join(HERE, "evidence", pid + ".json")
    if not os.path.exists(f):
        print("MISSING evidence", pid); ok = False; continue
    e = json.load(open(f))
    try:
        jsonschema.validate(e, es)
    except jsonschema.ValidationError as ex:
        print("INVALID", pid, str(ex)[:200]); ok = False; continue
    print(pid, e.get("verdict"), e.get("tier"), "seed", e.get("seed"), "cases", e["coverage"].get("evaluations"),
          "known", len(e["coverage"].get("known_findings_seen", []) or []))
props = [json.loads(l)["id"] for l in open(os.path.join(HERE, "properties.jsonl"))]
na = [x["property_id"] if isinstance(x, dict) else x for x in m.get("not_applicable", [])]
if sorted(ids + na) != sorted(props):
    print("checks + not_applicable != properties", sorted(set(props) - set(ids) - set(na))); ok = False
k = json.load(open(os.path.join(HERE, "known_findings.json")))
commits = {(e.get("commit") or "")[:7] for e in k if e["status"] == "fixed"}
log = subprocess.run(["git", "-C", "/repo", "log", "--format=%h %s", "adbfab0..HEAD"], stdout=subprocess.PIPE, text=True).stdout.strip().split("\n")
for l in log:
    if l.split()[0][:7] not in commits or not l.split(" ", 1)[1].startswith("fix:"):
        print("commit not recorded / not a fix:", l); ok = False
print("OK" if ok else "PROBLEMS")
sys.exit(0 if ok else 1)
