#!/bin/sh
# tools/final_evidence.sh   runs the quick tier of every registered check against /repo (evidence files rewritten),
# prints one line per check; exit 0 iff every check exited 0.
HERE="$(cd "$(dirname "$0")/.." && pwd)"
cd "$HERE" || exit 2
RC=0
for i in 01 02 03 04 05 06 07 08 09 10 11 12 13 14 15 16 17 18 19 20; do
  OUT=$(./check C$i --tier quick 2>&1); R=$?
  echo "C$i exit=$R $(echo "$OUT" | grep -E '^(HELD|VIOLATION|INCONCLUSIVE)' | head -1) $(echo "$OUT" | grep -c '^KNOWN-FINDING') known"
  [ $R -eq 0 ] || { RC=1; echo "$OUT" | grep -E '^  (violated|harness)' | head -3 | cut -c1-300; }
done
exit $RC
