"""Development-time helper: writes MANIFEST.json from the table below and the property
modules that exist.  Properties without a module yet are listed under not_applicable with
the reason 'check not built yet' so that the manifest is valid at every commit."""
import json
import os

HERE = os.path.dirname(os.path.dirname(os.path.abspath(__file__)))

TEXT = {
    "C01": ("exploration", "3/C01", "reference evaluator + probe log over generated models, query orders and call spellings; binding grid (every signature of 1-4 parameters x every spelling) against plain-Python binding",
            "Generated models are evaluated in random query orders and with every call spelling; each value is compared with an independent uncached evaluation of the same formula source with names resolved by a reference model, and a probe called from every formula shows that no held element is executed again. Held on the generated models/orders only.",
            "Trusts the reference evaluator (mxv/refmodel) and the probe references injected into the model; bounded argument domain and formula grammar."),
    "C02": ("exploration", "3/C02", "fresh-replay differential over (edit kind x dependency-path kind) histories",
            "Every (edit kind, dependency path kind) pair and random paddings: the live model that evaluated in between is compared, query by query, with a fresh model that replayed only the edits.",
            "The fresh-replay model is built by the same library; a defect that affects both alike is invisible here (C01 ties values to the reference evaluator)."),
    "C03": ("exploration", "3/C03", "reference derivation (own C3) vs live members after every op; exhaustive small DAGs",
            "All ordered-base DAGs on up to 3 (quick) / 4 (thorough) spaces reached by several construction orders, followed by random member/base edits; after every operation members, definers, flags, formulas, values and bases are compared with derivation from scratch by an independent C3.",
            "Member order is not compared; descendant-target relative references are outside the statement."),
    "C04": ("exploration", "3/C04", "public-snapshot and value differential across write/read, both formats, chained",
            "Generated models (syntax grammar x attributes x reference kinds x inputs) are written and read back in both formats and in chains; public descriptions, values, object-reference targets and file listings are compared.",
            "Snapshot through the public API; pickled values compared by equality."),
    "C05": ("fault_enumeration", "3/C05", "armed probe + LINE failpoints at every element/line of a clean run; retry oracle",
            "Every element (entry and exit) and, in the thorough tier, every formula line of a recorded clean run is taken as the failure point, for several exception kinds and failure sequences; the error object, held values, executor state and all later evaluations are checked. Deep chains run in a child process.",
            "Failure points are formula entry/exit/line events; depths up to the configured limit only for the shapes run."),
    "C06": ("exploration", "3/C06", "ground-truth dependency closure + probe log over value-edit histories, both recalc settings",
            "Random DAG models and value-edit histories; after each edit the held set must equal held-before minus the ground-truth dependents, kept elements must not execute again, inputs must persist; recalc-on state is compared with a lazy twin.",
            "Ground truth comes from the generator's call structure and the probe log, never from the library's graph."),
    "C07": ("exploration", "3/C07", "reference evaluation in instance namespaces, identity checks, fresh replay after base edits, handle registry; binding grid for space parameters",
            "Parametrised spaces with defaults, nesting, returned refs/bases: values vs reference evaluation, instance identity under all spellings, isolation, freshness after every base edit kind, behaviour of old handles.",
            "ItemSpaces identified by parent path and argument values."),
    "C08": ("exploration", "3/C08", "ground-truth callees from probe nesting vs preds/succs/precedents/tracegraph after every op",
            "After every operation of evaluation/edit/failure histories, preds, succs, precedents and graph nodes of every held element are compared with the calls the probe observed.",
            "precedents is compared as a superset for by-name references."),
    "C09": ("exploration", "3/C09", "differential over all 2^n cached-flag assignments of the same model and history; flag given in @defcells redefinitions (old x new flag x formula changed x evaluated)",
            "Same spec and history under every assignment of the cached flag (exhaustive for small n), flag toggles mid-history, unhashable arguments; values and error kinds must agree, uncached cells hold nothing and execute on every call.",
            "Baseline is the all-cached run (tied to the reference evaluator by C01/C02)."),
    "C10": ("exploration", "3/C10", "exhaustive mode x target x depth x deriver grid against the stated binding rule, then histories",
            "The full grid of reference mode, target placement, definer depth and deriver kind is enumerated and each binding compared (identity and name) with the rule as stated; then base edits, renames and write/read.",
            "Combinations the statement leaves open (descendant targets under static derivation) assert nothing."),
    "C11": ("exploration", "3/C11", "public snapshot before/after every rejected operation; invariants after accepted ones",
            "Every invalid operation applicable to generated models (rejection reason x operation) at random points of histories: the public description and values must be unchanged when the operation raised; accepted edits keep inheritance well-formed and names valid.",
            "Snapshot covers definitions and static inputs; ItemSpace contents are not definitions."),
    "C12": ("exploration", "3/C12", "invariant walker (name uniqueness, visible namespace, library self-checks) after every op",
            "Histories biased to indirect name clashes; after every operation name sets are disjoint, dir()/getattr/formula-visible names equal the containers, and the library's self-checks pass.",
            "Formula-visible names observed through generated probe cells."),
    "C13": ("exploration", "3/C13", "handle registry poked after every deletion trigger; containers and dependency listings scanned",
            "Handles to cells, spaces, derived copies, ItemSpaces and dynamic cells taken at random points; after each deletion trigger every handle either raises the deleted-object error or denotes the live object; no held value computed from the deleted object remains.",
            "model.close() is not a deletion in the sense of the statement."),
    "C14": ("fault_enumeration", "3/C14", "audit-hook failpoints at every file operation of save/load, restored on-disk state per point, generation oracle",
            "Every audited file operation of a save or load is the failure point (persistent fault model), from restored on-disk states with 0-4 earlier generations, both formats, sequences of failed saves; the newest complete generation, backup order, archive completeness, serializing flags and registry are checked.",
            "Failure points are audited file-system operations and pickling; not power loss or torn writes."),
    "C15": ("translation_validation", "3/C15", "per-program differential: exported package in a modelx-free child process vs the model",
            "For each generated model in the documented export subset the package is imported where modelx cannot be imported and every cells x arguments is compared with the model.",
            "Relative to the documented export subset."),
    "C16": ("exploration", "3/C16", "twin-model + probe log over every target set and every step size",
            "Random DAG models, target subsets and every step size from 1 to beyond the element count: target values vs direct evaluation, nothing else held, nothing computed twice, action list vs the ground-truth closure.",
            "Ground truth from the generator's call structure."),
    "C17": ("fault_enumeration", "3/C17", "probe-log chain at the instant of the raise vs get_traceback/get_error, over shapes, positions and histories",
            "For every failure position of generated chain shapes and histories of earlier handled/unhandled failures, the traceback nodes and lines must equal the executing chain observed by the probe and the error must be the injected object.",
            "Line numbers checked for generated layouts."),
    "C18": ("exploration", "3/C18", "sequential bookkeeping model of value identity -> references vs model.iospecs after every op",
            "Histories of new_pandas/new_module/bind/rebind/delete/update/base changes/close over several spaces; after each op the live specs must be exactly the values bound to at least one reference; rejected creations leave nothing; locations unique; values equal after write/read.",
            "pandas values compared with DataFrame.equals."),
    "C19": ("exploration", "3/C19", "sequential registry model + isolation snapshots over multi-model histories",
            "Histories of new/read/rename/close/edit on up to 6 open models; the registry must equal a sequential model with the backup-suffix rule and operations on one model must not change definitions or values of the others.",
            "The number in a _BAK<n> suffix is not asserted."),
    "C20": ("exploration", "3/C20", "plain-Python exec/eval of the same text as oracle over a grammar of source layouts",
            "Function texts over a grammar of layouts in all supported definition forms: parameters, defaults, values, self-contained source, idempotent re-creation, rename and doc replacement are compared with the plain Python meaning of the text.",
            "Python's own exec/eval is the oracle."),
}


def main():
    checks, na = [], []
    for pid, (level, ref, tech, text, note) in TEXT.items():
        if os.path.exists(os.path.join(HERE, "mxv", "props", pid.lower() + ".py")):
            checks.append({
                "property_id": pid,
                "quick_cmd": "./check %s --tier quick" % pid,
                "thorough_cmd": "./check %s --tier thorough" % pid,
                "evidence_file": "evidence/%s.json" % pid,
                "replay_cmd_template": "./check %s --replay {path}" % pid,
                "engine": "mxv",
                "level_claimed": {"category": level, "text": text, "design_ref": "DESIGN.md " + ref},
                "level_note": note,
                "technique": "runtime monitoring: " + tech,
            })
        else:
            na.append({"property_id": pid, "reason": "check not built yet (planned: %s)" % tech})
    man = {
        "version": 1,
        "setup_cmd": "./setup.sh",
        "hooks": {
            "guard": "MODELX_VERIF",
            "enable": "no source hooks: all instrumentation (probe references, audit hook, sys.monitoring, "
                      "monkeypatched contracts) is attached from the harness; checks import modelx from /repo's working tree",
            "baseline_off_cmd": "cd /repo && env -u MODELX_VERIF /venv/bin/python -m pytest -ra -q -p no:cacheprovider "
                                "--timeout=900 --continue-on-collection-errors",
            "source_commits": [],
            "add_only": True,
        },
        "engines": [{"name": "mxv", "path": "mxv/", "serves_properties": [c["property_id"] for c in checks],
                     "kind_free_text": "runtime monitoring harness: seeded workload generators, real modelx under probes/"
                                       "failpoints, executable oracles, replay + shrinking, sharded over subprocesses"}],
        "checks": checks,
        "notes": "Exit codes: 0 held on everything observed, 1 violation (VIOLATION line with a replay file), "
                 "2 inconclusive (a monitor was not reached / a shard died). known_findings.json lists repaired "
                 "defects (fixed:) and unrepaired ones (known).",
        "not_applicable": na,
    }
    with open(os.path.join(HERE, "MANIFEST.json"), "w") as f:
        json.dump(man, f, indent=1)
    print("checks:", [c["property_id"] for c in checks], "not yet:", [n["property_id"] for n in na])


if __name__ == "__main__":
    main()
