#!/bin/sh
# tools/recheck_seeded.sh [id...]   light re-confirmation of the kept seeded changes against the current /repo HEAD:
# the patch still applies, the demonstration passes without it and fails with it.  (The suite run is in verify_seeded.sh.)
HERE="$(cd "$(dirname "$0")/.." && pwd)"
[ $# -eq 0 ] && set -- $(ls "$HERE/seeded")
SCR="$(mktemp -d /tmp/mxv_reseed.XXXXXX)"
HEAD=$(git -C /repo log --format=%h -1)
for ID in "$@"; do
  D="$HERE/seeded/$ID"
  cd /; rm -rf "$SCR/repo"; rsync -a --exclude .git /repo/ "$SCR/repo/" || exit 2
  cd "$SCR/repo" || exit 2
  PYTHONPATH="$SCR/repo" timeout 600 /venv/bin/python "$D/demo.py" > "$SCR/c.log" 2>&1; RC_CLEAN=$?
  if ! patch -p1 -s --no-backup-if-mismatch < "$D/patch.diff" > "$SCR/patch.log" 2>&1; then
    echo "$ID: PATCH DOES NOT APPLY to $HEAD"; continue
  fi
  PYTHONPATH="$SCR/repo" timeout 600 /venv/bin/python "$D/demo.py" > "$SCR/m.log" 2>&1; RC_MUT=$?
  ST=ok; { [ $RC_CLEAN -ne 0 ] || [ $RC_MUT -eq 0 ]; } && ST=STALE
  echo "$ID: head=$HEAD clean_demo_rc=$RC_CLEAN mutated_demo_rc=$RC_MUT $ST"
done
cd /; rm -rf "$SCR"
