#!/bin/sh
# tools/try_mutant.sh <patch.diff> <tier> <PROP> [PROP...]
# Applies a patch to a scratch copy of /repo (outside /repo and /verif), runs the given checks against
# the copy (MXV_REPO), prints one line per check, removes the copy.  Evidence files are not rewritten.
PATCH="$1"; TIER="$2"; shift 2
HERE="$(cd "$(dirname "$0")/.." && pwd)"
SCR="$(mktemp -d /tmp/mxv_mut.XXXXXX)"
rsync -a --exclude .git /repo/ "$SCR/repo/" || exit 2
( cd "$SCR/repo" && patch -p1 -s --no-backup-if-mismatch < "$PATCH" ) || { echo "PATCH FAILED"; rm -rf "$SCR"; exit 2; }
RC=0
for P in "$@"; do
  OUT=$(cd "$HERE" && MXV_REPO="$SCR/repo" ./check "$P" --tier "$TIER" --no-evidence 2>&1)
  R=$?
  echo "$P exit=$R $(echo "$OUT" | grep -E '^(VIOLATION|INCONCLUSIVE|HELD)' | head -2 | tr '\n' ' ')"
  echo "$OUT" | grep -E '^  violated' | head -3 | cut -c1-400
  [ $R -eq 1 ] || RC=1
done
rm -rf "$SCR"
exit $RC
