#!/bin/sh
# Run the repository's own suite (guard off) and print the summary line; exit 0 iff 869 passed.
REPO="${1:-/repo}"
cd "$REPO" || exit 2
OUT=$(env -u MODELX_VERIF /venv/bin/python -m pytest -q -p no:cacheprovider --timeout=900 --continue-on-collection-errors -n 12 2>&1 | tail -1)
echo "$OUT"
echo "$OUT" | grep -q " 869 passed" || exit 1
echo "$OUT" | grep -q "15 failed" || exit 1
