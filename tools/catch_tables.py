"""Rewrites the catch tables of DESIGN.md (between the CATCH-TABLES markers) from seeded/*/meta.json and
mutants/MATRIX.json.  Development-time helper."""
import json, glob, os, re
HERE = os.path.dirname(os.path.dirname(os.path.abspath(__file__)))


def cell(t, n):
    return (t or "").replace("|", "/").replace("\n", " ")[:n]


out = []
out.append("#### Independently seeded changes (`seeded/<id>/`; rounds 1 = mut1/mut2, 2 = mut3/mut4)\n")
out.append("| seeded change | what it changes (summary by its author) | caught by the quick tier of | first signatures |")
out.append("|---|---|---|---|")
n_s = n_sc = 0
for d in sorted(glob.glob(os.path.join(HERE, "seeded", "*"))):
    m = json.load(open(os.path.join(d, "meta.json")))
    det = m.get("detected_by", {})
    n_s += 1
    caught = [p for p, v in det.items() if v.get("exit") == 1]
    n_sc += bool(caught)
    sig = "; ".join(" / ".join(v.get("signatures", [])[:2]) for p, v in det.items() if v.get("exit") == 1)
    out.append("| %s | %s | %s | %s |" % (os.path.basename(d), cell(m.get("summary"), 200),
                                        ", ".join(caught) or "**not caught**", cell(sig, 220)))
out.append("")
out.append("%d of %d seeded changes are caught by the quick tier of the check of their own property.\n" % (n_sc, n_s))
mp = os.path.join(HERE, "mutants", "MATRIX.json")
if os.path.exists(mp):
    mx = json.load(open(mp))
    notes = {}
    np_ = os.path.join(HERE, "mutants", "NOTES.json")
    if os.path.exists(np_):
        notes = json.load(open(np_))
    out.append("#### Own and stress-test mutants (`mutants/*.patch`, outcome in `mutants/MATRIX.json`)\n")
    out.append("| mutant | quick tier of its property | first signature / note |")
    out.append("|---|---|---|")
    n = c = 0
    for k in sorted(mx):
        v = mx[k]
        n += 1
        c += v.get("exit") == 1
        res = {1: "caught", 0: "**missed**", 2: "inconclusive", None: "patch no longer applies"}.get(v.get("exit"), str(v.get("exit")))
        note = (v.get("signatures") or [""])[0]
        if notes.get(k):
            note = (note + " - " if note and v.get("exit") == 1 else "") + notes[k]
        out.append("| %s | %s | %s |" % (k, res, cell(note, 200)))
    out.append("")
    out.append("%d of %d mutants caught.\n" % (c, n))
p = os.path.join(HERE, "DESIGN.md")
s = open(p).read()
a, b = "<!-- CATCH-TABLES:BEGIN -->", "<!-- CATCH-TABLES:END -->"
assert a in s and b in s
s = s[:s.index(a) + len(a)] + "\n" + "\n".join(out) + "\n" + s[s.index(b):]
open(p, "w").write(s)
print("tables written:", n_s, "seeded")
