"""Recon for C06/C08/C09: value edits discard exactly the dependents; preds/succs/graph vs ground truth.

Ground truth comes from the generator: every call term in a formula is `cJ(<arg expr in x>)`,
so the direct callees of element (cI, x) are computable without looking at modelx's graph.
"""
import random, sys, collections
from common import *

LOG = []


def pre(space, name, key):
    LOG.append((name, key))


ARGS = {"x": lambda x: x, "0": lambda x: 0, "1": lambda x: 1, "max(x - 1, 0)": lambda x: max(x - 1, 0)}


def build(rnd, n):
    reset()
    m = mx.new_model("M")
    m.pre__ = pre
    A = m.new_space("A")
    spec = {}
    for i in range(n):
        name = "c%d" % i
        terms = []
        for j in rnd.sample(range(i), min(i, rnd.randint(0, 3))):
            terms.append(("c%d" % j, rnd.choice(list(ARGS))))
        rec = rnd.random() < 0.35
        cached = rnd.random() > 0.3
        body = " + ".join(["%s(%s)" % t for t in terms] + (["(%s(x - 1) if x > 0 else 0)" % name] if rec else []) + ["x"])
        A.new_cells(name, formula="def %s(x):\n    pre__(_space, '%s', (x,))\n    return %s" % (name, name, body), is_cached=cached)
        spec[name] = {"terms": terms, "rec": rec, "cached": cached}
    return m, spec


def direct(spec, el):
    name, x = el
    out = [(c, ARGS[a](x)) for c, a in spec[name]["terms"]]
    if spec[name]["rec"] and x > 0:
        out.append((name, x - 1))
    return list(dict.fromkeys(out))


def cached_preds(spec, el):
    """statement of C08: through uncached cells -> the cached elements those reached + the uncached cells themselves"""
    elems, objs = set(), set()
    st = list(direct(spec, el))
    seen = set()
    while st:
        d = st.pop()
        if d in seen:
            continue
        seen.add(d)
        if spec[d[0]]["cached"]:
            elems.add(d)
        else:
            objs.add(d[0])
            st.extend(direct(spec, d))
    return elems, objs


def closure_dependents(spec, held_elems, el):
    """held cached elements that depend (transitively, through anything) on el"""
    memo = {}

    def reaches(a):
        if a in memo:
            return memo[a]
        memo[a] = False
        r = any(d == el or reaches(d) for d in direct(spec, a))
        memo[a] = r
        return r
    return {h for h in held_elems if h != el and reaches(h)}


def held_elems(m):
    return {(k.split(".")[-1], key[0]) for k, d in held(m).items() for key in d}


def run(seed):
    rnd = random.Random(seed)
    m, spec = build(rnd, rnd.randint(3, 7))
    A = m.A
    probs = []
    for step in range(12):
        op = rnd.choice(["eval", "eval", "eval", "assign", "clear_at", "clear", "clear_all", "check"])
        name = rnd.choice(list(spec))
        x = rnd.randint(0, 3)
        c = A.cells[name]
        before = held_elems(m)
        inputs_before = {(n2, k[0]) for n2 in spec for k in A.cells[n2]._impl.input_keys}
        if op == "eval":
            LOG.clear()
            v = c(x)
            # computed once: nothing executed that was already held (cached)
            for e in LOG:
                if e[0] in spec and spec[e[0]]["cached"] and (e[0], e[1][0]) in before:
                    probs.append(("re-executed held element", e))
            cnt = collections.Counter(e for e in LOG if spec[e[0]]["cached"])
            if any(v2 > 1 for v2 in cnt.values()):
                probs.append(("cached element executed twice in one evaluation",))
        elif op in ("assign", "clear_at"):
            if not spec[name]["cached"]:
                continue
            el = (name, x)
            deps = closure_dependents(spec, before, el)
            # inputs are roots: an input's value does not depend on anything
            deps = {d for d in deps if d not in inputs_before or d == el} - {d for d in inputs_before}
            # but things depending on a discarded non-input are discarded too; inputs cut the chain
            def dependents_cut(el):
                out = set()
                frontier = [el]
                while frontier:
                    cur = frontier.pop()
                    for h in before:
                        if h in out or h in inputs_before:
                            continue
                        dd = direct_cached_reach(spec, h, inputs_before)
                        if cur in dd:
                            out.add(h); frontier.append(h)
                return out
            if op == "assign":
                c[x] = 1000 + step
                exp = (before - dependents_cut(el)) | {el}
            else:
                if el not in before:
                    continue
                c.clear_at(x)
                exp = before - dependents_cut(el) - {el}
            after = held_elems(m)
            if after != exp:
                probs.append(("value edit: held set", op, el, "extra kept" if after - exp else "", sorted(after - exp)[:3], "lost", sorted(exp - after)[:3]))
            if op == "assign" and not c.is_input(x):
                probs.append(("assigned not input",))
            LOG.clear()
            for (n2, k) in sorted(after):
                A.cells[n2](k)
            if LOG:
                probs.append(("kept element recomputed", LOG[:3]))
        elif op == "clear":
            c.clear()
            after = held_elems(m)
            if not ({(name, k) for (nn, k) in inputs_before if nn == name} <= after):
                probs.append(("clear() dropped inputs",))
        elif op == "clear_all":
            c.clear_all()
        # C08 after every op
        he = held_elems(m)
        inputs_now = {(n2, k[0]) for n2 in spec for k in A.cells[n2]._impl.input_keys}
        nodes = set(m.tracegraph.nodes)
        node_elems = {(n[0].name, n[1][0]) for n in nodes if len(n) > 1}
        if node_elems != he:
            probs.append(("graph nodes != held", sorted(node_elems ^ he)[:4]))
        import networkx as nx
        if not nx.is_directed_acyclic_graph(m.tracegraph):
            probs.append(("cycle",))
        for (n2, k) in he:
            if (n2, k) in inputs_now:
                continue
            ce = A.cells[n2]
            pe, po = cached_preds(spec, (n2, k))
            got = ce.preds(k)
            ge = {(p.obj.name, p.args[0]) for p in got if p.args is not None}
            go = {p.obj.name for p in got if p.args is None}
            if ge != pe or go != po:
                probs.append(("preds", (n2, k), "got", sorted(ge), sorted(go), "exp", sorted(pe), sorted(po)))
        # succs inverse
        for (n2, k) in he:
            su = {(s.obj.name, s.args[0]) for s in A.cells[n2].succs(k)}
            exp_su = {h for h in he if h not in inputs_now and (n2, k) in cached_preds(spec, h)[0]}
            if su != exp_su:
                probs.append(("succs", (n2, k), sorted(su), sorted(exp_su)))
        s = sanity(m)
        if s:
            probs.append(("sanity", s[-1]))
        if probs:
            return probs, step
    return probs, 12


def direct_cached_reach(spec, h, inputs):
    e, _ = cached_preds(spec, h)
    return e


if __name__ == "__main__":
    N = int(sys.argv[1]) if len(sys.argv) > 1 else 400
    kinds = collections.Counter(); ex = {}
    for seed in range(N):
        probs, _ = run(seed)
        for p in probs[:1]:
            kinds[p[:2] if p[0] == "value edit: held set" else p[0]] += 1
            ex.setdefault(p[:2] if p[0] == "value edit: held set" else p[0], (seed, p))
    print("histories", N)
    for k, v in kinds.most_common():
        print(v, k, repr(ex[k])[:500])
