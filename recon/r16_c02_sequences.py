"""Recon for C02: random SEQUENCES of edits with evaluations in between vs fresh replay."""
import random, sys, collections
from common import *
import r2_c02_matrix as r2

ALLU = tuple("u" + n for n in ("a", "b", "c", "d", "e", "f", "gg", "hh", "i", "j", "l"))


def run(seed, maxlen=5):
    rnd = random.Random(seed)
    uncached = ALLU if rnd.random() < 0.5 else ()
    names = list(r2.EDITS)
    seq = [rnd.choice(names) for _ in range(rnd.randint(2, maxlen))]
    m = r2.build(uncached)
    accepted = []
    for name in seq:
        if rnd.random() < 0.8:
            r2.all_values(m)                  # evaluate (fully) before the edit
        try:
            r2.EDITS[name](m)
            accepted.append(name)
        except Exception:
            pass                               # rejected on live: not replayed (C11's business)
    live = r2.all_values(m)
    sane = sanity(m)
    f = r2.build(uncached)
    for name in accepted:
        try:
            r2.EDITS[name](f)
        except Exception as e:
            return ("replay rejected an edit the live model accepted", seed, accepted, name, type(e).__name__)
    fresh = r2.all_values(f)
    diffs = {k: (live.get(k), fresh.get(k)) for k in set(live) | set(fresh) if live.get(k) != fresh.get(k)}
    # ignore ERR-class differences that stem from get_error() of non-formula exceptions (recon limitation)
    diffs = {k: v for k, v in diffs.items() if not (isinstance(v[0], tuple) and isinstance(v[1], tuple))}
    if diffs or sane:
        return ("stale", seed, accepted, bool(uncached), sorted(diffs.items())[:4], sane)
    return None


if __name__ == "__main__":
    N = int(sys.argv[1]) if len(sys.argv) > 1 else 300
    res = collections.Counter(); ex = {}
    for seed in range(N):
        r = run(seed)
        if r:
            key = (r[0], r[2][-1] if r[0] == "stale" else r[3])
            res[key] += 1
            ex.setdefault(key, r)
    print("sequences", N, "differing", sum(res.values()))
    for k, v in res.most_common(25):
        print(v, k)
        print("     ", repr(ex[k])[:420])
