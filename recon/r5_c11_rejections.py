"""Recon for C11: every invalid operation leaves the public description unchanged."""
import collections
from common import *


def build():
    reset()
    m = mx.new_model("M")
    m.g = 1
    A = m.new_space("A")
    A.r = 2
    A.new_cells("a", formula="def a(x):\n    return x + r")
    A.new_cells("sc", formula="def sc():\n    return 5")
    A.new_cells("unc", formula="def unc(x):\n    return x", is_cached=False)
    Ch = A.new_space("Ch")
    Ch.new_cells("c", formula="def c(x):\n    return x")
    B = m.new_space("B", bases=A)          # derives a, sc, unc, r
    B.new_cells("own", formula="lambda: 1")
    C = m.new_space("C", bases=B)
    X = m.new_space("X")
    X.new_cells("xc", formula="lambda: 1")
    Y = m.new_space("Y")
    Y.xc = 9                                # name used as a ref in Y
    Z = m.new_space("Z", bases=[A, X])
    O1 = m.new_space("O1"); O2 = m.new_space("O2")
    O3 = m.new_space("O3", bases=[O1, O2])
    I = m.new_space("I", formula="lambda p: None")
    I.new_cells("ic", formula="lambda x: p + x")
    A.a(1); B.a(2); A.a[7] = 70; I[1].ic(1); I[1].ic[5] = 50
    return m


BAD_NAMES = ["", "1a", "_x", "for", "a b", "é-", None, 5]

OPS = {}


def op(name):
    def deco(f):
        OPS[name] = f
        return f
    return deco


for i, bn in enumerate(BAD_NAMES):
    OPS["new_space badname %r" % (bn,)] = (lambda bn: lambda m: m.new_space(bn))(bn) if bn is not None else None
    OPS["new_cells badname %r" % (bn,)] = (lambda bn: lambda m: m.A.new_cells(bn, formula="lambda: 1"))(bn) if bn is not None else None
    OPS["rename cells badname %r" % (bn,)] = (lambda bn: lambda m: m.A.a.rename(bn))(bn)
    OPS["rename space badname %r" % (bn,)] = (lambda bn: lambda m: m.X.rename(bn))(bn)
    OPS["rename model badname %r" % (bn,)] = (lambda bn: lambda m: m.rename(bn))(bn)
    OPS["set_ref badname %r" % (bn,)] = (lambda bn: lambda m: m.A.set_ref(bn, 1, "auto"))(bn)
    OPS["child space badname %r" % (bn,)] = (lambda bn: lambda m: m.A.new_space(bn))(bn) if bn is not None else None
OPS = {k: v for k, v in OPS.items() if v is not None}

OPS.update({
    # clashes
    "new_cells clash cells": lambda m: m.A.new_cells("a", formula="lambda: 1"),
    "new_cells clash ref": lambda m: m.A.new_cells("r", formula="lambda: 1"),
    "new_cells clash space": lambda m: m.A.new_cells("Ch", formula="lambda: 1"),
    "new_cells clash model ref": lambda m: m.A.new_cells("g", formula="lambda: 1"),
    "new_cells clash derived": lambda m: m.B.new_cells("a", formula="lambda: 1"),
    "new_cells clash in sub (ref)": lambda m: m.X.new_cells("zz", formula="lambda: 1") if False else m.A.new_cells("own2", formula="lambda: 1") if False else (_ for _ in ()).throw(ValueError("skip")),
    "new_space clash cells": lambda m: m.A.new_space("a"),
    "new_space clash ref": lambda m: m.A.new_space("r"),
    "new_space clash space": lambda m: m.A.new_space("Ch"),
    "model new_space clash": lambda m: m.new_space("A"),
    "model new_space clash ref": lambda m: m.new_space("g"),
    "model ref clash space": lambda m: setattr(m, "A", 1),
    "rename cells clash": lambda m: m.A.a.rename("sc"),
    "rename cells clash ref": lambda m: m.A.a.rename("r"),
    "rename cells clash space": lambda m: m.A.a.rename("Ch"),
    "rename derived cells": lambda m: m.B.a.rename("a9"),
    "rename space clash": lambda m: m.X.rename("A"),
    "rename child space clash cells": lambda m: m.A.Ch.rename("a"),
    "ref clash with sub cells": lambda m: setattr(m.A, "own", 3),
    "cells clash with sub cells->ok? (same kind)": lambda m: (_ for _ in ()).throw(ValueError("skip")),
    "space attr = value on non-scalar cells": lambda m: setattr(m.A, "a", 3),
    # inheritance
    "add_bases self": lambda m: m.A.add_bases(m.A),
    "add_bases 2-cycle": lambda m: m.A.add_bases(m.B),
    "add_bases long cycle": lambda m: m.A.add_bases(m.C),
    "add_bases inconsistent mro": lambda m: m.O1.add_bases(m.O3),
    "new_space cyclic via parent": lambda m: m.A.new_space("Sub", bases=m.A),
    "new_space bad mro": lambda m: m.new_space("Bad", bases=[m.O1, m.O3]),
    "add_bases name conflict cells/ref": lambda m: m.Y.add_bases(m.X),
    "remove_bases not a base": lambda m: m.A.remove_bases(m.X),
    "add_bases child of self": lambda m: m.A.add_bases(m.A.Ch),
    "add_bases parent to child": lambda m: m.A.Ch.add_bases(m.A),
    # deleting derived
    "del derived cells": lambda m: delattr(m.B, "a"),
    "del derived cells via view": lambda m: m.B.cells.__delitem__("a"),
    "del derived ref": lambda m: delattr(m.B, "r"),
    "del missing": lambda m: delattr(m.A, "nothing"),
    "del model missing": lambda m: delattr(m, "nothing"),
    "del special ref": lambda m: delattr(m.A, "_self"),
    "del global ref via space": lambda m: delattr(m.A, "g"),
    # formulas
    "formula syntax error": lambda m: setattr(m.A.a, "formula", "def a(x) return"),
    "formula not a function": lambda m: setattr(m.A.a, "formula", "x = 1"),
    "formula two statements": lambda m: setattr(m.A.a, "formula", "def a(x):\n    return x\ny = 2"),
    "formula async": lambda m: setattr(m.A.a, "formula", "async def a(x):\n    return x"),
    "formula int": lambda m: setattr(m.A.a, "formula", 5),
    "new_cells syntax error": lambda m: m.A.new_cells("nw", formula="def nw(x) return"),
    "new_cells not function": lambda m: m.A.new_cells("nw", formula="1 + 1"),
    "space formula syntax error": lambda m: setattr(m.A, "formula", "lambda p p"),
    "space formula not function": lambda m: setattr(m.I, "formula", "3"),
    "formula on derived dynamic": lambda m: setattr(m.I[1].ic, "formula", "lambda x: 0"),
    "set_doc breaking one-liner": lambda m: (setattr(m.X.xc, "formula", "def xc(): return 1"), setattr(m.X.xc, "doc", "d"))[1],
    "doc ending in quote": lambda m: setattr(m.A.a, "doc", 'ends "'),
    # values
    "assign None not allowed": lambda m: m.A.a.__setitem__(3, None),
    "assign to uncached": lambda m: m.A.unc.__setitem__(1, 5),
    "assign too many args": lambda m: m.A.a.__setitem__((1, 2), 5),
    "value of non-scalar": lambda m: setattr(m.A.a, "value", 5),
    "call too many args": lambda m: m.A.a(1, 2),
    "unhashable arg to cached": lambda m: m.A.a([1]),
    "clear_at missing itemspace": lambda m: m.I.clear_at(99),
    "itemspace bad args": lambda m: m.I[1, 2],
    # refs
    "relative ref out of scope in sub": lambda m: m.A.set_ref("rr", m.X.xc, "relative"),
    "set_ref bad mode": lambda m: m.A.set_ref("rr", 1, "bogus"),
    "set_ref property name": lambda m: m.A.set_ref("cells", 1, "auto"),
    "setattr property": lambda m: setattr(m.A, "name", "Q"),
    # model
    "rename model invalid": lambda m: m.rename("1x"),
    "copy into child": lambda m: m.A.copy(m.A.Ch),
    "copy clash": lambda m: m.X.copy(m, "A"),
    "new_space_from bad module": lambda m: m.import_module("no.such.module"),
})


if __name__ == "__main__":
    res = collections.Counter()
    for name, f in OPS.items():
        m = build()
        before = snap_model(m)
        hb = held(m)
        try:
            f(m)
            raised = None
        except Exception as e:
            raised = type(e).__name__
            if str(e) == "skip":
                continue
        try:
            after = snap_model(m)
        except Exception as e:
            after = "SNAPSHOT RAISED %s: %s" % (type(e).__name__, e)
        try:
            ha = held(m)
            sane = sanity(m)
        except Exception as e:
            ha, sane = {}, "WALK RAISED %s: %s" % (type(e).__name__, e)
        if raised is None:
            res["accepted"] += 1
            print("ACCEPTED  %-40s changed=%s" % (name, after != before))
        else:
            changed = after != before
            lost_inputs = False
            if changed or sane:
                res["rejected-but-changed"] += 1
                import r4_c04_roundtrip as r4
                d = r4.diffs(before, after)[:3] if isinstance(after, dict) else after
                print("CHANGED   %-40s raised=%s sanity=%s diff=%s" % (name, raised, sane, repr(d)[:300]))
            else:
                res["rejected-clean"] += 1
                lost = {k for k in hb if k not in ha}
                if lost:
                    print("  (values dropped by rejected op %s: %s)" % (name, sorted(lost)[:4]))
    print(dict(res))
