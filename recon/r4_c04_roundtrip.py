"""Recon for C04: write/read round trip on a construct x attribute grid (dir and zip)."""
import os, sys, tempfile, shutil, zipfile, itertools, collections, math
from common import *

DOCS = [None, "plain", 'has "quotes"', 'ends with "', "multi\nline doc\n", "unié中", "back\\slash", "tri'''ple", 'tri"""ple']
REFVALS = {
    "int": 3, "neg": -4, "float": 2.5, "big": 1e300, "inf": float("inf"), "str": "abc", "strq": 'q"uo\'te', "strnl": "a\nb",
    "stru": "é中", "true": True, "none": None, "list": [1, [2, 3]], "dict": {"a": 1, 2: (3, 4)}, "tuple": (1, 2),
    "set": {1, 2}, "bytes": b"\x00\xff", "cplx": 1 + 2j, "mod": math,
}


def diffs(a, b, path=""):
    out = []
    if isinstance(a, dict) and isinstance(b, dict):
        for k in sorted(set(a) | set(b), key=repr):
            if k not in a or k not in b:
                out.append((path + "/" + repr(k), a.get(k, "<missing>"), b.get(k, "<missing>")))
            else:
                out += diffs(a[k], b[k], path + "/" + str(k))
    elif a != b:
        out.append((path, a, b))
    return out


def norm(o, name):
    """strip the model name from full names inside a snapshot"""
    if isinstance(o, dict):
        return {k: norm(v, name) for k, v in o.items()}
    if isinstance(o, (list, tuple)):
        return type(o)(norm(v, name) for v in o)
    if isinstance(o, str) and (o == name or o.startswith(name + ".")):
        return "<M>" + o[len(name):]
    return o


def build(variant):
    reset()
    m = mx.new_model("M")
    m.doc = variant["doc"]
    m.allow_none = variant["an"]
    for k, v in REFVALS.items():
        setattr(m, "g_" + k, v)
    A = m.new_space("A")
    A.doc = variant["doc"]
    A.allow_none = variant["an"]
    Ch = A.new_space("Ch")
    Ch.doc = variant["doc"]
    G = Ch.new_space("G")
    for k, v in REFVALS.items():
        setattr(A, "r_" + k, v)
    # cells: def and lambda x cached x allow_none x doc
    for i, (form, cached, an) in enumerate(itertools.product(("def", "lam"), (True, False), (None, True, False))):
        name = "c%d" % i
        if form == "def":
            c = A.new_cells(name, formula="def %s(x, y=1):\n    return x + y + r_int" % name, is_cached=cached)
        else:
            c = A.new_cells(name, formula="lambda x, y=1: x + y + r_int", is_cached=cached)
        c.allow_none = an
        if variant["doc"] is not None:
            try:
                c.doc = variant["doc"]
            except Exception:
                pass            # doc not settable: C20's business
        if cached:
            c[1, 2] = 100 + i
            c[(5, 6)] = "in"
    A.new_cells("nn", formula="def nn(x):\n    return None").allow_none = True
    A.nn[3] = None
    # object-valued references in three modes, various targets
    Ch.new_cells("cc", formula="def cc(x):\n    return x")
    G.new_cells("gc", formula="def gc(x):\n    return x * 2")
    O = m.new_space("O")
    O.new_cells("oc", formula="lambda: 1")
    for mode in ("auto", "relative", "absolute"):
        A.set_ref("self_" + mode, A, mode)
        A.set_ref("cell_" + mode, A.c0, mode)
        A.set_ref("child_" + mode, Ch, mode)
        A.set_ref("gcell_" + mode, G.gc, mode)
        Ch.set_ref("up_" + mode, A, mode)
        G.set_ref("sib_" + mode, Ch.cc, mode)
        if mode != "relative":
            A.set_ref("out_" + mode, O.oc, mode)
            A.set_ref("outs_" + mode, O, mode)
        A.set_ref("lit_" + mode, 7, mode)
        A.set_ref("pick_" + mode, [7], mode)
    m.gobj = O.oc
    # inheritance
    B = m.new_space("B", bases=A)
    B.c0.formula = "def c0(x, y=1):\n    return -x"
    B.r_int = 33
    D = m.new_space("D", bases=[B, O])
    # parametrised spaces with inputs
    I = m.new_space("I", formula="def _formula(p, q=2):\n    return {'refs': {'w': p * q}}")
    I.new_cells("ic", formula="def ic(x):\n    return p + q + w + x")
    ICh = I.new_space("Ch", formula="lambda z: None")
    ICh.new_cells("icc", formula="def icc(x):\n    return p + z + x")
    I[1].ic[5] = 500
    I[1, 3].ic[6] = 600
    I[2].Ch[7].icc[8] = 800
    L = m.new_space("L", formula="lambda a, b=1: None")
    L.new_cells("lc", formula="lambda: a + b")
    L[1].lc.value = 42
    return m


def values(m):
    out = {}
    for s in walk_spaces(m):
        for n, c in s.cells.items():
            if len(c.parameters) == 2:
                out[c.fullname] = [val(c, 1, 2), val(c, 0)]
            elif len(c.parameters) == 1:
                out[c.fullname] = [val(c, 3)]
            else:
                out[c.fullname] = [val(c)]
    out["I[1].ic"] = [val(lambda: m.I[1].ic(5)), val(lambda: m.I[1].ic(0)), val(lambda: m.I[1, 3].ic(6)), val(lambda: m.I[2].Ch[7].icc(8)), val(lambda: m.I[2].Ch[7].icc(1))]
    out["L"] = [val(lambda: m.L[1].lc()), val(lambda: m.L[2, 2].lc())]
    return out


def objref_targets(m):
    """object-valued refs: (owner, name) -> target fullname relative to model name"""
    out = {}
    for s in walk_spaces(m):
        for n in s._own_refs:
            v = getattr(s, n)
            if isinstance(v, mx.core.base.Interface):
                out[(s.fullname.split(".", 1)[1], n)] = (v.fullname.split(".", 1)[-1] if v._is_valid() else "<null>", v.model is m if v._is_valid() else None)
    return out


def listing_dir(p):
    out = []
    for d, _, fs in os.walk(p):
        for f in fs:
            out.append(os.path.relpath(os.path.join(d, f), p).replace(os.sep, "/"))
    return sorted(out)


if __name__ == "__main__":
    root = tempfile.mkdtemp(prefix="mxvrecon_")
    probs = collections.Counter()
    ex = {}
    n = 0
    for doc, an in itertools.product(DOCS, (False, True)):
        variant = {"doc": doc, "an": an}
        m = build(variant)
        s0 = norm(snap_model(m), "M")
        s0.pop("name")
        t0 = objref_targets(m)
        for fmt in ("dir", "zip"):
            n += 1
            p = os.path.join(root, "m_%d_%s" % (n, fmt))
            try:
                (m.write if fmt == "dir" else m.zip)(p)
            except Exception as e:
                probs[("write raised", fmt, type(e).__name__)] += 1
                ex.setdefault(("write raised", fmt, type(e).__name__), (variant, str(e)[:100]))
                continue
            s_after = norm(snap_model(m), "M"); s_after.pop("name")
            if s_after != s0:
                probs[("write changed source model", fmt)] += 1
                ex.setdefault(("write changed source model", fmt), diffs(s0, s_after)[:3])
            try:
                r = mx.read_model(p, name="R")
            except Exception as e:
                k = ("read raised", fmt, type(e).__name__)
                probs[k] += 1
                ex.setdefault(k, (variant, str(e)[:200]))
                continue
            s1 = norm(snap_model(r), "R"); s1.pop("name")
            for d in diffs(s0, s1):
                # normalise path: drop concrete member names to get an attribute-level key
                import re
                key = ("snapshot", fmt, re.sub(r"/c\d+/", "/c*/", d[0]))
                probs[key] += 1
                ex.setdefault(key, (variant, d))
            t1 = objref_targets(r)
            for k in t0:
                if t0[k] != t1.get(k):
                    probs[("objref target", fmt, k[1].split("_")[0] + "_" + k[1].split("_")[-1])] += 1
                    ex.setdefault(("objref target", fmt, k[1].split("_")[0] + "_" + k[1].split("_")[-1]), (k, t0[k], t1.get(k)))
            v0, v1 = values(m), values(r)
            v0 = {k.split(".", 1)[-1]: v for k, v in v0.items()}
            v1 = {k.split(".", 1)[-1]: v for k, v in v1.items()}
            for k in v0:
                if v0[k] != v1.get(k):
                    probs[("value", fmt, k.split(".", 1)[-1])] += 1
                    ex.setdefault(("value", fmt, k.split(".", 1)[-1]), (variant, v0[k], v1.get(k)))
            r.close()
        # same files in both containers
        pd_, pz = os.path.join(root, "m_%d_dir" % (n - 1)), os.path.join(root, "m_%d_zip" % n)
        if os.path.isdir(pd_) and os.path.isfile(pz):
            ld, lz = listing_dir(pd_), sorted(x for x in zipfile.ZipFile(pz).namelist() if not x.endswith("/"))
            if ld != lz:
                probs[("listing differs",)] += 1
                ex.setdefault(("listing differs",), (set(ld) ^ set(lz),))
    print("round trips", n)
    for k, v in sorted(probs.items(), key=lambda kv: -kv[1]):
        print(v, k)
        print("      e.g.", repr(ex[k])[:400])
    shutil.rmtree(root)
