"""Design-time reconnaissance helpers (throw-away; NOT the verification framework).

These scripts were used while writing DESIGN.md to try each oracle formulation on
the unchanged tree.  Their printed results are quoted in DESIGN.md.  Nothing in
MANIFEST.json refers to them.
"""
import warnings
import modelx as mx
from modelx.core.errors import DeletedObjectError

warnings.simplefilter("ignore")


def reset():
    for m in list(mx.get_models().values()):
        m.close()
    mx.set_recalc(False)
    ex = mx.core.mxsys.executor
    assert not ex.callstack and not ex.refstack and not ex.is_executing


def val(fn, *a, **k):
    """value or ('ERR', original exception class name)"""
    try:
        return fn(*a, **k)
    except DeletedObjectError:
        return ("ERR", "DeletedObjectError")
    except Exception as e:                      # noqa
        err = mx.get_error()
        return ("ERR", type(err).__name__ if err is not None else type(e).__name__)


def refdesc(space, name):
    p = space._get_object(name, as_proxy=True)
    v = p.value
    if isinstance(v, mx.core.base.Interface):
        vd = ("obj", v.fullname if v._is_valid() else "<null>", type(v).__name__)
    else:
        vd = ("val", repr(v))
    return (vd, p.refmode, p.is_derived())


def snap_space(s, inputs=True):
    d = {
        "doc": s.doc, "allow_none": s.allow_none,
        "formula": s.formula.source if s.formula else None,
        "direct_bases": [b.fullname for b in s._direct_bases],
        "bases": [b.fullname for b in s.bases],
        "cells": {}, "refs": {}, "spaces": {},
    }
    for n, c in s.cells.items():
        cd = {"src": c.formula.source, "params": c.parameters, "cached": c.is_cached,
              "allow_none": c.allow_none, "doc": c.doc, "derived": c._is_derived()}
        if inputs:
            cd["inputs"] = {k: v for k, v in c._impl.data.items() if k in c._impl.input_keys}
        d["cells"][n] = cd
    for n in s._own_refs:
        d["refs"][n] = refdesc(s, n)
    for n, ch in s.spaces.items():
        d["spaces"][n] = snap_space(ch, inputs)
    return d


def snap_model(m, inputs=True):
    d = {"name": m.name, "doc": m.doc, "allow_none": m.allow_none, "refs": {}, "spaces": {}}
    for n in m.refs:
        if n != "__builtins__":
            v = getattr(m, n)
            d["refs"][n] = ("obj", v.fullname) if isinstance(v, mx.core.base.Interface) else ("val", repr(v))
    for n, s in m.spaces.items():
        d["spaces"][n] = snap_space(s, inputs)
    return d


def walk_spaces(m):
    st = list(m.spaces.values())
    while st:
        s = st.pop()
        yield s
        st.extend(s.spaces.values())


def held(m):
    out = {}
    for s in walk_spaces(m):
        for c in s.cells.values():
            try:
                if len(c):
                    out[c.fullname] = dict(c._impl.data)
            except AttributeError as e:      # half-constructed cells left behind by a failed op
                out[c.fullname] = "BROKEN %s" % e
    return out


def sanity(m):
    try:
        mx.core.mxsys._check_sanity()
        for s in walk_spaces(m):
            for c in s.cells.values():
                if c.is_cached:     # CellsImpl.check_sanity itself raises IndexError on the
                    c._impl.check_sanity()   # 1-tuple object nodes of uncached cells
                else:
                    assert len(c) == 0
        ex = mx.core.mxsys.executor
        assert not ex.callstack and not ex.refstack and not ex.is_executing and not ex.callstack.counter
        return None
    except AssertionError as e:
        import traceback
        return traceback.format_exc().strip().splitlines()[-3:]
