"""Recon for C02/C09/C13: edit-kind x dependency-path-kind matrix against fresh replay."""
import sys, itertools, collections
from common import *


def build(uncached=()):
    reset()
    m = mx.new_model("M")
    m.g = 1
    m.h = 2
    P = m.new_space("P")
    Ch = P.new_space("Ch")
    Q = m.new_space("Q")
    Ch.r = 3
    Ch.new_cells("cc", formula="def cc(x):\n    return x + r")
    Q.s = 4
    Q.new_cells("qc", formula="def qc(x):\n    return x + s")
    P.k = 5
    P.absref(qobj=Q)
    defs = {
        "a": "x + k",                 # own ref by name
        "b": "a(x) + 1",              # call by name
        "c": "Ch.cc(x)",              # call via child attribute path
        "d": "Ch.r + x",              # ref via child attribute path
        "e": "_model.Q.s + x",        # ref via _model path
        "f": "qobj.qc(x)",            # call via object-valued ref
        "gg": "g + x",                # model ref by name
        "hh": "_model.h + x",         # model ref via _model
        "i": "Ch.g + x",              # model ref seen through child namespace
        "j": "_space.k + x",          # own ref via _space
        "l": "_model.P.Ch.r + x",     # ref via long _model path
    }
    for n, body in defs.items():
        P.new_cells(n, formula="def %s(x):\n    return %s" % (n, body))
        # the same through an (optionally) uncached intermediate
        P.new_cells("u" + n, formula="def u%s(x):\n    return %s" % (n, body), is_cached=("u" + n) not in uncached)
        P.new_cells("c" + "u" + n, formula="def cu%s(x):\n    return u%s(x) * 2" % (n, n))
    B = m.new_space("B")
    B.w = 7
    B.new_cells("bc", formula="def bc(x):\n    return x + w")
    D = m.new_space("D", bases=B)
    D.new_cells("dc", formula="def dc(x):\n    return bc(x) + w")
    T = m.new_space("T")            # third space reading into D (derived members) by attribute
    T.new_cells("tw", formula="def tw(x):\n    return _model.D.w + x")
    T.new_cells("tb", formula="def tb(x):\n    return _model.D.bc(x)")
    I = m.new_space("I", formula="def _formula(p):\n    return None")
    I.t = 9
    ICh = I.new_space("Ch")
    ICh.v = 11
    I.new_cells("ic", formula="def ic(x):\n    return p + x + t + g")
    I.new_cells("id", formula="def id_(x):\n    return Ch.v + Ch.icc(x)".replace("id_", "id"))
    ICh.new_cells("icc", formula="def icc(x):\n    return p * 10 + v + x")
    return m


def queries(m):
    qs = []
    for sp in ("P", "P.Ch", "Q", "B", "D", "T"):
        qs += [(sp, None, c) for c in None or []]
    return qs


def all_values(m):
    out = {}

    def space(path):
        o = m
        for p in path.split("."):
            o = getattr(o, p)
        return o
    for path in ("P", "P.Ch", "Q", "B", "D", "T"):
        s = val(space, path)
        if isinstance(s, tuple):
            out[path] = s
            continue
        for n in list(s.cells):
            for x in (0, 1):
                out["%s.%s(%d)" % (path, n, x)] = val(lambda: s.cells[n](x))
    for k in (1, 2):
        it = val(lambda: m.I[k])
        if isinstance(it, tuple):
            out["I[%d]" % k] = it
            continue
        for n in list(it.cells):
            out["I[%d].%s(0)" % (k, n)] = val(lambda: it.cells[n](0))
        out["I[%d].Ch.icc(1)" % k] = val(lambda: it.Ch.icc(1))
    return out


EDITS = {
    # references in spaces
    "change P.k": lambda m: setattr(m.P, "k", 50),
    "del P.k": lambda m: delattr(m.P, "k"),
    "change Ch.r": lambda m: setattr(m.P.Ch, "r", 30),
    "del Ch.r": lambda m: delattr(m.P.Ch, "r"),
    "change Q.s": lambda m: setattr(m.Q, "s", 40),
    "del Q.s": lambda m: delattr(m.Q, "s"),
    "rebind P.qobj": lambda m: m.P.absref(qobj=m.B),
    # model references
    "change m.g": lambda m: setattr(m, "g", 10),
    "del m.g": lambda m: delattr(m, "g"),
    "change m.h": lambda m: setattr(m, "h", 20),
    "new m ref z": lambda m: setattr(m, "z", 0),
    # shadowing
    "shadow g in Ch": lambda m: setattr(m.P.Ch, "g", 100),
    "shadow g in P": lambda m: setattr(m.P, "g", 100),
    "shadow g in I": lambda m: setattr(m.I, "g", 100),
    # formulas
    "formula P.a": lambda m: setattr(m.P.a, "formula", "def a(x):\n    return x + k + 1000"),
    "formula Ch.cc": lambda m: setattr(m.P.Ch.cc, "formula", "def cc(x):\n    return x + r + 1000"),
    "formula Q.qc": lambda m: setattr(m.Q.qc, "formula", "def qc(x):\n    return x + s + 1000"),
    "formula B.bc": lambda m: setattr(m.B.bc, "formula", "def bc(x):\n    return x + w + 1000"),
    "formula P.ua": lambda m: setattr(m.P.ua, "formula", "def ua(x):\n    return x + k + 1000"),
    "formula I.icc": lambda m: setattr(m.I.Ch.icc, "formula", "def icc(x):\n    return 77"),
    "space formula I": lambda m: setattr(m.I, "formula", "def _formula(p):\n    return {'refs': {'t': 1000}}"),
    # cells create/delete/rename
    "new cells in P": lambda m: m.P.new_cells("zz", formula="lambda: 0"),
    "new cells in Ch": lambda m: m.P.Ch.new_cells("zz", formula="lambda: 0"),
    "del P.a": lambda m: delattr(m.P, "a"),
    "del Ch.cc": lambda m: delattr(m.P.Ch, "cc"),
    "del Q.qc": lambda m: delattr(m.Q, "qc"),
    "rename P.a": lambda m: m.P.a.rename("a2"),
    "rename Ch.cc": lambda m: m.P.Ch.cc.rename("cc2"),
    "rename Q.qc": lambda m: m.Q.qc.rename("qc2"),
    "del B.bc": lambda m: delattr(m.B, "bc"),
    # spaces
    "new space in P": lambda m: m.P.new_space("Zs"),
    "del P.Ch": lambda m: delattr(m.P, "Ch"),
    "del Q": lambda m: delattr(m, "Q"),
    "rename Ch": lambda m: m.P.Ch.rename("Ch2"),
    "rename Q": lambda m: m.Q.rename("Q2"),
    "del D": lambda m: delattr(m, "D"),
    "rename D": lambda m: m.D.rename("D2"),
    # inheritance
    "change B.w": lambda m: setattr(m.B, "w", 70),
    "del B.w": lambda m: delattr(m.B, "w"),
    "override D.w": lambda m: setattr(m.D, "w", 700),
    "override D.bc": lambda m: setattr(m.D.bc, "formula", "def bc(x):\n    return -x"),
    "remove base D<-B": lambda m: m.D.remove_bases(m.B),
    "add base Q<-B": lambda m: m.Q.add_bases(m.B),
    # values
    "assign P.a[1]": lambda m: m.P.a.__setitem__(1, 1000),
    "assign Ch.cc[1]": lambda m: m.P.Ch.cc.__setitem__(1, 1000),
    "assign Q.qc[1]": lambda m: m.Q.qc.__setitem__(1, 1000),
    "assign B.bc[1]": lambda m: m.B.bc.__setitem__(1, 1000),
    # itemspace base edits
    "change I.t": lambda m: setattr(m.I, "t", 90),
    "change I.Ch.v": lambda m: setattr(m.I.Ch, "v", 110),
    "del I.Ch.icc": lambda m: delattr(m.I.Ch, "icc"),
    "new cells in I.Ch": lambda m: m.I.Ch.new_cells("zz", formula="lambda: 0"),
    # flags
    "uncache P.a": lambda m: setattr(m.P.a, "is_cached", False),
    "cache P.ua": lambda m: setattr(m.P.ua, "is_cached", True),
    "allow_none P": lambda m: setattr(m.P, "allow_none", True),
    "path": lambda m: setattr(m, "path", "/tmp/xx"),
}


def one(name, edit, uncached):
    m = build(uncached)
    before = all_values(m)                 # evaluates everything: all values held
    try:
        edit(m)
        rej = None
    except Exception as e:
        rej = type(e).__name__
    live = all_values(m)
    sane = sanity(m)
    f = build(uncached)
    try:
        edit(f)
        frej = None
    except Exception as e:
        frej = type(e).__name__
    fresh = all_values(f)
    diffs = {k: (live.get(k), fresh.get(k)) for k in set(live) | set(fresh) if live.get(k) != fresh.get(k)}
    return rej, frej, diffs, sane


if __name__ == "__main__":
    allu = tuple("u" + n for n in ("a", "b", "c", "d", "e", "f", "gg", "hh", "i", "j", "l"))
    total = bad = 0
    for uncached in ((), allu):
        print("==== uncached intermediates:", bool(uncached))
        for name, edit in EDITS.items():
            rej, frej, diffs, sane = one(name, edit, uncached)
            total += 1
            flag = ""
            if rej != frej:
                flag += " REJECT-MISMATCH live=%s fresh=%s" % (rej, frej)
            if sane:
                flag += " SANITY " + str(sane[-1])
            if diffs or flag:
                bad += 1
                print("%-20s rej=%s stale=%d %s" % (name, rej, len(diffs), flag))
                for k in sorted(diffs)[:6]:
                    print("      %-22s live=%-28r fresh=%r" % (k, diffs[k][0], diffs[k][1]))
    print("edits run", total, "with differences", bad)
