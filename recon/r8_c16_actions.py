"""Recon for C16: generate_actions/execute_actions on random DAGs, all step sizes."""
import random, sys, collections, itertools
from common import *

LOG = []


def pre(space, name, key):
    LOG.append((name, key))


def build(rnd, ncells):
    reset()
    m = mx.new_model("M")
    m.pre__ = pre
    A = m.new_space("A")
    B = m.new_space("B")
    A.absref(B_=B)
    B.absref(A_=A)
    names = []
    homes = {}
    for i in range(ncells):
        n = "c%d" % i
        home = rnd.choice([A, B])
        calls = []
        for j in rnd.sample(range(i), min(i, rnd.randint(0, 3))):
            callee = "c%d" % j
            arg = rnd.choice(["x", "0", "max(x - 1, 0)", "1"])
            prefix = "" if homes[callee] is home else ("B_." if home is A else "A_.")
            calls.append("%s%s(%s)" % (prefix, callee, arg))
        if rnd.random() < 0.4:
            calls.append("(%s(x - 1) if x > 0 else 0)" % n)
        body = " + ".join(calls + ["x", str(i)])
        home.new_cells(n, formula="def %s(x):\n    pre__(_space, '%s', (x,))\n    return %s" % (n, n, body))
        homes[n] = home
        names.append(n)
    return m, homes, names


def held_keys(m):
    return {(k, key) for k, d in held(m).items() for key in d}


def run(seed):
    rnd = random.Random(seed)
    m, homes, names = build(rnd, rnd.randint(2, 7))
    tnames = rnd.sample(names, rnd.randint(1, min(3, len(names))))
    targets = [(n, rnd.randint(0, 2)) for n in tnames]
    # pre-existing input somewhere
    if rnd.random() < 0.5:
        n = rnd.choice(names)
        homes[n].cells[n][rnd.randint(0, 2)] = 1000
    inputs_before = held_keys(m)
    # direct evaluation on this model, then clear calculated values
    direct = {t: homes[t[0]].cells[t[0]](t[1]) for t in targets}
    LOG.clear()
    closure = set()
    for t in targets:
        pass
    for s in walk_spaces(m):
        s.clear_cells()
    assert held_keys(m) == inputs_before
    # ground-truth closure size: elements executed when evaluating targets from scratch
    LOG.clear()
    for t in targets:
        homes[t[0]].cells[t[0]](t[1])
    executed = list(LOG)
    assert len(executed) == len(set(executed))
    for s in walk_spaces(m):
        s.clear_cells()
    probs = []
    nelem = len(set(executed))
    for step in list(range(1, nelem + 3)):
        nodes = [homes[n].cells[n].node(x) for n, x in targets]
        LOG.clear()
        try:
            actions = m.generate_actions(nodes, step_size=step)
        except Exception as e:
            probs.append(("generate raised", step, type(e).__name__, str(e)[:80]))
            break
        if held_keys(m) != inputs_before:
            probs.append(("generate left values", step, sorted(held_keys(m) - inputs_before)[:3]))
        calc = [(n.obj.name, n.args) for a, ns in actions if a == "calc" for n in ns]
        if sorted(calc) != sorted(set(executed)):
            probs.append(("calc steps != closure", step, sorted(set(executed) ^ set(calc))[:4]))
        if len(calc) != len(set(calc)):
            probs.append(("element in two calc steps", step))
        LOG.clear()
        try:
            m.execute_actions(actions)
        except Exception as e:
            probs.append(("execute raised", step, type(e).__name__, str(e)[:80]))
            break
        cnt = collections.Counter(LOG)
        twice = {k: v for k, v in cnt.items() if v > 1}
        if twice:
            probs.append(("computed twice", step, twice))
        hk = held_keys(m)
        tk = {("M.%s.%s" % (homes[n].name, n), (x,)) for n, x in targets}
        extra = hk - tk - inputs_before
        if extra:
            probs.append(("non-target values left", step, sorted(extra)[:3]))
        for (n, x), v in direct.items():
            got = homes[n].cells[n](x)
            if got != v:
                probs.append(("wrong target value", step, n, x, got, v))
        if sanity(m):
            probs.append(("sanity", step))
        # reset for next step size: clear targets (they are inputs now) but keep original inputs
        for n, x in targets:
            if ("M.%s.%s" % (homes[n].name, n), (x,)) not in inputs_before:
                homes[n].cells[n].clear_at(x)
        for s in walk_spaces(m):
            s.clear_cells()
        if held_keys(m) != inputs_before:
            break
    return probs, nelem


if __name__ == "__main__":
    n = int(sys.argv[1]) if len(sys.argv) > 1 else 300
    kinds = collections.Counter()
    ex = {}
    runs = 0
    for seed in range(n):
        probs, nelem = run(seed)
        runs += nelem + 2
        for p in probs:
            kinds[p[0]] += 1
            ex.setdefault(p[0], (seed, p))
    print("models", n, "generate+execute runs ~", runs)
    for k, v in kinds.most_common():
        print(v, k, ex[k])
