"""Recon for C20 (and C04's formula part): layout grid of function texts vs plain Python."""
import itertools, textwrap, sys, os, tempfile, importlib, collections, inspect
from common import *

DOCS = [None, '"""doc"""', "'doc'", '"""multi\n    line\n    """', '"""ends with quote\\""""', '"""back\\\\slash"""', 'r"""raw \\d"""']
SIGS = ["x", "x, y=2", "x: int, y: 'str' = 2", "x,\n        y=2"]
BODIES = {
    "expr": "return x + K",
    "multi": "a = x + 1; b = 2\n    return (a +\n            b + K)",
    "nested": "def inner(z):\n        return z * 2\n    return inner(x) + K",
    "samename": "def NAME(z):\n        return z * 3\n    return NAME(x) + K",
    "lambda_in": "f = lambda z: z + K\n    return f(x)",
    "comp": "return sum([i + K for i in range(x)]) + len({i: i for i in range(2)})",
    "cls": "class C:\n        v = 5\n    return C.v + x + K",
    "shadow": "max = 3\n    return max + x + K",
    "ifelse": "if x > 1:\n        return K\n    else:\n        return -K",
}
COMMENTS = ["none", "leading", "after_def", "tail_last", "after_last", "between_deco"]
DECOS = ["none", "bare", "call", "multiline"]
ONELINE = [False, True]


def make(sig, doc, bodyk, comment, deco, oneline):
    body = BODIES[bodyk].replace("NAME", "foo")
    lines = []
    if comment == "leading":
        lines.append("# leading comment")
    if deco == "bare":
        lines.append("@deco")
    elif deco == "call":
        lines.append("@deco2(1, 'a')")
    elif deco == "multiline":
        lines.append("@deco2(1,\n       'a')")
    if comment == "between_deco" and deco != "none":
        lines.append("# between")
    if oneline:
        if bodyk != "expr" or "\n" in sig:
            return None
        parts = ([doc] if doc and "\n" not in doc else []) + [body]
        if doc and "\n" in doc:
            return None
        lines.append("def foo(%s): %s" % (sig, "; ".join(parts)))
    else:
        lines.append("def foo(%s):%s" % (sig, "  # on def" if comment == "after_def" else ""))
        if doc:
            lines.append("    " + doc)
        b = "    " + body
        if comment == "tail_last":
            b += "  # tail"
        lines.append(b)
        if comment == "after_last":
            lines.append("    # after last statement")
    return "\n".join(lines) + "\n"


PRELUDE = "def deco(f):\n    return f\ndef deco2(*a):\n    return deco\n"


def pyfunc(text, name="foo"):
    g = {"K": 1000}
    exec(PRELUDE + textwrap.dedent(text), g)
    return g[name], g


def behaviour(fn, params_n):
    out = []
    for x in (0, 2):
        try:
            out.append(fn(x))
        except Exception as e:
            out.append("ERR " + type(e).__name__)
    return out


def check(text, how, modfuncs=None):
    """returns list of problem strings"""
    probs = []
    ref, _ = pyfunc(text)
    refdoc = ref.__doc__
    reset()
    m = mx.new_model("M")
    A = m.new_space("A")
    A.K = 1000
    try:
        if how == "text":
            c = A.new_cells("foo", formula=text)
        elif how == "indented":
            c = A.new_cells("foo", formula=textwrap.indent(text, "        "))
        elif how == "named":
            c = A.new_cells("bar", formula=text)
        elif how == "func":
            c = A.new_cells("foo", formula=modfuncs)
    except Exception as e:
        return ["create raised %s: %s" % (type(e).__name__, str(e)[:60])]
    name = c.name
    exp = behaviour(ref, 0)
    got = behaviour(c, 0)
    if got != exp:
        probs.append("behaviour %r != %r" % (got, exp))
    if tuple(inspect.signature(ref).parameters) != c.parameters:
        probs.append("parameters")
    if c.doc != refdoc:
        probs.append("doc %r != %r" % (c.doc, refdoc))
    src = c.formula.source
    # self-contained definition under the cells' name
    try:
        g = {"K": 1000}
        exec(src, g)
        if behaviour(g[name], 0) != exp:
            probs.append("source not equivalent")
    except Exception as e:
        probs.append("source not executable: %s" % type(e).__name__)
    # idempotence
    try:
        c2 = A.new_cells("again", formula=src)
        if c2.formula.source.replace("again", name) != src and bodyk_has_name is False:
            probs.append("not idempotent")
        if behaviour(c2, 0) != exp:
            probs.append("idempotent behaviour")
    except Exception as e:
        probs.append("re-create raised %s" % type(e).__name__)
    # rename
    try:
        c.rename("ren")
        if behaviour(c, 0) != exp or c.doc != refdoc or c.name != "ren":
            probs.append("rename changed behaviour/doc")
        g = {"K": 1000}
        exec(c.formula.source, g)
        if "ren" not in g or behaviour(g["ren"], 0) != exp:
            probs.append("renamed source wrong")
    except Exception as e:
        probs.append("rename raised %s" % type(e).__name__)
    # doc
    for newdoc in ("new doc", 'has "quotes"', 'ends with "', "multi\nline", "back\\slash"):
        try:
            before_src = c.formula.source
            c.doc = newdoc
            if c.doc != newdoc:
                probs.append("doc set %r got %r" % (newdoc, c.doc))
            if behaviour(c, 0) != exp:
                probs.append("doc set changed behaviour (%r)" % newdoc)
        except Exception as e:
            probs.append("doc set %r raised %s" % (newdoc, type(e).__name__))
            if c.formula.source != before_src or behaviour(c, 0) != exp:
                probs.append("  ... and changed state")
    return probs


bodyk_has_name = False

if __name__ == "__main__":
    stats = collections.Counter()
    examples = {}
    n = 0
    tmpd = tempfile.mkdtemp(prefix="mxvrecon_")
    sys.path.insert(0, tmpd)
    grid = list(itertools.product(SIGS, DOCS, BODIES, COMMENTS, DECOS, ONELINE))
    # single- and pair-feature layouts: keep those deviating from the default in <= 2 dims
    default = (SIGS[0], DOCS[0], "expr", "none", "none", False)
    cases = [g for g in grid if sum(a != b for a, b in zip(g, default)) <= 2]
    modsrc = PRELUDE + "K = 1000\n"
    texts = []
    for i, g in enumerate(cases):
        t = make(*g)
        if t is None:
            continue
        texts.append((i, g, t))
        modsrc += "\n" + t.replace("def foo(", "def foo_%d(" % i, 1).replace("NAME", "foo_%d" % i) + "\n"
    open(os.path.join(tmpd, "mxvrecon_funcs.py"), "w").write(modsrc)
    mod = importlib.import_module("mxvrecon_funcs")
    for i, g, t in texts:
        for how in ("text", "indented", "named", "func"):
            n += 1
            bodyk_has_name = g[2] == "samename"
            try:
                if how == "func":
                    # function object: compare against its own plain behaviour
                    f = getattr(mod, "foo_%d" % i)
                    t2 = t.replace("def foo(", "def foo_%d(" % i, 1)
                    reset()
                    m = mx.new_model("M"); A = m.new_space("A"); A.K = 1000
                    c = A.new_cells("foo", formula=f)
                    probs = []
                    if behaviour(c, 0) != behaviour(f, 0):
                        probs.append("func behaviour")
                    if c.doc != f.__doc__:
                        probs.append("func doc")
                    g2 = {"K": 1000}
                    try:
                        exec(c.formula.source, g2)
                        if behaviour(g2["foo"], 0) != behaviour(f, 0):
                            probs.append("func source not equivalent")
                    except Exception as e:
                        probs.append("func source not executable %s" % type(e).__name__)
                else:
                    probs = check(t, how)
            except Exception as e:
                probs = ["HARNESS %s %s" % (type(e).__name__, e)]
            for p in probs:
                key = (how, p.split(" raised")[0][:40] if "raised" in p else p[:40])
                stats[key] += 1
                examples.setdefault(key, (g, t))
    print("cases", n)
    for k, v in stats.most_common():
        print(v, k)
        g, t = examples[k]
        print("      e.g.", g, repr(t)[:150])
    import shutil
    shutil.rmtree(tmpd)
