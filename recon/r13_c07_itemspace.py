"""Recon for C07: identity under argument spellings, isolation, nesting, refs returned by the formula."""
import itertools, collections
from common import *

reset()
m = mx.new_model("M")
m.g = 1
S = m.new_space("S", formula="def _formula(p, q=2, r=None):\n    return {'refs': {'w': p * q}}")
S.k = 5
S.new_cells("a", formula="def a(x):\n    return p * 100 + q * 10 + w + k + x + g")
S.new_cells("b", formula="def b(x):\n    return a(x) + Ch.c(x) + _space.a(0)")
Ch = S.new_space("Ch", formula="lambda z=7: None")
Ch.new_cells("c", formula="def c(x):\n    return p + q + x")
Ch.new_cells("d", formula="def d(x):\n    return z + c(x) + p")
O = m.new_space("O"); O.k = 50
O.new_cells("a", formula="def a(x):\n    return -1")
S2 = m.new_space("S2", formula="def _formula(n):\n    return {'base': O if n > 0 else S2base, 'refs': {'extra': n}}")
S2base = m.new_space("S2base"); S2base.new_cells("a", formula="def a(x):\n    return extra + x")
S2.S2base = S2base; S2.O = O
probs = []
# identity under spellings
spell = {"S(1)": S(1), "S[1]": S[1], "S(1,2)": S(1, 2), "S[1,2]": S[1, 2], "S(p=1)": S(p=1), "S(1,q=2)": S(1, q=2), "S(1,2,None)": S(1, 2, None), "S(q=2,p=1)": S(q=2, p=1)}
if len({id(v) for v in spell.values()}) != 1:
    probs.append(("spellings give different instances", {k: id(v) for k, v in spell.items()}))
if S(1) is S(2) or S(1, 3) is S(1):
    probs.append(("different args same instance",))
print("itemspaces keys:", list(S.itemspaces))
# nested identity
if S(1).Ch(3) is not S[1].Ch[3] or S(1).Ch() is not S(1).Ch(7) or S(1).Ch(3) is S(2).Ch(3):
    probs.append(("nested identity",))
# values = plain evaluation
def exp_a(p, q, x): return p * 100 + q * 10 + p * q + 5 + x + 1
for (p, q) in ((1, 2), (2, 2), (1, 3)):
    it = S(p, q)
    for x in (0, 1):
        if it.a(x) != exp_a(p, q, x): probs.append(("a value", p, q, x, it.a(x)))
        eb = exp_a(p, q, x) + (p + q + x) + exp_a(p, q, 0)
        if it.b(x) != eb: probs.append(("b value", p, q, x, it.b(x), eb))
        if it.Ch(4).d(x) != 4 + (p + q + x) + p: probs.append(("nested d", p, q, x))
# sibling calls stay inside the instance: values held only in the instance
S(1).a[9] = 12345
if 9 in dict(S(2).a) or S(2).a(9) == 12345 or S(1).a(9) != 12345:
    probs.append(("isolation",))
if len(S.a) != 0:
    probs.append(("base cells got values", dict(S.a)))
# formula choosing another base / extra refs
if S2(1).a(3) != -1 or S2(0).a(3) != 3 or S2(-2).a(3) != 1:
    probs.append(("base choice", S2(1).a(3), S2(0).a(3), S2(-2).a(3)))
# old handle after base edit
h = S(1); hc = S(1).a; hch = S(1).Ch; hn = S(1).Ch(3)
S.k = 6
st = {}
for n, o in (("h", h), ("hc", hc), ("hch", hch), ("hn", hn)):
    try: o.name; st[n] = "alive"
    except DeletedObjectError: st[n] = "deleted"
n1 = S(1)
st2 = {"h is new": n1 is h, "hch is new.Ch": n1.Ch is hch}
for n, o in (("h", h), ("hc", hc), ("hch", hch), ("hn", hn)):
    try: o.name; st2[n] = "alive"
    except DeletedObjectError: st2[n] = "deleted"
print("after base edit:", st, "after re-request:", st2, "value", n1.a(0), "expected", exp_a(1, 2, 0) + 1)
if n1.a(0) != exp_a(1, 2, 0) + 1: probs.append(("stale after base edit",))
if S(1).a(9) == 12345: probs.append(("input survived re-creation?",))
print("problems:", probs)
