"""Recon for C10: mode x target x definer depth x deriver grid against the statement's rule."""
import collections, itertools
from common import *

MODES = ("auto", "relative", "absolute")


def build(depth):
    """Tree:  Base[.X[.Y]] = definer D (with cells dc, child K with cells kc, grandchild K.L with lc)
       Out (outside space with cells oc).  Root of the tree = top-level ancestor 'Base'."""
    reset()
    m = mx.new_model("M")
    top = m.new_space("Base")
    top.new_cells("topc", formula="lambda: 0")
    D = top
    for n in ("X", "Y")[:depth]:
        D = D.new_space(n)
    D.new_cells("dc", formula="lambda: 1")
    K = D.new_space("K"); K.new_cells("kc", formula="lambda: 2")
    L = K.new_space("L"); L.new_cells("lc", formula="lambda: 3")
    Out = m.new_space("Out"); Out.new_cells("oc", formula="lambda: 4")
    return m, top, D, Out


def targets(m, top, D, Out):
    t = {"self": D, "own_cells": D.dc, "child": D.K, "child_cells": D.K.kc, "gchild": D.K.L, "gchild_cells": D.K.L.lc,
         "outside": Out, "outside_cells": Out.oc}
    if D is not top:
        t["ancestor"] = top
        t["ancestor_cells"] = top.topc
    return t


def rel(obj, root):
    """path of obj relative to root space (tuple) or None if outside"""
    a, b = obj.fullname.split("."), root.fullname.split(".")
    return tuple(a[len(b):]) if a[:len(b)] == b else None


def follow(root, path):
    o = root
    for p in path:
        o = getattr(o, p)
    return o


if __name__ == "__main__":
    stats = collections.Counter()
    shown = set()
    for depth in (0, 1, 2):
        for mode in MODES:
            m, top, D, Out = build(depth)
            tg = targets(m, top, D, Out)
            defined = {}
            for tname, tobj in tg.items():
                if mode == "relative" and tname.startswith(("outside", "ancestor")):
                    continue        # documented: relative mode raises when no relative object exists
                try:
                    D.set_ref("ref_" + tname, tobj, mode)
                    defined[tname] = tobj
                except Exception as e:
                    stats[("def rejected", mode, tname, type(e).__name__)] += 1
            # --- static derivation: Sub derives D directly
            for deriver in ("sub", "subsub", "nested_sub"):
                try:
                    if deriver == "sub":
                        S = m.new_space("S1", bases=D)
                    elif deriver == "subsub":
                        S = m.new_space("S2", bases=m.S1)
                    else:
                        S = m.new_space("Host").new_space("S3", bases=D)
                except Exception as e:
                    stats[("derive rejected", mode, deriver, type(e).__name__, str(e)[:40])] += 1
                    # retry without the out-of-scope relative refs
                    continue
                for tname, tobj in defined.items():
                    got = getattr(S, "ref_" + tname)
                    proxy = S._get_object("ref_" + tname, as_proxy=True)
                    if proxy.refmode != mode:
                        stats[("MODE LOST", mode, deriver, tname)] += 1
                    if mode == "absolute" or tname.startswith(("outside", "ancestor")):
                        exp = tobj
                    elif tname == "self":
                        exp = S
                    elif tname == "own_cells":
                        exp = S.dc
                    else:
                        exp = None          # statement silent (descendant targets, static derivation)
                    if exp is None:
                        stats[("unspecified", "static", tname, "null" if not got._is_valid() else "same" if got is tobj else "other")] += 1
                    elif got is exp:
                        stats[("ok", "static")] += 1
                    else:
                        k = ("MISMATCH static", mode, deriver, tname, depth)
                        stats[k] += 1
                        if k not in shown:
                            shown.add(k); print(k, "got", repr(got), "expected", repr(exp))
            # --- ItemSpace of the *top* space (so D may be a dynamic child) and of D itself
            for host_name, host in (("top", top), ("D", D)):
                host.formula = lambda p: None
                it = host[1]
                dynD = follow(it, rel(D, host))
                for tname, tobj in defined.items():
                    try:
                        got = getattr(dynD, "ref_" + tname)
                    except Exception as e:
                        stats[("itemspace access raised", mode, host_name, tname, type(e).__name__)] += 1
                        continue
                    r = rel(tobj, host)
                    if mode == "absolute" or r is None:
                        exp = tobj
                    else:
                        exp = follow(it, r)
                    if got is exp:
                        stats[("ok", "itemspace")] += 1
                    else:
                        k = ("MISMATCH itemspace", mode, host_name, tname, depth)
                        stats[k] += 1
                        if k not in shown:
                            shown.add(k); print(k, "got", repr(got), "expected", repr(exp))
                host.formula = None
    print()
    for k, v in sorted(stats.items(), key=lambda kv: str(kv[0])):
        print(v, k)
