"""Recon for C18 (IOSpec lifetime) and C19 (model registry) with tiny sequential models."""
import random, sys, collections, os, tempfile, shutil
import pandas as pd
from common import *


# ------------------------------------------------------------------ C19
def run_c19(seed, root):
    rnd = random.Random(seed)
    reset()
    reg = {}                  # name -> model object (identity)
    probs = []
    names = ["X", "Y", "X_BAK1", "Z"]
    saved = None
    for step in range(14):
        op = rnd.choice(["new", "new", "rename", "rename_old", "close", "edit", "read", "badname"])
        others = {id(mm): snap_model(mm) for mm in reg.values()}
        touched = None
        try:
            if op == "new":
                n = rnd.choice(names)
                mm = mx.new_model(n)
                mm.new_space("S").new_cells("c", formula="lambda x: x + %d" % step)
                # sequential model: existing one with that name gets some backup name
                if n in reg:
                    old = reg.pop(n)
                    reg[old.name] = old
                    if not old.name.startswith(n + "_BAK"):
                        probs.append(("collision: old not renamed with backup suffix", old.name))
                reg[n] = mm
                touched = {id(mm)} | ({id(old)} if 'old' in dir() and old is not None else set())
            elif op in ("rename", "rename_old") and reg:
                src = rnd.choice(list(reg))
                dst = rnd.choice(names + ["W"])
                mm = reg[src]
                mm.rename(dst, rename_old=(op == "rename_old"))
                if dst == src:
                    pass
                elif dst in reg and op == "rename":
                    pass            # no-op expected
                else:
                    if dst in reg:
                        old = reg.pop(dst)
                        reg[old.name] = old
                    reg.pop(src)
                    reg[dst] = mm
            elif op == "close" and reg:
                src = rnd.choice(list(reg))
                reg.pop(src).close()
            elif op == "edit" and reg:
                src = rnd.choice(list(reg))
                mm = reg[src]
                mm.S.new_cells("e%d" % step, formula="lambda: %d" % step)
                mm.S.c(step)
                touched = {id(mm)}
            elif op == "read":
                if saved is None and reg:
                    src = rnd.choice(list(reg))
                    saved = os.path.join(root, "sv%d" % seed)
                    reg[src].write(saved)
                    saved = (saved, src)
                elif saved:
                    nm = rnd.choice([None, "Y", "X"])
                    mm = mx.read_model(saved[0], name=nm) if nm else mx.read_model(saved[0])
                    n = mm.name
                    for k, v in list(reg.items()):
                        if k == n and v is not mm:
                            old = reg.pop(k)
                            reg[old.name] = old
                    reg[n] = mm
            elif op == "badname" and reg:
                src = rnd.choice(list(reg))
                try:
                    reg[src].rename(rnd.choice(["1a", "_x", ""]))
                    probs.append(("invalid model name accepted", reg[src].name))
                except ValueError:
                    pass
        except Exception as e:
            probs.append(("op raised", op, type(e).__name__, str(e)[:60]))
        live = mx.get_models()
        if set(live) != set(reg) or any(live[k] is not reg[k] for k in reg if k in live):
            probs.append(("registry mismatch", op, sorted(live), sorted(reg)))
            return probs
        for k, v in live.items():
            if v.name != k:
                probs.append(("name != key", k, v.name))
        # isolation: snapshots of other models unchanged (names may change through backup renaming)
        for mm in reg.values():
            if id(mm) in others and (touched is None or id(mm) not in touched):
                a, b = dict(others[id(mm)]), dict(snap_model(mm))
                a.pop("name"); b.pop("name")
                if norm_names(a) != norm_names(b):
                    probs.append(("other model changed", op))
    return probs


def norm_names(o):
    import re
    if isinstance(o, dict):
        return {k: norm_names(v) for k, v in o.items()}
    if isinstance(o, (list, tuple)):
        return type(o)(norm_names(v) for v in o)
    return o if not isinstance(o, str) else re.sub(r"^[A-Za-z_0-9]+\.", "<M>.", o)


# ------------------------------------------------------------------ C18
VERBOSE = False


def run_c18(seed):
    rnd = random.Random(seed)
    reset()
    m = mx.new_model("M")
    A = m.new_space("A"); B = m.new_space("B", bases=A); C = m.new_space("C")
    owners = {"m": m, "A": A, "B": B, "C": C}
    vals = []
    bound = collections.defaultdict(set)    # id(value) -> {(owner, name)}  DEFINED refs only
    spec_vals = set()                        # ids of values created by new_pandas and not yet dead
    keep = {}
    probs = []

    def live_refs(vid):
        return bound[vid]

    for step in range(16):
        op = rnd.choice(["new_pandas", "new_pandas", "bind", "bind", "rebind", "delete", "delete", "update", "clash", "badname"])
        if VERBOSE:
            print(step, op, [(s.path.as_posix(), s.sheet) for s in m.iospecs], {k: sorted(v) for k, v in bound.items() if v})
        try:
            if op in ("new_pandas", "clash", "badname"):
                ow = rnd.choice(list(owners))
                name = "p%d" % step if op != "badname" else "1bad"
                df = pd.DataFrame({"a": [step]})
                path, sheet = ("f%d.xlsx" % (step % 3), "s%d" % (step % 2)) if op != "clash" else ("f0.xlsx", "s0")
                n_specs = len(m.iospecs)
                try:
                    owners[ow].new_pandas(name, path, df, file_type="excel", sheet=sheet)
                    keep[id(df)] = df
                    bound[id(df)].add((ow, name))
                    spec_vals.add(id(df))
                except Exception as e:
                    if len(m.iospecs) != n_specs:
                        probs.append(("rejected new_pandas left a spec", type(e).__name__))
                    if name in getattr(owners[ow], "refs" if ow == "m" else "_own_refs"):
                        probs.append(("rejected new_pandas left a ref",))
            elif op == "bind" and spec_vals:
                vid = rnd.choice(sorted(spec_vals))
                ow = rnd.choice(list(owners)); name = "b%d" % step
                setattr(owners[ow], name, keep[vid])
                bound[vid].add((ow, name))
            elif op == "rebind":
                allb = [(vid, r) for vid, rs in bound.items() for r in rs]
                if allb:
                    vid, (ow, name) = rnd.choice(allb)
                    setattr(owners[ow], name, step)
                    bound[vid].discard((ow, name))
            elif op == "delete":
                allb = [(vid, r) for vid, rs in bound.items() for r in rs]
                if allb:
                    vid, (ow, name) = rnd.choice(allb)
                    delattr(owners[ow], name)
                    bound[vid].discard((ow, name))
            elif op == "update" and spec_vals:
                vid = rnd.choice(sorted(spec_vals))
                if bound[vid]:
                    new = pd.DataFrame({"a": [100 + step]})
                    m.update_pandas(keep[vid], new)
                    keep[id(new)] = new
                    bound[id(new)] = bound.pop(vid)
                    spec_vals.discard(vid); spec_vals.add(id(new))
        except Exception as e:
            probs.append(("op raised", op, type(e).__name__, str(e)[:80]))
            return probs
        # derived refs in B of A's defined refs keep the value bound too, but they exist iff A's does
        for vid in list(spec_vals):
            if not bound[vid]:
                spec_vals.discard(vid)
        live = {id(s.value) for s in m.iospecs}
        if live != spec_vals:
            probs.append(("iospecs != values bound", op, len(live), len(spec_vals)))
            return probs
        locs = [(s.path.as_posix(), s.sheet) for s in m.iospecs]
        if len(locs) != len(set(locs)):
            probs.append(("two specs share a location", locs))
        try:
            mx.core.mxsys._check_sanity()
        except AssertionError:
            probs.append(("sanity", op))
            return probs
    return probs


if __name__ == "__main__":
    N = int(sys.argv[1]) if len(sys.argv) > 1 else 200
    root = tempfile.mkdtemp(prefix="mxvrecon_")
    for label, fn in (("C19", lambda s: run_c19(s, root)), ("C18", run_c18)):
        kinds = collections.Counter(); ex = {}
        for seed in range(N):
            for p in fn(seed)[:1]:
                kinds[p[:2]] += 1; ex.setdefault(p[:2], (seed, p))
        print(label, "histories", N)
        for k, v in kinds.most_common():
            print("  ", v, k, repr(ex[k])[:300])
    reset()
    shutil.rmtree(root)
