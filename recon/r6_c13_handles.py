"""Recon for C13/C07: old handles after every way of deleting things."""
import collections
from common import *


def build():
    reset()
    m = mx.new_model("M")
    m.g = 1
    A = m.new_space("A")
    A.r = 2
    A.new_cells("a", formula="def a(x):\n    return x + r")
    A.new_cells("a2", formula="def a2(x):\n    return a(x) * 2")
    Ch = A.new_space("Ch")
    Ch.s = 3
    Ch.new_cells("c", formula="def c(x):\n    return x + s")
    G = Ch.new_space("G")
    G.new_cells("gc", formula="def gc(x):\n    return x")
    B = m.new_space("B", bases=A)
    B.new_cells("b", formula="def b(x):\n    return a(x) + 1")
    C = m.new_space("C", bases=B)
    T = m.new_space("T")
    T.new_cells("t", formula="def t(x):\n    return _model.A.a(x) + _model.A.Ch.c(x) + _model.B.a(x)")
    T.new_cells("tr", formula="def tr(x):\n    return _model.A.Ch.s + _model.B.r + x")
    I = m.new_space("I", formula="lambda p: None")
    I.new_cells("ic", formula="def ic(x):\n    return p + x")
    ICh = I.new_space("Ch")
    ICh.new_cells("icc", formula="def icc(x):\n    return p * 2 + x")
    return m


def take(m):
    h = {}
    h["A"] = m.A; h["A.a"] = m.A.a; h["A.a2"] = m.A.a2; h["A.Ch"] = m.A.Ch; h["A.Ch.c"] = m.A.Ch.c
    h["A.Ch.G"] = m.A.Ch.G; h["A.Ch.G.gc"] = m.A.Ch.G.gc
    h["B"] = m.B; h["B.a"] = m.B.a; h["B.b"] = m.B.b; h["C"] = m.C; h["C.a"] = m.C.a; h["C.b"] = m.C.b
    h["T"] = m.T; h["T.t"] = m.T.t; h["T.tr"] = m.T.tr
    h["I"] = m.I; h["I.ic"] = m.I.ic; h["I[1]"] = m.I[1]; h["I[1].ic"] = m.I[1].ic; h["I[1].Ch"] = m.I[1].Ch
    h["I[1].Ch.icc"] = m.I[1].Ch.icc; h["I[2]"] = m.I[2]
    # nodes
    h["node A.a(1)"] = m.A.a.node(1)
    return h


def evaluate_all(m):
    for s in ("A", "B", "C"):
        for x in (0, 1):
            val(getattr(m, s).a, x); val(getattr(m, s).a2, x)
    val(m.B.b, 1); val(m.C.b, 1); val(m.A.Ch.c, 1); val(m.A.Ch.G.gc, 1); val(m.T.t, 1); val(m.T.tr, 1)
    val(m.I[1].ic, 1); val(m.I[1].Ch.icc, 1); val(m.I[2].ic, 1)


def poke(h):
    out = {}
    for k, o in h.items():
        try:
            if k.startswith("node"):
                out[k] = ("alive", repr(o)[:40])
                continue
            n = o.name
            full = o.fullname
            extra = None
            if hasattr(type(o), "formula") and isinstance(o, mx.core.cells.Cells):
                extra = val(o, 1)
            out[k] = ("alive", full, extra)
        except DeletedObjectError:
            out[k] = ("deleted",)
        except Exception as e:
            out[k] = ("other", type(e).__name__, str(e)[:50])
    return out


TRIGGERS = {
    "del A.a": (lambda m: delattr(m.A, "a"), {"A.a", "B.a", "C.a"}),
    "del A.Ch.c": (lambda m: delattr(m.A.Ch, "c"), {"A.Ch.c"}),
    "del A.Ch": (lambda m: delattr(m.A, "Ch"), {"A.Ch", "A.Ch.c", "A.Ch.G", "A.Ch.G.gc"}),
    "del A": (lambda m: delattr(m, "A"), {"A", "A.a", "A.a2", "A.Ch", "A.Ch.c", "A.Ch.G", "A.Ch.G.gc", "B.a", "C.a"}),
    "del B": (lambda m: delattr(m, "B"), {"B", "B.a", "B.b", "C.a", "C.b"}),
    "del B.b": (lambda m: delattr(m.B, "b"), {"B.b", "C.b"}),
    "remove base B<-A": (lambda m: m.B.remove_bases(m.A), {"B.a", "C.a"}),
    "remove base C<-B": (lambda m: m.C.remove_bases(m.B), {"C.a", "C.b"}),
    "rename A.a": (lambda m: m.A.a.rename("z"), set()),
    "del I.ic": (lambda m: delattr(m.I, "ic"), {"I.ic", "I[1]", "I[1].ic", "I[1].Ch", "I[1].Ch.icc", "I[2]"}),
    "del I.Ch": (lambda m: delattr(m.I, "Ch"), {"I[1]", "I[1].ic", "I[1].Ch", "I[1].Ch.icc", "I[2]"}),
    "del I[1]": (lambda m: m.I.__delitem__(1), {"I[1]", "I[1].ic", "I[1].Ch", "I[1].Ch.icc"}),
    "I.clear_at(1)": (lambda m: m.I.clear_at(1), {"I[1]", "I[1].ic", "I[1].Ch", "I[1].Ch.icc"}),
    "I.clear_all": (lambda m: m.I.clear_all(), {"I[1]", "I[1].ic", "I[1].Ch", "I[1].Ch.icc", "I[2]"}),
    "I formula change": (lambda m: setattr(m.I, "formula", "lambda p, q=1: None"), {"I[1]", "I[1].ic", "I[1].Ch", "I[1].Ch.icc", "I[2]"}),
    "new cells in I": (lambda m: m.I.new_cells("zz", formula="lambda: 0"), {"I[1]", "I[1].ic", "I[1].Ch", "I[1].Ch.icc", "I[2]"}),
    "m.g change": (lambda m: setattr(m, "g", 5), {"I[1]", "I[1].ic", "I[1].Ch", "I[1].Ch.icc", "I[2]"}),
    "del m.g": (lambda m: delattr(m, "g"), {"I[1]", "I[1].ic", "I[1].Ch", "I[1].Ch.icc", "I[2]"}),
    "del I": (lambda m: delattr(m, "I"), {"I", "I.ic", "I[1]", "I[1].ic", "I[1].Ch", "I[1].Ch.icc", "I[2]"}),
}

if __name__ == "__main__":
    for name, (trig, expect_deleted) in TRIGGERS.items():
        m = build()
        evaluate_all(m)
        h = take(m)
        before = poke(h)
        assert all(v[0] == "alive" for v in before.values()), before
        trig(m)
        after = poke(h)
        dead = {k for k, v in after.items() if v[0] == "deleted"}
        other = {k: v for k, v in after.items() if v[0] == "other"}
        msgs = []
        if expect_deleted - dead:
            msgs.append("STILL ANSWERING: %s" % {k: after[k] for k in sorted(expect_deleted - dead)})
        if dead - expect_deleted:
            msgs.append("unexpectedly deleted: %s" % sorted(dead - expect_deleted))
        if other:
            msgs.append("other errors: %s" % other)
        # leftovers: graph nodes / held values of deleted things, listings
        left = [repr(n)[:50] for n in m.tracegraph.nodes if not n[0].interface._is_valid()] if True else []
        if left:
            msgs.append("graph nodes of deleted objects: %s" % left[:3])
        hv = held(m)
        sane = sanity(m)
        if sane:
            msgs.append("sanity: %s" % sane[-1])
        print("%-20s %s" % (name, "ok" if not msgs else ""))
        for x in msgs:
            print("      ", x[:400])
        # values computed from deleted things
        stale = {k: v for k, v in hv.items() if k in ("M.T.t", "M.T.tr")}
        if stale and name.startswith(("del A", "del B", "remove", "del A.Ch")):
            print("       held in T after:", stale)
