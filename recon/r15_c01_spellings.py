"""Recon for C01: spellings denote one element; computed once; any query order; vs plain Python."""
import random, sys, itertools, collections
from common import *

LOG = []


def pre(space, name, key):
    LOG.append((space._evalrepr, name, key))


def build(rnd):
    reset()
    m = mx.new_model("M")
    m.pre__ = pre
    m.g = rnd.randint(1, 5)
    A = m.new_space("A"); A.r = rnd.randint(1, 5)
    Ch = A.new_space("Ch"); Ch.k = rnd.randint(1, 5)
    Ch.new_cells("cc", formula="def cc(x, y=1):\n    pre__(_space, 'cc', (x, y))\n    return x * k + y")
    spec = {}
    n = rnd.randint(2, 5)
    for i in range(n):
        name = "c%d" % i
        two = rnd.random() < 0.5
        sig = "x, y=2" if two else "x"
        terms = []
        for j in rnd.sample(range(i), min(i, rnd.randint(0, 2))):
            cj = "c%d" % j
            a = rnd.choice(["x", "0", "1"])
            if spec[cj]["two"]:
                terms.append(rnd.choice(["%s(%s)", "%s(%s, 2)", "%s(x=%s)", "%s(%s, y=2)", "%s(y=2, x=%s)"]) % (cj, a))
            else:
                terms.append(rnd.choice(["%s(%s)", "%s(x=%s)"]) % (cj, a))
        if rnd.random() < 0.4:
            terms.append(rnd.choice(["Ch.cc(x)", "Ch.cc(x, 1)", "Ch.cc(y=1, x=x)"]))
        terms += ["x", "r", "g"] + (["y"] if two else [])
        key = "(x, y)" if two else "(x,)"
        A.new_cells(name, formula="def %s(%s):\n    pre__(_space, '%s', %s)\n    return %s" % (name, sig, name, key, " + ".join(terms)))
        spec[name] = {"two": two, "src": " + ".join(terms)}
    A.new_cells("sc", formula="def sc():\n    pre__(_space, 'sc', ())\n    return c0(1) + r")
    return m, spec


def plain(m, spec):
    """plain Python evaluation (no cache) with the same names"""
    env = {"r": m.A.r, "g": m.g}
    class ChP:
        k = m.A.Ch.k
        @staticmethod
        def cc(x, y=1):
            return x * ChP.k + y
    env["Ch"] = ChP
    for name, sp in spec.items():
        sig = "x, y=2" if sp["two"] else "x"
        exec("def %s(%s):\n    return %s" % (name, sig, sp["src"]), env)
    exec("def sc():\n    return c0(1) + r", env)
    return env


def run(seed):
    rnd = random.Random(seed)
    m, spec = build(rnd)
    env = plain(m, spec)
    probs = []
    queries = []
    for name, sp in spec.items():
        c = m.A.cells[name]
        for x in (0, 1, 2):
            if sp["two"]:
                forms = [lambda c=c, x=x: c(x), lambda c=c, x=x: c(x, 2), lambda c=c, x=x: c(x=x), lambda c=c, x=x: c(y=2, x=x),
                         lambda c=c, x=x: c[x, 2], lambda c=c, x=x: c(x, y=2)]
                queries.append((name, (x, 2), forms, env[name](x)))
            else:
                forms = [lambda c=c, x=x: c(x), lambda c=c, x=x: c(x=x), lambda c=c, x=x: c[x], lambda c=c, x=x: c[(x,)]]
                queries.append((name, (x,), forms, env[name](x)))
    queries.append(("sc", (), [lambda: m.A.sc(), lambda: m.A.sc.value, lambda: m.A.sc[()]], env["sc"]()))
    for order in range(4):
        m.clear_all()
        LOG.clear()
        qs = queries[:]
        rnd.shuffle(qs)
        for name, key, forms, exp in qs:
            c = m.A.cells[name]
            n0 = len(c)
            had = key in dict(c._impl.data)
            f = rnd.choice(forms)
            v = f()
            if v != exp:
                probs.append(("value", name, key, v, exp))
            for f2 in forms:                     # every other spelling: same element, no execution
                before = len(LOG)
                n1 = len(c)
                v2 = f2()
                if v2 != v or len(c) != n1 or len(LOG) != before:
                    probs.append(("spelling made a new element or re-executed", name, key))
        cnt = collections.Counter(LOG)
        twice = {k: v for k, v in cnt.items() if v > 1}
        if twice:
            probs.append(("executed twice while held", list(twice.items())[:3]))
        # elements held == distinct (cells, key) executed
        if sanity(m):
            probs.append(("sanity",))
    return probs, len(queries) * 4


if __name__ == "__main__":
    N = int(sys.argv[1]) if len(sys.argv) > 1 else 200
    kinds = collections.Counter(); ex = {}; tot = 0
    for seed in range(N):
        probs, n = run(seed)
        tot += n
        for p in probs[:1]:
            kinds[p[0]] += 1; ex.setdefault(p[0], (seed, p))
    print("models", N, "queries", tot)
    for k, v in kinds.most_common():
        print(v, k, repr(ex[k])[:300])
