"""Recon for C15: exported package vs model on generated programs (subprocess with modelx import blocked)."""
import random, sys, os, json, tempfile, shutil, subprocess, collections
from common import *

EXPRS = [
    "x + r",
    "sum([{callee}(i) for i in range(x)]) + r",
    "sum({callee}(i) for i in range(x))",
    "max({callee}(x), 2) + abs(-r)",
    "len({{i: {callee}(i) for i in range(2)}}) + x",
    "(lambda z: z + {callee}(z))(x)",
    "{callee}(x=x) + {callee}(0)",
    "sorted([{callee}(x), r, g])[0]",
    "({callee}(x) if x > 1 else -{callee}(0)) + Ch.k",
    "Ch.cc(x) + {callee}(1)",
    "_space.r + _model.g + {callee}(x)",
]
BODIES = [
    "return {e}",
    "sum = 5\n    return sum + {e}",                      # local shadows builtin
    "def inner(y):\n        return y + r\n    return inner({e})",
    "t = [{e} for _ in range(1)]\n    return t[0]",
    "try:\n        v = {e}\n    except ZeroDivisionError:\n        v = -1\n    return v",
    "class K:\n        w = 3\n    return K.w + {e}",
    "import math\n    return math.floor({e})",
    "v = 0\n    for i in range(2):\n        v += {e}\n    return v",
]


def build(rnd):
    reset()
    m = mx.new_model("M")
    m.g = rnd.randint(1, 9)
    m.min = 77                 # model-level ref named like a builtin
    names = []
    A = m.new_space("A")
    A.r = rnd.randint(1, 9)
    A.len_ = 3
    Ch = A.new_space("Ch")
    Ch.k = rnd.randint(1, 9)
    Ch.new_cells("cc", formula="def cc(x):\n    return x * k")
    A.new_cells("c0", formula="def c0(x):\n    return x + r + min")
    names.append("c0")
    ncells = rnd.randint(2, 5)
    for i in range(1, ncells):
        n = "c%d" % i
        e = rnd.choice(EXPRS).format(callee=rnd.choice(names))
        b = rnd.choice(BODIES).format(e=e)
        cached = rnd.random() > 0.3
        if rnd.random() < 0.25 and "\n" not in b:
            A.new_cells(n, formula="lambda x: " + b[len("return "):], is_cached=cached)
        else:
            A.new_cells(n, formula="def %s(x):\n    %s" % (n, b), is_cached=cached)
        names.append(n)
    # inheritance with override
    B = m.new_space("B", bases=A)
    B.r = A.r + 10
    if rnd.random() < 0.5:
        B.c0.formula = "def c0(x):\n    return x * 2 + r"
    B.new_space("Ch").k = 1
    B.Ch.new_cells("cc", formula="def cc(x):\n    return -x")
    # parametrised with defaults + nested
    P = m.new_space("P", formula="def _formula(p, q=2):\n    return None")
    P.r = 1
    P.new_cells("pc", formula="def pc(x):\n    return p * 100 + q * 10 + x + r + Q.qc(x)")
    Q = P.new_space("Q", formula="lambda z: None")
    Q.new_cells("qc", formula="def qc(x):\n    return p + x")
    Q.new_cells("qz", formula="def qz(x):\n    return p + z + x + qc(x)")
    P.absref(A_=A)
    P.new_cells("pa", formula="def pa(x):\n    return A_.c0(x) + p")
    return m, names


def queries(names):
    qs = []
    for sp in ("A", "B"):
        for n in names:
            for x in (0, 1, 3):
                qs.append(([sp], n, [x]))
    for n in ("cc",):
        qs.append((["A", "Ch"], n, [2]))
        qs.append((["B", "Ch"], n, [2]))
    for args in ([1], [1, 5], [2, 2]):
        qs.append((["P", args], "pc", [1]))
        qs.append((["P", args], "pa", [1]))
        qs.append((["P", args, "Q"], "qc", [1]))
        qs.append((["P", args, "Q", [4]], "qz", [1]))
    return qs


DRIVER = r'''
import sys, json, importlib.abc
class Block(importlib.abc.MetaPathFinder):
    def find_spec(self, name, path, target=None):
        if name == "modelx" or name.startswith("modelx."):
            raise ImportError("modelx blocked")
sys.meta_path.insert(0, Block())
sys.path.insert(0, sys.argv[1])
pkg = __import__(sys.argv[2])
qs = json.load(open(sys.argv[3]))
out = []
for path, name, args in qs:
    try:
        o = pkg.mx_model
        for p in path:
            o = o(*p) if isinstance(p, list) else getattr(o, p)
        out.append(repr(getattr(o, name)(*args)))
    except Exception as e:
        out.append("ERR " + type(e).__name__ + " " + str(e)[:80])
print(json.dumps({"vals": out, "modelx_loaded": "modelx" in sys.modules}))
'''


def run(seed, root):
    rnd = random.Random(seed)
    m, names = build(rnd)
    qs = queries(names)
    live = []
    for path, name, args in qs:
        def f():
            o = m
            for p in path:
                o = o(*p) if isinstance(p, list) else getattr(o, p)
            return getattr(o, name)(*args)
        v = val(f)
        live.append(repr(v) if not isinstance(v, tuple) else "ERR " + v[1])
    pkgdir = os.path.join(root, "pk%d" % seed)
    try:
        m.export(os.path.join(pkgdir, "pkgM"))
    except Exception as e:
        return [("export raised", type(e).__name__, str(e)[:100])], len(qs)
    qf = os.path.join(pkgdir, "q.json")
    json.dump(qs, open(qf, "w"))
    drv = os.path.join(root, "driver.py")
    open(drv, "w").write(DRIVER)
    r = subprocess.run([sys.executable, drv, pkgdir, "pkgM", qf], capture_output=True, text=True, timeout=120,
                       env={"PATH": os.environ["PATH"]})
    if r.returncode != 0:
        return [("package failed", r.stderr.strip().splitlines()[-1][:200] if r.stderr else "")], len(qs)
    res = json.loads(r.stdout.strip().splitlines()[-1])
    probs = []
    if res["modelx_loaded"]:
        probs.append(("modelx imported",))
    for q, a, b in zip(qs, live, res["vals"]):
        if a != b and not (a.startswith("ERR") and b.startswith("ERR")):
            src = None
            try:
                src = mx.get_object("M." + ".".join(p for p in q[0] if isinstance(p, str)) + "." + q[1]).formula.source
            except Exception:
                pass
            probs.append(("value differs", q, a, b, src))
    return probs, len(qs)


if __name__ == "__main__":
    N = int(sys.argv[1]) if len(sys.argv) > 1 else 40
    root = tempfile.mkdtemp(prefix="mxvrecon_")
    kinds = collections.Counter(); ex = {}; total = 0
    for seed in range(N):
        probs, n = run(seed, root)
        total += n
        for p in probs:
            kinds[p[0]] += 1
            ex.setdefault((p[0], str(p[-1])[:60]), (seed, p))
    print("packages", N, "queries", total)
    for k, v in kinds.most_common():
        print(v, k)
    for k, e in list(ex.items())[:12]:
        print("   ", repr(e)[:500])
    shutil.rmtree(root)
