"""Recon for C05/C17: every element of a clean run as failure point (entry/exit), with histories."""
import random, sys, collections
from common import *
from modelx.core.errors import FormulaError

LOG = []          # ("ENTER"/"EXIT", name, key)
ARM = {"at": None, "exc": None, "none": False}


class UserErr(Exception):
    pass


class UserBase(BaseException):
    pass


KINDS = [ValueError, ZeroDivisionError, KeyError, UserErr, StopIteration, RecursionError, UserBase, "none"]


def pre(space, name, key):
    LOG.append(("ENTER", space._evalrepr, name, key))
    if ARM["at"] == ("pre", space._evalrepr, name, key) and ARM["exc"] != "none":
        ARM["obj"] = ARM["exc"]("injected")
        raise ARM["obj"]


def post(space, name, key, value):
    if ARM["at"] == ("post", space._evalrepr, name, key):
        if ARM["exc"] == "none":
            return None
        ARM["obj"] = ARM["exc"]("injected")
        raise ARM["obj"]
    if ARM["at"] == ("pre", space._evalrepr, name, key) and ARM["exc"] == "none":
        return None
    LOG.append(("EXIT", space._evalrepr, name, key))
    return value


def build(rnd, ncells, handled):
    reset()
    m = mx.new_model("M")
    m.pre__ = pre
    m.post__ = post
    A = m.new_space("A")
    B = m.new_space("B", formula="lambda p: None")
    A.absref(B_=B)
    names = []
    lines = {}
    for i in range(ncells):
        n = "c%d" % i
        calls = []
        for j in rnd.sample(range(i), min(i, rnd.randint(0, 2))):
            arg = rnd.choice(["x", "0", "1"])
            form = rnd.choice(["plain", "listcomp", "gen", "nested", "kw"])
            callee = "c%d" % j
            if form == "plain":
                calls.append("%s(%s)" % (callee, arg))
            elif form == "kw":
                calls.append("%s(x=%s)" % (callee, arg))
            elif form == "listcomp":
                calls.append("sum([%s(%s) for _ in range(1)])" % (callee, arg))
            elif form == "gen":
                calls.append("sum(%s(%s) for _ in range(1))" % (callee, arg))
            else:
                calls.append("(lambda q: %s(q))(%s)" % (callee, arg))
        if rnd.random() < 0.3:
            calls.append("(%s(x - 1) if x > 0 else 0)" % n)
        if rnd.random() < 0.3:
            calls.append("B_[x].bc(x)")
        body = " + ".join(calls + ["x"])
        cached = rnd.random() > 0.25
        A.new_cells(n, formula="def %s(x):\n    pre__(_space, '%s', (x,))\n    return post__(_space, '%s', (x,), %s)" % (n, n, n, body),
                    is_cached=cached)
        names.append(n)
    B.new_cells("bc", formula="def bc(x):\n    pre__(_space, 'bc', (x,))\n    return post__(_space, 'bc', (x,), p + x)")
    # a catcher that handles a failing callee
    A.new_cells("boom", formula="def boom(x):\n    raise IndexError('always')")
    A.new_cells("catcher", formula="def catcher(x):\n    try:\n        boom(x)\n    except IndexError:\n        pass\n    return %s(x)" % names[-1])
    return m, names


def chain_at_raise(log):
    stack = []
    for ev in log:
        if ev[0] == "ENTER":
            stack.append(ev[1:])
        else:
            assert stack[-1] == ev[1:], (stack, ev)
            stack.pop()
    return stack


def nodes_of_tb(tb):
    out = []
    for node, line in tb:
        o = node.obj
        out.append((o.parent._evalrepr, o.name, node.args))
    return out


def run(seed):
    rnd = random.Random(seed)
    m, names = build(rnd, rnd.randint(2, 6), True)
    top = names[-1]
    x0 = rnd.randint(0, 2)
    ARM.update(at=None, exc=None)
    LOG.clear()
    clean = m.A.cells[top](x0)
    clean_log = list(LOG)
    clean_held = held(m)
    elements = [ev[1:] for ev in clean_log if ev[0] == "ENTER"]
    probs = []
    n = 0
    for el in dict.fromkeys(elements):
        for when in ("pre", "post"):
            kind = rnd.choice(KINDS)
            cobj = mx.get_object(el[0].split("(")[0] + "." + el[1]) if "(" not in el[0] else None
            if kind == "none" and (cobj is None or not cobj.is_cached):
                kind = ValueError        # uncached cells are not subject to the None check
            if kind is StopIteration:
                kind = UserErr           # PEP 479 turns it into RuntimeError inside generators
            hist = rnd.choice(["none", "handled_before", "unhandled_before", "via_catcher"])
            m.clear_all()
            ARM.update(at=None, exc=None)
            if hist == "handled_before":
                val(m.A.catcher, 0)
                m.clear_all()
            elif hist == "unhandled_before":
                val(m.A.boom, 0)
            n += 1
            ARM.update(at=(when,) + el, exc=kind)
            LOG.clear()
            query = m.A.catcher if hist == "via_catcher" else m.A.cells[top]
            try:
                query(x0)
                probs.append(("no raise", kind, when))
                continue
            except FormulaError:
                pass
            except BaseException as e:
                probs.append(("raised %s instead of FormulaError" % type(e).__name__, kind))
                ARM.update(at=None)
                continue
            faillog = list(LOG)
            ARM.update(at=None)
            err = mx.get_error()
            if kind == "none":
                if type(err).__name__ != "NoneReturnedError":
                    probs.append(("none kind gave", type(err).__name__))
            elif err is not ARM["obj"]:
                probs.append(("get_error is not injected object", kind, repr(err)))
            # executing chain at the raise
            chain = chain_at_raise(faillog)
            if hist == "via_catcher":
                chain = [("M.A", "catcher", (x0,))] + chain
            tb = nodes_of_tb(mx.get_traceback())
            if tb != chain:
                probs.append(("traceback != chain", hist, kind if kind == "none" else "exc", "extra" if len(tb) > len(chain) else "short", tb[len(chain):] if len(tb) > len(chain) else (tb, chain)))
            # no element on the chain holds a value; completed ones keep correct values
            h = held(m)
            for sp, name, key in chain:
                if key in h.get(sp + "." + name, {}):
                    probs.append(("chain element holds a value", name, key))
            exited = {ev[1:] for ev in faillog if ev[0] == "EXIT"}
            for sp, name, key in exited:
                c = mx.get_object(sp + "." + name) if "(" not in sp else None
                if c is not None and c.is_cached:
                    if h.get(sp + "." + name, {}).get(key) != clean_held.get(sp + "." + name, {}).get(key):
                        probs.append(("completed element lost/wrong", name, key))
            s = sanity(m)
            if s:
                probs.append(("sanity after failure", s[-1]))
            # retry
            LOG.clear()
            again = val(m.A.cells[top], x0)
            if again != clean:
                probs.append(("retry differs", again, clean))
            if held(m) != clean_held and hist != "via_catcher":
                hm = held(m)
                d = {k for k in set(hm) | set(clean_held) if hm.get(k) != clean_held.get(k) and not k.endswith(("catcher", "boom"))}
                if d:
                    probs.append(("held after retry differs", sorted(d)[:3]))
    return probs, n


if __name__ == "__main__":
    N = int(sys.argv[1]) if len(sys.argv) > 1 else 200
    kinds = collections.Counter()
    ex = {}
    total = 0
    for seed in range(N):
        probs, n = run(seed)
        total += n
        for p in probs:
            k = p[:4] if p[0].startswith("traceback") else p[:2]
            kinds[k] += 1
            ex.setdefault(k, (seed, p))
    print("models", N, "injected failures", total)
    for k, v in kinds.most_common():
        print(v, k)
        print("     ", repr(ex[k])[:300])
