"""Recon for C14: every audited file operation of a save / load as failure point.

Each failure point starts from an identical restored on-disk state and a fresh model.
"""
import sys, os, errno, shutil, tempfile, collections, zipfile

FS = {"open", "os.mkdir", "os.rename", "os.remove", "os.rmdir", "os.scandir", "shutil.move", "shutil.rmtree",
      "shutil.copyfile", "tempfile.mkdtemp", "pickle.find_class"}
ST = {"on": False, "k": None, "n": 0, "root": None, "log": [], "persistent": True, "fired": 0}


def hook(ev, args):
    if not ST["on"] or ev not in FS:
        return
    a = args[0] if args else None
    if ev == "pickle.find_class":
        pass
    else:
        try:
            p = os.fspath(a) if a is not None and not isinstance(a, int) else None
        except TypeError:
            p = None
        if p is None:
            return
        p = p.decode() if isinstance(p, bytes) else p
        if not (p.startswith(ST["root"]) or p.startswith(ST["tmp"])):
            return
    ST["n"] += 1
    ST["log"].append((ev, str(a)[-45:]))
    if ST["k"] is not None and (ST["n"] == ST["k"] or (ST["persistent"] and ST["n"] > ST["k"])):
        ST["fired"] += 1
        raise OSError(errno.ENOSPC, "injected at #%d %s" % (ST["n"], ev))


sys.addaudithook(hook)
from common import *         # noqa  (imports modelx after the hook is installed)


def build(gen):
    m = mx.new_model("G")
    A = m.new_space("A", formula="lambda p: None")
    A.gen = gen
    A.data = [gen] * 3
    A.new_cells("f", formula="lambda x: x + gen")
    A.new_space("Ch").new_cells("c", formula="def c(x):\n    return x")
    A.f[1] = 7
    A[1].f[2] = 70          # last: any later namespace change would discard the instance
    return m


def gen_of(path):
    """generation held by a copy, or None if it is not a complete readable model"""
    before = set(mx.get_models())
    try:
        r = mx.read_model(path, name="R")
        g = r.A.gen
        ok = r.A.f(1) == 7 and r.A[1].f(2) == 70 and r.A.Ch.c(3) == 3 and r.A.data == [g] * 3
        r.close()
        return g if ok else "incomplete"
    except Exception as e:
        for n in set(mx.get_models()) - before:
            mx.get_models()[n].close()
        return None


def copies(root, base):
    out = {}
    for suf in ("", "_BAK1", "_BAK2", "_BAK3", "_BAK4"):
        p = os.path.join(root, base + suf)
        if os.path.exists(p):
            out[suf or "path"] = gen_of(p)
    return out


def restore(pristine, root):
    shutil.rmtree(root)
    shutil.copytree(pristine, root)


def main():
    base_tmp = tempfile.mkdtemp(prefix="mxvrecon_")
    ST["tmp"] = tempfile.gettempdir() + "/tmp"
    root = os.path.join(base_tmp, "work")
    pristine = os.path.join(base_tmp, "pristine")
    stats = collections.Counter()
    ex = {}
    for fmt in ("dir", "zip"):
        for prefix in (0, 1, 3):
            # pristine on-disk state with `prefix` earlier complete generations
            for d in (root, pristine):
                shutil.rmtree(d, ignore_errors=True)
            os.makedirs(root)
            ST["root"] = root
            target = os.path.join(root, "m")
            for g in range(1, prefix + 1):
                reset(); m = build(g)
                (m.write if fmt == "dir" else m.zip)(target)
            shutil.copytree(root, pristine)
            # clean counting run
            reset(); m = build(prefix + 1)
            ST.update(on=True, k=None, n=0, log=[])
            (m.write if fmt == "dir" else m.zip)(target)
            ST["on"] = False
            N, events = ST["n"], list(ST["log"])
            for mode in ("persistent", "oneshot"):
                for k in range(1, N + 1):
                    restore(pristine, root)
                    reset(); m = build(prefix + 1)
                    snap0 = snap_model(m)
                    ST.update(on=True, k=k, n=0, log=[], persistent=(mode == "persistent"), fired=0)
                    try:
                        (m.write if fmt == "dir" else m.zip)(target)
                        raised = None
                    except BaseException as e:
                        raised = type(e).__name__
                    ST["on"] = False
                    key = (fmt, prefix, mode)
                    stats[key + ("runs",)] += 1
                    probs = []
                    if raised is None:
                        stats[key + ("absorbed",)] += 1
                    sysflags = (mx.core.mxsys.serializing, mx.core.mxsys.iomanager.serializing)
                    if any(sysflags):
                        probs.append("flags left set")
                    s1 = snap_model(m)
                    for d in (snap0, s1):
                        d.pop("name", None)
                    if s1 != snap0:
                        probs.append("source model changed")
                    cp = copies(root, "m")
                    newest_complete = prefix + 1 if (raised is None and cp.get("path") == prefix + 1) else prefix
                    if raised is not None or cp.get("path") != prefix + 1:
                        # interrupted (or absorbed and damaged): last good generation = prefix
                        if prefix > 0 and cp.get("path") != prefix and cp.get("_BAK1") != prefix and cp.get("path") != prefix + 1:
                            probs.append("last good copy neither at path nor _BAK1: %s" % cp)
                    if raised is None and cp.get("path") != prefix + 1 and mode == "persistent":
                        probs.append("save returned normally but path unreadable (persistent)")
                    if raised is None and cp.get("path") != prefix + 1 and mode == "oneshot":
                        stats[key + ("absorbed-and-damaged (stdlib fallback)",)] += 1
                    gens = [v for k2, v in sorted(cp.items(), key=lambda kv: (kv[0] != "path", kv[0])) if isinstance(v, int)]
                    if gens != sorted(gens, reverse=True):
                        probs.append("generations out of order %s" % cp)
                    if fmt == "zip" and os.path.exists(target) and raised is not None:
                        if cp.get("path") is None:
                            probs.append("zip destination holds an incomplete archive")
                    # session usable: clean save + load afterwards
                    reset(); m2 = build(99)
                    try:
                        (m2.write if fmt == "dir" else m2.zip)(target)
                        if gen_of(target) != 99:
                            probs.append("next clean save not readable")
                    except Exception as e:
                        probs.append("next clean save raised %s" % type(e).__name__)
                    for p in probs:
                        stats[key + (p.split(":")[0],)] += 1
                        ex.setdefault(key + (p.split(":")[0],), (k, events[k - 1] if k <= len(events) else None, raised, p, cp))
            # ---- load faults
            restore(pristine, root)
            reset(); m = build(prefix + 1); (m.write if fmt == "dir" else m.zip)(target); reset()
            shutil.rmtree(pristine); shutil.copytree(root, pristine)
            ST.update(on=True, k=None, n=0, log=[])
            r = mx.read_model(target); ST["on"] = False; NL = ST["n"]; r.close()
            for k in range(1, NL + 1):
                reset()
                other = mx.new_model("Other")
                ST.update(on=True, k=k, n=0, log=[], persistent=True, fired=0)
                try:
                    r = mx.read_model(target, name="Loaded")
                    raised = None
                except BaseException as e:
                    raised = type(e).__name__
                ST["on"] = False
                key = (fmt, prefix, "load")
                stats[key + ("runs",)] += 1
                if raised is None:
                    stats[key + ("absorbed",)] += 1
                    r.close()
                else:
                    left = sorted(set(mx.get_models()) - {"Other"})
                    if left:
                        stats[key + ("half-loaded model left registered",)] += 1
                        ex.setdefault(key + ("half-loaded model left registered",), (k, ST["log"][k - 1], raised, left))
                    if mx.core.mxsys.serializing or mx.core.mxsys.iomanager.serializing:
                        stats[key + ("flags left set",)] += 1
                    if gen_of(target) != prefix + 1:
                        stats[key + ("clean load afterwards fails",)] += 1
    for k, v in sorted(stats.items()):
        print(v, k)
    print()
    for k, v in ex.items():
        print(k, "\n     ", repr(v)[:400])
    shutil.rmtree(base_tmp)


if __name__ == "__main__":
    main()
