"""Recon for C03/C11/C12: random inheritance histories vs derivation from scratch."""
import random, sys, collections
from common import *

NS = 4
NAMES = ["m1", "m2"]


def c3(bases, s):
    seqs = [c3(bases, b) for b in bases[s]] + [list(bases[s])]
    res = [s]
    while True:
        seqs = [q for q in seqs if q]
        if not seqs:
            return res
        for q in seqs:
            cand = q[0]
            if not any(cand in t[1:] for t in seqs):
                break
        else:
            raise TypeError("no mro")
        res.append(cand)
        seqs = [[x for x in q if x != cand] for q in seqs]


def expected(defs, bases, s, kind):
    out = {}
    for sp in c3(bases, s):
        for n, v in defs[sp][kind].items():
            out.setdefault(n, (v, sp != s))
    return out


def observed(m, s, kind):
    sp = getattr(m, s)
    out = {}
    if kind == "cells":
        for n, c in sp.cells.items():
            out[n] = (c.formula.source, c._is_derived())
    else:
        for n in sp._own_refs:
            p = sp._get_object(n, as_proxy=True)
            out[n] = (p.value, p.is_derived())
    return out


def run(seed, nops=25, verbose=False):
    rnd = random.Random(seed)
    reset()
    m = mx.new_model("M")
    sp = ["S%d" % i for i in range(NS)]
    defs = {s: {"cells": {}, "refs": {}} for s in sp}
    bases = {s: [] for s in sp}
    for s in sp:
        m.new_space(s)
    hist = []
    k = 0
    for step in range(nops):
        k += 1
        s = rnd.choice(sp)
        n = rnd.choice(NAMES)
        kind = rnd.choice(["cells", "refs"])
        op = rnd.choice(["define", "define", "delete", "add_base", "add_base", "remove_base"])
        S = getattr(m, s)
        before = snap_model(m)
        desc = None
        try:
            if op == "define":
                if kind == "cells":
                    src = "lambda: %d" % k
                    desc = (op, s, "cells", n, src)
                    if n in S.cells:
                        S.cells[n].formula = src
                    else:
                        S.new_cells(n, formula=src)
                    defs[s]["cells"][n] = src
                else:
                    if n in S.cells:       # `space.name = v` on a scalar cells assigns its value
                        continue
                    desc = (op, s, "refs", n, k)
                    setattr(S, n, k)
                    defs[s]["refs"][n] = k
            elif op == "delete":
                desc = (op, s, kind, n)
                if kind == "cells":
                    if n not in S.cells:
                        continue
                    del S.cells[n]
                else:
                    if n not in S._own_refs:
                        continue
                    delattr(S, n)
                defs[s][kind].pop(n)      # only reached if accepted
            elif op == "add_base":
                cand = [x for x in sp if x != s and x not in bases[s]]
                if not cand:
                    continue
                b = rnd.choice(cand)
                desc = (op, s, b)
                S.add_bases(getattr(m, b))
                bases[s].append(b)
            elif op == "remove_base":
                if not bases[s]:
                    continue
                b = rnd.choice(bases[s])
                desc = (op, s, b)
                S.remove_bases(getattr(m, b))
                bases[s].remove(b)
            hist.append(desc + ("ok",))
        except Exception as e:
            hist.append(desc + ("REJ:" + type(e).__name__,))
            after = snap_model(m)
            if after != before:
                return ("C11-rejected-but-changed", seed, hist)
            continue
        # compare with derivation from scratch
        for t in sp:
            for kd in ("cells", "refs"):
                try:
                    exp = expected(defs, bases, t, kd)
                except TypeError:
                    return ("accepted-without-mro", seed, hist)
                obs = observed(m, t, kd)
                if exp != obs:
                    return ("C03-mismatch", seed, hist, t, kd, exp, obs)
            expb = ["M." + x for x in c3(bases, t)[1:]]
            if [b.fullname for b in getattr(m, t).bases] != expb:
                return ("C03-bases", seed, hist, t)
            # C12: a name in two kinds
            T = getattr(m, t)
            dup = set(T.cells) & set(T._own_refs)
            if dup:
                return ("C12-dup", seed, hist, t, dup)
        bad = sanity(m)
        if bad:
            return ("sanity", seed, hist, bad)
    return None


if __name__ == "__main__":
    n = int(sys.argv[1]) if len(sys.argv) > 1 else 300
    kinds = collections.Counter()
    first = {}
    for seed in range(n):
        r = run(seed)
        if r:
            # crude signature: kind + last op kind
            sig = (r[0], r[2][-1][0], r[2][-1][2] if len(r[2][-1]) > 3 else "")
            kinds[sig] += 1
            first.setdefault(sig, r)
    print("histories", n, "violating", sum(kinds.values()))
    for sig, c in kinds.most_common():
        print(c, sig)
        r = first[sig]
        print("    seed", r[1], "len", len(r[2]), "tail:", r[2][-4:])
        if len(r) > 4:
            print("    detail:", r[3:])
