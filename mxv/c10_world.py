"""C10 helper: the live model + the definitions, one op interpreter, and the binding oracle.

The definitions are kept in refmodel structures (RModel/RSpace/RRef, C3 `mro`, `members`).
The oracle is the statement of C10:

  static derivation   refmodel.binding(deriver, definer, ref)  (UNKNOWN where the statement is silent)
  dynamic trees       an ItemSpace is built on a base tree B (the parametrised space, or the space its
                      formula names as 'base'); a dynamic space mirrors one static space D' of B; a
                      reference visible in D' whose (static) binding b lies inside B's tree is bound to
                      the corresponding object of the dynamic tree unless its mode is absolute; every
                      other reference keeps denoting b.

Everything is observed through the public API: getattr(space, name), ReferenceProxy.refmode,
space(1) / space.spaces / space.cells; a formula `lambda: <name>` (cells peek_<name>) shows the
binding the formula namespace uses.

"The original object" is the very object that was assigned: every object-valued RRef carries the live
handle (`ref.live`).  When that handle is no longer valid (target deleted, or a derived cells that
went away with a base) the statement has nothing to say and nothing is asserted.
"""
import os
import shutil
import tempfile

from .mxutil import mx, Inconclusive, relfull
from . import refmodel as R
from modelx.core.base import Interface
from modelx.core.errors import FormulaError

MODES = ("auto", "relative", "absolute")


class Skip(Exception):
    """the op does not apply to the current structure (e.g. after an earlier rejection / shrinking)"""


class Stop(Exception):
    """the history cannot be continued (not a verdict); .reason is a counter name"""
    def __init__(self, reason):
        Exception.__init__(self, reason)
        self.reason = reason


def relnames(rs, root):
    """names leading from root down to rs (rs must be within root)"""
    out = []
    s = rs
    while s is not root:
        out.append(s.name)
        s = s.parent
    return list(reversed(out))


def depth_below(rs, root):
    return len(relnames(rs, root))


def alive(o):
    try:
        return isinstance(o, Interface) and bool(o._is_valid())
    except Exception:     # noqa
        return False


class World:
    def __init__(self):
        self.m = mx.new_model("M")
        self.rm = R.RModel("M")
        # a second model: targets in another model are always "outside"
        self.x = mx.new_model("N")
        e = self.x.new_space("E")
        e.new_cells("ec", formula="lambda: 9")
        self.rx = R.RModel("N")
        R.apply_op(self.rx, {"op": "new_space", "name": "E"}, {})
        R.apply_op(self.rx, {"op": "new_cells", "space": "E", "name": "ec", "params": [], "body": "9",
                             "lam": True}, {}, probe=False)
        self.inputs = {}
        self.tmp = None
        self.reloads = 0
        self.fbase_text = {}       # id(RFormula) -> path text of the explicit base written into the source
        self.last_error = None

    def close(self):
        if self.tmp:
            shutil.rmtree(self.tmp, ignore_errors=True)
            self.tmp = None

    # ------------------------------------------------------------------ lookups
    def rget(self, path):
        try:
            return self.rm.get(path)
        except KeyError:
            raise Skip(path)

    def live_space(self, rs):
        root = self.m if rs.model() is self.rm else self.x
        o = root
        try:
            for p in rs.path().split("."):
                o = o.spaces[p]
        except Exception as e:     # noqa
            self.last_error = "live model has no space %s (%s)" % (rs.path(), type(e).__name__)
            raise Stop("stopped_live_members_differ_from_derivation")
        return o

    def live_obj(self, b):
        sp = self.live_space(b[1])
        if b[0] == "space":
            return sp
        try:
            return sp.cells[b[2]]
        except Exception as e:     # noqa   which cells a space has is C03's subject
            self.last_error = "live model has no cells %s.%s (%s)" % (b[1].path(), b[2], type(e).__name__)
            raise Stop("stopped_live_members_differ_from_derivation")

    def rvalue(self, v):
        """op value -> (kind, reference-model value)"""
        if "lit" in v:
            return "lit", v["lit"]
        if "space" in v:
            return "space", self.rget(v["space"])
        if "cell" in v:
            sp, name = v["cell"].rsplit(".", 1)
            rs = self.rget(sp)
            if name not in _cells(rs):
                raise Skip(v["cell"])
            return "cell", (rs, name)
        if "xspace" in v:
            return "space", self.rx.get(v["xspace"])
        sp, name = v["xcell"].rsplit(".", 1)
        return "cell", (self.rx.get(sp), name)

    # ------------------------------------------------------------------ ops
    def apply(self, op):
        """-> 'ok' | 'rej:<Exc>' | 'skip'"""
        k = op["op"]
        if k == "nop":
            return "skip"
        fn = getattr(self, "op_" + k)
        try:
            commit = fn(op)
        except Skip:
            return "skip"
        except (Inconclusive, Stop):
            raise
        except Exception as e:     # noqa  modelx refused the edit: C11 judges rejections
            self.last_error = e
            return "rej:" + type(e).__name__
        commit()
        return "ok"

    def _ref_side(self, op):
        return lambda: R.apply_op(self.rm, op, self.inputs, probe=False)

    def op_new_space(self, op):
        rp = self.rget(op.get("parent", ""))
        if op["name"] in rp.children:
            raise Skip()
        bases = [self.rget(b) for b in op.get("bases", [])]
        parent = self.m if rp is self.rm else self.live_space(rp)
        kw = {}
        if bases:
            kw["bases"] = [self.live_space(b) for b in bases]
        parent.new_space(op["name"], **kw)
        return self._ref_side(op)

    def op_new_cells(self, op):
        rs = self.rget(op["space"])
        if op["name"] in _cells(rs):
            raise Skip()
        cd = R.mk_cell(op, probe=False)
        self.live_space(rs).new_cells(op["name"], formula=cd.source())
        return self._ref_side(op)

    def op_del_cells(self, op):
        rs = self.rget(op["space"])
        if op["name"] not in rs.cells:
            raise Skip()
        del self.live_space(rs).cells[op["name"]]
        return self._ref_side(op)

    def op_rename_cells(self, op):
        rs = self.rget(op["space"])
        if op["name"] not in rs.cells:
            raise Skip()
        subs = self.rm.subs_of(rs)
        holders = [rs] + [s for s in subs if _cells(s).get(op["name"], (None,))[0] is rs]
        for s in [rs] + subs:
            # a sub that has the old name from another definition, or the new name already: what a
            # rename does to its members is C03's subject; C10's histories stay clear of it
            if op["new"] in _cells(s) or (s not in holders and op["name"] in _cells(s)):
                raise Skip()
            if any(op["name"] in b.cells for b in R.mro(s)[1:] if b is not rs):
                raise Skip()
        self.live_space(rs).cells[op["name"]].rename(op["new"])

        def commit():
            R.apply_op(self.rm, op, self.inputs, probe=False)
            # references hold the cells object: they follow the rename
            for s in self.rm.walk():
                for r in s.refs.values():
                    if r.kind == "cell" and r.value[1] == op["name"] and r.value[0] in holders:
                        r.value = (r.value[0], op["new"])
        return commit

    def op_set_ref(self, op):
        rs = self.rget(op["space"])
        kind, rv = self.rvalue(op["value"])
        if op["name"] in _cells(rs) or op["name"] in rs.children:
            raise Skip()
        tsp = rv if kind == "space" else (rv[0] if kind == "cell" else None)
        if tsp is not None and getattr(tsp, "deleted", False):
            raise Skip()
        owner = self.live_space(rs)
        lv = rv if kind == "lit" else self.live_obj((kind,) + ((rv,) if kind == "space" else tuple(rv)))
        mode = op.get("mode", "auto")
        via = op.get("via", "set_ref")
        if via == "setattr":
            mode = "auto"
            setattr(owner, op["name"], lv)
        elif via == "kw" and mode == "absolute":
            owner.absref(**{op["name"]: lv})
        elif via == "kw" and mode == "relative":
            owner.relref(**{op["name"]: lv})
        else:
            owner.set_ref(op["name"], lv, refmode=mode)

        def commit():
            r = R.RRef(op["name"], kind, rv, mode)
            r.live = lv if kind != "lit" else None
            rs.refs[op["name"]] = r
        return commit

    def op_del_ref(self, op):
        rs = self.rget(op["space"])
        if op["name"] not in rs.refs:
            raise Skip()
        delattr(self.live_space(rs), op["name"])
        return self._ref_side(op)

    def op_del_space(self, op):
        rs = self.rget(op["path"])
        parent = self.m if rs.parent is self.rm else self.live_space(rs.parent)
        delattr(parent, rs.name)
        return self._ref_side(op)

    def op_rename_space(self, op):
        rs = self.rget(op["path"])
        if op["new"] in rs.parent.children:
            raise Skip()
        self.live_space(rs).rename(op["new"])
        return self._ref_side(op)

    def op_add_bases(self, op):
        rs = self.rget(op["space"])
        bases = [self.rget(b) for b in op["bases"]]
        if any(b in rs.bases or b is rs for b in bases):
            raise Skip()
        self.live_space(rs).add_bases(*[self.live_space(b) for b in bases])
        return self._ref_side(op)

    def op_remove_bases(self, op):
        rs = self.rget(op["space"])
        bases = [self.rget(b) for b in op["bases"]]
        if any(b not in rs.bases for b in bases):
            raise Skip()
        self.live_space(rs).remove_bases(*[self.live_space(b) for b in bases])
        return self._ref_side(op)

    def op_set_space_formula(self, op):
        rs = self.rget(op["space"])
        ls = self.live_space(rs)
        fd = op.get("formula")
        if fd is None:
            if rs.formula is None:
                raise Skip()
            del ls.formula
            return self._ref_side(op)
        if fd.get("base"):
            self.rget(fd["base"])
        ls.formula = R.mk_formula(None, fd).source()

        def commit():
            R.apply_op(self.rm, op, self.inputs, probe=False)
            if fd.get("base"):
                self.fbase_text[id(rs.formula)] = fd["base"]
        return commit

    def op_reload(self, op):
        """write (dir or zip), close, read back under the same name; the history continues on the copy"""
        if self.tmp is None:
            self.tmp = tempfile.mkdtemp(prefix="mxv_c10_")
        self.reloads += 1
        p = os.path.join(self.tmp, "sv%d" % self.reloads)
        for s in self.rm.walk():
            for r in s.refs.values():
                if r.is_obj() and not alive(getattr(r, "live", None)):
                    r.live = None          # stays dead: the copy has nothing to point to either
        try:
            if op.get("fmt") == "zip":
                p += ".zip"
                self.m.zip(p)
            else:
                self.m.write(p)
        except Exception:     # noqa   nothing changed: an ordinary refusal
            raise
        try:
            self.m.close()
            self.m = mx.read_model(p, name="M")
        except Exception as e:     # noqa  written but not readable: the round trip is C04's subject
            self.last_error = e
            raise Stop("stopped_reload_failed")

        def commit():
            for s in self.rm.walk():
                for r in s.refs.values():
                    if r.is_obj() and r.live is not None:
                        t = r.value if r.kind == "space" else r.value[0]
                        if t.model() is self.rm:
                            r.live = self.live_obj(R._as_binding(r))
        return commit

    # ------------------------------------------------------------------ definitions in step?
    def desync(self):
        """after a refused edit: do the live definitions still equal the reference model's?  returns a
        description of the first difference or None.  (A refused edit that changed something is C11's
        finding; this check only decides whether the history can go on.)"""
        from .mxutil import sanity
        probs = sanity(self.m)
        if probs:
            return "self-check: %s" % probs[0]
        want = {}
        for rs in self.rm.walk():
            d = {"bases": [b.path() for b in rs.bases], "refs": {}}
            try:
                d["visible"] = sorted(R.members(rs)["refs"])
            except TypeError:
                d["visible"] = None
            for n, r in rs.refs.items():
                if r.is_obj():
                    live = getattr(r, "live", None)
                    d["refs"][n] = (relfull(live) if alive(live) else "<dead>", r.mode)
                else:
                    d["refs"][n] = ("lit", None)
            want[rs.path()] = d
        got = {}
        st = [(n, s) for n, s in self.m.spaces.items()]
        while st:
            p, s = st.pop()
            d = {"bases": [relfull(b) for b in s._direct_bases], "refs": {}, "visible": sorted(s._own_refs)}
            for n in s._own_refs:
                try:
                    pr = s._get_object(n, as_proxy=True)
                    if pr.is_derived():
                        continue
                    v = pr.value
                    if isinstance(v, Interface):
                        d["refs"][n] = (relfull(v) if alive(v) else "<dead>", pr.refmode)
                    else:
                        d["refs"][n] = ("lit", None)
                except Exception as e:     # noqa
                    d["refs"][n] = ("<broken %s>" % type(e).__name__, None)
            got[p] = d
            st.extend((p + "." + n, c) for n, c in s.named_spaces.items())
        if set(want) != set(got):
            return "spaces %s" % sorted(set(want) ^ set(got))
        for p in want:
            if want[p]["bases"] != got[p]["bases"]:
                return "bases of %s: %s / %s" % (p, want[p]["bases"], got[p]["bases"])
            if want[p]["visible"] is not None and want[p]["visible"] != got[p]["visible"]:
                return "references visible in %s: %s / %s" % (p, want[p]["visible"], got[p]["visible"])
            wr, gr = want[p]["refs"], got[p]["refs"]
            for n in set(wr) | set(gr):
                a, b = wr.get(n), gr.get(n)
                if a is None or b is None:
                    return "reference %s.%s: %s / %s" % (p, n, a, b)
                if a[0] == "lit" or b[0] == "lit" or a[0] == "<dead>" or b[0] == "<dead>":
                    if (a[0] == "lit") != (b[0] == "lit"):
                        return "reference %s.%s: %s / %s" % (p, n, a, b)
                    continue
                if a != b and not (a[0] == b[0] and a[0].startswith("<")):
                    return "reference %s.%s: %s / %s" % (p, n, a, b)
        return None

    # ------------------------------------------------------------------ the oracle
    def target_alive(self, ref):
        return alive(getattr(ref, "live", None))

    def original(self, ref):
        return ref.live

    def static_binding(self, rs, definer, ref):
        """binding of `ref` (defined in `definer`) as seen in static space rs, or UNKNOWN"""
        if not ref.is_obj() or not self.target_alive(ref):
            return R.UNKNOWN
        b = R.binding(rs, definer, ref)
        if b is R.UNKNOWN:
            return b
        if getattr(b[1], "deleted", False):
            return R.UNKNOWN
        if b[0] == "cell" and b[2] not in _cells(b[1]):
            return R.UNKNOWN
        return b

    def static_obj(self, b, ref):
        """live object of a static binding; the unrebound case is the very handle that was assigned"""
        t = ref.value if ref.kind == "space" else ref.value[0]
        if b[1] is t and (b[0] == "space" or b[2] == ref.value[1]):
            return ref.live
        return self.live_obj(b)

    def base_of(self, rs):
        """static root of the tree an ItemSpace of rs is built on, or None when it cannot be told"""
        f = rs.formula
        if f.base is None:
            return rs
        b = f.base
        if getattr(b, "deleted", False):
            return None
        text = self.fbase_text.get(id(f))
        try:
            if text is None or self.rm.get(text) is not b:
                return None                # the base was renamed / replaced: the source text is stale
        except KeyError:
            return None
        return b


def _cells(rs):
    try:
        return R.members(rs)["cells"]
    except TypeError:
        return rs.cells


def placement(ref, definer):
    """where the target lies relative to the defining space (coverage matrix)"""
    t = ref.value if ref.kind == "space" else ref.value[0]
    sfx = "" if ref.kind == "space" else "_cells"
    if t.model() is not definer.model():
        return "xmodel" + sfx
    if t is definer:
        return "self" if ref.kind == "space" else "own_cells"
    if t.is_within(definer):
        return ("child" if depth_below(t, definer) == 1 else "deep") + sfx
    if definer.is_within(t):
        return "ancestor" + sfx
    if t.path().startswith(definer.path()):
        return "outside_prefix" + sfx
    return "outside" + sfx


def tclass(plc):
    if plc == "self":
        return "the defining space"
    if plc == "own_cells":
        return "a cells of the defining space"
    if plc.startswith(("child", "deep")):
        return "an object below the defining space"
    return "an object outside the defining space's tree"


def unwrap_ns(v):
    """object a formula namespace value stands for: spaces are interfaces, cells are bound to
    CellsImpl.call (observed through the bound method's owner)"""
    if isinstance(v, Interface):
        return v
    impl = getattr(v, "__self__", None)
    itf = getattr(impl, "interface", None)
    return itf if isinstance(itf, Interface) else None


def describe(o):
    if isinstance(o, tuple) and o and o[0] == "RAISED":
        return "raised %s" % o[1]
    if isinstance(o, Interface):
        try:
            if not o._is_valid():
                return "<null %s>" % type(o).__name__
            return "%s %s" % (type(o).__name__, o._evalrepr)
        except Exception:     # noqa
            return "<unprintable %s>" % type(o).__name__
    return repr(o)[:80]


class Checker:
    """compares every visible object-valued reference with the oracle; counts what it compared"""

    def __init__(self, world, cnt, matrix, vio):
        self.w = world
        self.cnt = cnt
        self.mx = matrix
        self.vio = vio
        self.step = None
        self.opkind = None
        self.prev_def = {}
        self.notes = []

    def V(self, kind, sig, **detail):
        self.vio.append({"kind": kind, "signature": sig, "detail": dict(detail, step=self.step, after=self.opkind)})

    def bump(self, name, n=1):
        self.cnt[name] = self.cnt.get(name, 0) + n

    def cell(self, mname, key):
        d = self.mx.setdefault(mname, {})
        d[key] = d.get(key, 0) + 1

    # ---------------------------------------------------------------- whole model
    def check_all(self, final=False):
        w = self.w
        now = {}
        for rs in list(w.rm.walk()):
            try:
                mem = R.members(rs)
            except TypeError:
                continue
            ls = w.live_space(rs)
            for name, (definer, ref) in mem["refs"].items():
                if definer is not rs:
                    now[(id(rs), name)] = id(ref)
                    old = self.prev_def.get((id(rs), name))
                    if old is not None and old != id(ref):
                        self.bump("definer_switches")
                if ref.is_obj():
                    self.check_static(rs, ls, name, definer, ref, mem, final)
            if rs.formula is not None:
                self.check_item([rs], final)
        self.prev_def = now

    # ---------------------------------------------------------------- static spaces
    def check_static(self, rs, ls, name, definer, ref, mem, final):
        w = self.w
        derived = rs is not definer
        plc = placement(ref, definer)
        if not w.target_alive(ref):
            self.bump("dead_target_not_judged")
            return
        # declared mode (of the definition) is what every deriving space must show
        try:
            got_mode = ls._get_object(name, as_proxy=True).refmode
        except Exception as e:      # noqa
            got_mode = "raised " + type(e).__name__
        self.bump("mode_checks")
        if got_mode != ref.mode:
            self.V("mode", "mode: %s reference declared %s is shown as %s" % (
                "derived" if derived else "defined", ref.mode, got_mode),
                space=rs.path(), name=name, definer=definer.path())
        b = w.static_binding(rs, definer, ref)
        if b is R.UNKNOWN:
            self.bump("unspecified_static")
            self.cell("unspecified (statement silent)", "static|%s|%s" % (ref.mode, plc))
            return
        exp = w.static_obj(b, ref)
        got = _getattr(ls, name)
        ctx = "static-sub" if derived else "definer"
        self.bump("static_derived_checks" if derived else "static_defined_checks")
        self.cell("mode x target x deriver", "%s|%s|%s" % (ref.mode, plc, ctx))
        rebound = exp is not ref.live
        if derived:
            self.bump("rebound_checks" if rebound else "kept_checks")
        if got is not exp:
            self.V("binding", "static %s: %s-mode reference to %s: expected %s, got %s" % (
                "derivation" if derived else "definition", ref.mode, tclass(plc),
                "the deriving space's counterpart" if rebound else "the original object",
                _gotkind(got, ref.live)),
                space=rs.path(), name=name, definer=definer.path(), placement=plc,
                expected=describe(exp), got=describe(got))
        if final and ("peek_" + name) in mem["cells"]:
            self.peek(ls, name, exp, "static derivation", ref.mode, plc)

    def peek(self, lspace, name, exp, ctx, mode, plc):
        try:
            v = lspace.cells["peek_" + name]()
        except Exception as e:      # noqa
            v = ("RAISED", type(e).__name__)
        o = v if isinstance(v, tuple) else unwrap_ns(v)
        if o is None:
            self.bump("peek_unobservable")
            return
        self.bump("namespace_checks")
        if o is not exp:
            self.V("namespace", "%s: formula namespace binds the %s-mode reference to %s to another object "
                   "than prescribed" % (ctx, mode, tclass(plc)), space=describe(lspace), name=name,
                   expected=describe(exp), got=describe(o))

    # ---------------------------------------------------------------- dynamic trees
    def instantiate(self, chain, fresh):
        """chain[0] is a static parametrised space; chain[i+1] a parametrised space strictly inside the
        base tree of chain[i].  Returns [item of chain[0], item of chain[1] inside it, ...]"""
        w = self.w
        host = w.live_space(chain[0])
        if fresh:
            host.clear_items()
        items = [host(1)]
        for i in range(1, len(chain)):
            B = w.base_of(chain[i - 1])
            dyn = items[-1]
            for n in relnames(chain[i], B):
                dyn = dyn.spaces[n]
            items.append(dyn(1))
        return items

    def check_item(self, chain, final):
        w = self.w
        rs = chain[-1]
        level = len(chain) - 1
        B = w.base_of(rs)
        if B is None:
            self.bump("item_skipped_stale_base")
            return
        explicit = B is not rs
        if explicit and (rs.is_within(B) or B.is_within(rs)):
            self.bump("item_skipped_recursive_base")
            return
        tree = list(B.walk())
        plan = []
        not_judged = False
        for d in tree:
            try:
                mem = R.members(d)
            except TypeError:
                self.bump("item_skipped_no_mro")
                return
            for name, (definer, ref) in mem["refs"].items():
                if not ref.is_obj():
                    continue
                b = w.static_binding(d, definer, ref)
                if b is R.UNKNOWN:
                    not_judged = True      # e.g. a null object where the statement is silent: whether the
                    #                        tree can be instantiated at all is then not C10's to say
                elif ref.mode == "relative" and not b[1].is_within(B):
                    not_judged = True      # documented: a relative reference out of scope refuses the instance
                plan.append((d, name, definer, ref, b, mem))
        ctx = ("nested ItemSpace" if level else "ItemSpace") + (" with explicit base" if explicit else "")
        fresh = False
        try:
            item = self.instantiate(chain, False)[-1]
        except Exception as e:       # noqa
            err = mx.get_error() if isinstance(e, FormulaError) else e
            if not_judged:
                self.bump("item_refused_not_judged")
                return
            if not plan:
                self.bump("item_raised_without_references_not_judged")
                return
            # does a freshly built instance fail as well?  (an ItemSpace that should have been discarded
            # by an earlier edit and now cannot grow is C07's subject, not a binding)
            try:
                item = self.instantiate(chain, True)[-1]
                fresh = True
                self.bump("item_raised_only_on_stale_instance_not_judged")
            except Exception as e2:       # noqa
                err2 = mx.get_error() if isinstance(e2, FormulaError) else e2
                self.bump("item_checks")
                self.V("item-raised", "dynamic tree: instantiation raised %s although every reference of the "
                       "base tree has an object to be bound to" % type(err2).__name__,
                       space=rs.path(), base=B.path(), context=ctx, error=str(err2)[:200], first_error=str(err)[:120],
                       refs=[(d.path(), n, r.mode, placement(r, df), "derived" if d is not df else "defined")
                             for d, n, df, r, b, _ in plan][:8])
                return
        if not self.shape_ok(item, B):
            # an instance that does not mirror the base it should be built on (e.g. one that an earlier
            # edit should have discarded): which tree an ItemSpace has is C07's subject
            self.bump("item_existing_instance_of_other_shape_not_judged")
            if fresh:
                return
            try:
                item = self.instantiate(chain, True)[-1]
                fresh = True
            except Exception:     # noqa
                return
            if not self.shape_ok(item, B):
                return
        self.bump("itemspaces_built")
        mism = self.compare(item, plan, B, chain, ctx, final, count=True)
        if mism and not fresh:
            # is it the instance (kept from before an edit) or the rule?
            try:
                item2 = self.instantiate(chain, True)[-1]
                mism2 = self.compare(item2, plan, B, chain, ctx, False, count=False) \
                    if self.shape_ok(item2, B) else mism
            except Exception:     # noqa
                mism2 = mism
            if not mism2:
                # the instance was kept from before an edit that should have discarded it: whether
                # instances are discarded is C07's subject; noted, not judged
                self.bump("item_existing_instance_differs_from_new_one_not_judged")
                self.notes.append("existing ItemSpace kept across %s: %s" % (self.opkind, mism[0][1][:140]))
                mism = []
            else:
                mism = mism2
        for kind, sig, det in mism:
            self.V(kind, sig, **det)
        # nested ItemSpaces: parametrised spaces strictly inside the base tree
        if level == 0 and not mism:
            for d in tree:
                if d is not B and d.formula is not None:
                    self.check_item(chain + [d], final)

    def shape_ok(self, item, B):
        try:
            st = [(item, B)]
            while st:
                dyn, d = st.pop()
                if set(dyn.spaces) != set(d.children):
                    return False
                try:
                    if set(dyn.cells) != set(R.members(d)["cells"]):
                        return False
                except TypeError:
                    pass
                st.extend((dyn.spaces[n], c) for n, c in d.children.items())
            return True
        except Exception:     # noqa
            return False

    def compare(self, item, plan, B, chain, ctx, final, count):
        """-> [(kind, signature, detail)] of the references of one dynamic tree that are not bound as stated"""
        w = self.w
        rs = chain[-1]
        level = len(chain) - 1
        explicit = B is not rs
        out = []
        bump = self.bump if count else (lambda *a, **k: None)
        for d, name, definer, ref, b, mem in plan:
            rel = relnames(d, B)
            dyn = item
            try:
                for n in rel:
                    dyn = dyn.spaces[n]
            except Exception as e:    # noqa
                raise Inconclusive("dynamic tree of %s lacks %s (%s)" % (rs.path(), ".".join(rel), type(e).__name__))
            plc = placement(ref, definer)
            where = "root" if not rel else "child"
            dctx = ("item" if not level else "nested-item") + ("-xbase" if explicit else "") + "-" + where + \
                   ("-derived" if d is not definer else "")
            if b is R.UNKNOWN:
                bump("unspecified_dynamic")
                if count:
                    self.cell("unspecified (statement silent)", "%s|%s|%s" % (dctx, ref.mode, plc))
                continue
            inside = b[1].is_within(B)
            static_o = w.static_obj(b, ref)
            if ref.mode != "absolute" and inside:
                o = item
                try:
                    for n in relnames(b[1], B):
                        o = o.spaces[n]
                    exp = o if b[0] == "space" else o.cells[b[2]]
                except Exception as e:    # noqa
                    raise Inconclusive("dynamic counterpart not reachable: %s" % type(e).__name__)
                want = "the dynamic tree's counterpart"
                bump("dynamic_rebound_checks")
            else:
                exp = static_o
                want = "the original object" if static_o is ref.live else "the static binding"
                bump("dynamic_kept_checks")
            prefix = (not inside) and b[1].model() is B.model() and b[1].path().startswith(B.path())
            if prefix:
                bump("dynamic_prefix_named_outside_checks")
            got = _getattr(dyn, name)
            bump("item_checks")
            if count:
                self.cell("mode x target x deriver", "%s|%s|%s" % (ref.mode, plc, dctx))
            if d is definer:
                how = "defined in the mirrored space"
            elif static_o is ref.live:
                how = "derived by the mirrored space, statically bound to the original object"
            else:
                how = "derived by the mirrored space, statically rebound"
            if got is not exp:
                out.append(("binding", "dynamic tree: %s-mode reference (%s) to an object %s: expected %s, got %s" % (
                    ref.mode, how,
                    "inside the base tree" if inside else ("outside the base tree whose path has the base's path "
                                                           "as a string prefix" if prefix else "outside the base tree"),
                    want, _gotkind(got, static_o, dynamic=True)),
                    dict(context=ctx, where=where, space=rs.path(), base=B.path(), mirrored=d.path(), name=name,
                         definer=definer.path(), placement=plc, expected=describe(exp), got=describe(got))))
            if final and ("peek_" + name) in mem["cells"]:
                self.peek(dyn, name, exp, "dynamic tree", ref.mode, plc)
        return out


def _getattr(o, name):
    try:
        return getattr(o, name)
    except Exception as e:      # noqa
        err = mx.get_error() if isinstance(e, FormulaError) else e
        return ("RAISED", type(err).__name__)


def _gotkind(got, orig, dynamic=False):
    if isinstance(got, tuple):
        return "an exception (%s)" % got[1]
    if not isinstance(got, Interface):
        return "a non-object value"
    try:
        if not got._is_valid():
            return "a null object"
    except Exception:     # noqa
        return "a broken object"
    if got is orig:
        return "the static object" if dynamic else "the original object"
    return "another object"
