"""C02 directed probes added after round 7 of the independently seeded changes (both were missed before):

kind "readers": k cells (2..4) read the same reference by attribute path (`B.k`), some of them through an uncached
  intermediate; all are evaluated; j of them (1..k-1) are taken out of the dependency graph by one of several edits
  (clear(), formula change, flag toggle, deletion and re-creation); then the reference is re-assigned (or deleted
  and created again).  The remaining readers must follow.  (Bookkeeping of the reference graph that depends on how
  many readers a reference has left.)

kind "equalassign": an input is re-assigned a value that compares equal to the one held but differs in type,
  sign of zero, or identity (1 -> 1.0, 1 -> True, 0.0 -> -0.0, 'ab' -> a new equal str, (1, 2) -> a new equal
  tuple, a list mutated in place and assigned again); dependents that are sensitive to type / representation were
  evaluated before.

Oracle for both: the property's own - a model to which only the edits were applied answers the same queries.
"""
import itertools

from .mxutil import mx, reset_session

REMOVALS = ("clear", "formula", "uncache", "recreate")
REF_EDITS = ("assign", "delnew")


def cases():
    i = 0
    for k in (2, 3, 4):
        for j in range(1, k):
            for rem, red, unc in itertools.product(REMOVALS, REF_EDITS, (0, 1)):
                yield {"id": "rd%d" % i, "kind": "readers", "k": k, "j": j, "removal": rem, "refedit": red,
                       "uncached": unc, "seed": i}
                i += 1
    for n, _ in enumerate(EQUAL_PAIRS):
        for unc in (0, 1):
            yield {"id": "eq%d_%d" % (n, unc), "kind": "equalassign", "pair": n, "uncached": unc, "seed": n}


# ---- readers ----

def _build_readers(name, c):
    m = mx.new_model(name)
    A = m.new_space("A")
    B = m.new_space("B")
    B.k = 10
    A.B = B
    A.new_cells("via", formula="def via():\n    return B.k", is_cached=not c["uncached"])
    for n in range(c["k"]):
        # odd readers go through the intermediate when it is uncached (the read is attributed to the reader)
        body = "via()" if (c["uncached"] and n % 2) else "B.k"
        A.new_cells("r%d" % n, formula="def r%d():\n    return %s + %d" % (n, body, n + 1))
    return m


def _remove(m, c, n):
    cells = getattr(m.A, "r%d" % n)
    how = c["removal"]
    if how == "clear":
        cells.clear()
    elif how == "formula":
        cells.set_formula("def r%d():\n    return B.k + %d" % (n, 100 + n))
    elif how == "uncache":
        cells.is_cached = False
    else:
        delattr(m.A, "r%d" % n)
        m.A.new_cells("r%d" % n, formula="def r%d():\n    return B.k + %d" % (n, 200 + n))


def _refedit(m, c):
    if c["refedit"] == "assign":
        m.B.k = 20
    else:
        del m.B.k
        m.B.k = 30


def _readers_values(m, c):
    out = []
    for n in range(c["k"]):
        try:
            out.append(getattr(m.A, "r%d" % n)())
        except Exception as e:      # noqa
            out.append(["ERR", type(e).__name__])
    return out


def run_readers(c):
    live = _build_readers("M", c)
    v0 = _readers_values(live, c)
    le = [_try(_remove, live, c, n) for n in range(c["j"])]
    mid = None
    if c["seed"] % 2:                      # half of the cases evaluate the removed readers again before the edit
        mid = _readers_values(live, c)
    le.append(_try(_refedit, live, c))
    v1 = _readers_values(live, c)
    fresh = _build_readers("F", c)
    fe = [_try(_remove, fresh, c, n) for n in range(c["j"])]
    fe.append(_try(_refedit, fresh, c))
    v2 = _readers_values(fresh, c)
    fixture_ok = v0 != v2 and not any(isinstance(v, list) for v in v0 + v2)
    vio = []
    if le != fe:
        vio.append({"kind": "accept", "signature": "an edit is accepted or rejected depending on earlier evaluations",
                    "detail": {"case": {a: c[a] for a in ("k", "j", "removal", "refedit", "uncached")},
                               "live": le, "fresh": fe}})
    elif fixture_ok and v1 != v2:
        vio.append({"kind": "stale",
                    "signature": "stale value: a reader of a reference by attribute path does not follow the reference "
                                 "after other readers of it were taken out (%s)" % c["removal"],
                    "detail": {"case": {a: c[a] for a in ("k", "j", "removal", "refedit", "uncached")},
                               "before": v0, "between": mid, "live": v1, "fresh": v2}})
    _close(live, fresh)
    return _result(c, vio, fixture_ok, "readers|%d|%d|%s|%s|%d" % (c["k"], c["j"], c["removal"], c["refedit"],
                                                                  c["uncached"]),
                   {"readers": {"%s/%s" % (c["removal"], c["refedit"]): 1}},
                   {"before": v0, "live": v1, "fresh": v2}, compared=c["k"])


# ---- equal-comparing re-assignment ----

def _new_str():
    return "".join(["a", "b"])


def _new_tuple():
    return tuple([1, 2])


EQUAL_PAIRS = [
    ("int to float", lambda: 1, lambda old: 1.0),
    ("int to bool", lambda: 1, lambda old: True),
    ("bool to int", lambda: False, lambda old: 0),
    ("zero to negative zero", lambda: 0.0, lambda old: -0.0),
    ("float to int", lambda: 2.0, lambda old: 2),
    ("equal str, new object", _new_str, lambda old: _new_str()),
    ("equal tuple, new object", _new_tuple, lambda old: _new_tuple()),
    ("tuple with float element", lambda: (1, 2), lambda old: (1.0, 2)),
    ("same list mutated in place", lambda: [1, 2], "mutate"),
    ("int to equal fraction", lambda: 3, lambda old: __import__("fractions").Fraction(3, 1)),
]


def _build_equal(name, c):
    m = mx.new_model(name)
    A = m.new_space("A")
    A.new_cells("x", formula="def x(i):\n    return 0")
    A.new_cells("mid", formula="def mid(i):\n    return x(i)", is_cached=not c["uncached"])
    A.new_cells("y", formula="def y(i):\n    v = mid(i)\n    return type(v).__name__ + ':' + repr(v)")
    A.new_cells("z", formula="def z(i):\n    return y(i) + '|' + str(len(y(i)))")
    return m


def run_equal(c):
    label, first, second = EQUAL_PAIRS[c["pair"]]

    def edits(m, evaluate):
        old = first()
        m.A.x[0] = old
        v0 = _q(m) if evaluate else None
        if second == "mutate":
            old.append(3)
            new = old
        else:
            new = second(old)
        m.A.x[0] = new
        return v0

    live = _build_equal("M", c)
    v0 = edits(live, True)
    v1 = _q(live)
    fresh = _build_equal("F", c)
    edits(fresh, False)
    v2 = _q(fresh)
    fixture_ok = v0 != v2
    vio = []
    if fixture_ok and v1 != v2:
        vio.append({"kind": "stale",
                    "signature": "stale value after an input was re-assigned a value that compares equal to the one "
                                 "held (%s)" % label,
                    "detail": {"pair": label, "uncached": c["uncached"], "before": v0, "live": v1, "fresh": v2}})
    _close(live, fresh)
    return _result(c, vio, fixture_ok, "equalassign|%d|%d" % (c["pair"], c["uncached"]),
                   {"equal_assign": {label: 1}}, {"pair": label, "before": v0, "live": v1, "fresh": v2}, compared=3)


def _try(fn, *a):
    try:
        fn(*a)
        return "ok"
    except Exception as e:      # noqa
        return "raised " + type(e).__name__


def _q(m):
    out = []
    for n in ("x", "y", "z"):
        try:
            v = getattr(m.A, n)(0)
            out.append("%s:%r" % (type(v).__name__, v))
        except Exception as e:      # noqa
            out.append("ERR:" + type(e).__name__)
    return out


def _close(*ms):
    for mm in ms:
        try:
            mm.close()
        except Exception:   # noqa
            pass


def _result(c, vio, fixture_ok, shape, matrix, sample, compared):
    cnt = {"directed_probes": 1, "directed_probe_fixture_ok": int(fixture_ok), "queries_compared": compared,
           "edits": 2, "effective_edits": int(fixture_ok)}
    sample = dict(sample, kind=c["kind"])
    return {"violations": vio, "counters": cnt, "nontrivial": fixture_ok, "shape": shape, "matrix": matrix,
            "case": c, "sample": sample}


def run(c):
    reset_session()
    return run_readers(c) if c["kind"] == "readers" else run_equal(c)
