"""C04 workload generator: model specs as op lists (plain JSON data) + write/read plans.

The generator keeps a small symbolic picture of the model it is describing (space tree,
bases, cells, references) so that later ops can address what earlier ops created.  It
knows nothing about modelx; `mxv/props/c04.py` interprets the ops against the real API.

Vocabulary (DESIGN 3/C04): nested spaces, inheritance (also between nested spaces),
parametrised spaces (def / lambda space formulas, defaults, returned refs), cells from a
function-text grammar (def / lambda, signatures, doc strings, comments, layouts, string
literals that look like serializer syntax), cached / allow_none / doc attributes, literal,
picklable, module and object-valued references (auto / relative / absolute), model-level
references, inputs of static cells, inputs inside (nested) ItemSpaces, IOSpec files in
sub-directories, and a few post-construction edits (rename, delete, re-formula).

Names are drawn from pools in which most names are prefixes of other names
(``c``/``c1``/``c12``, ``rate``/``rate_adj``, ``A``/``Ab``) because path handling is a
classic place for prefix mistakes.

Termination of generated formulas: every cells name has a global rank (its index in
CELLS); a formula for a name of rank n calls only names of rank < n, or itself with
``x - 1`` under ``x > 0``.
"""
import json
import random

TOPS = ["A", "Ab", "A1", "B", "Ba", "Base", "Sub"]
CHILDREN = ["C", "Ch", "Ch2", "Gc"]
CELLS = ["c", "c1", "c12", "cc", "d", "d_x", "f", "fo", "foo", "rate", "rate_adj", "max", "ma", "sum"]
RANK = {n: i for i, n in enumerate(CELLS)}
REFS = ["r", "r1", "r_x", "s", "s2", "k", "ka", "len", "w"]
MREFS = ["g", "g1", "h", "abs"]
CALLREFS = ("k", "ka")        # reference names through which formulas call cells (see Gen.ref_terms / value_for)
SPARAMS = [["p"], ["p", "q"]]
CPARAMS = [["n"], ["z"]]

# ---------------------------------------------------------------------------- documentation text
DOCS = [
    ("plain", "plain"), ("quotes", 'has "quotes" inside'), ("ends_quote", 'ends with "'),
    ("starts_quote", '"starts with a quote'), ("multi", "multi\nline doc\n"), ("unicode", "unié中 \U0001F600"),
    ("backslash", "back\\slash \\n \\t"), ("ends_backslash", "ends with backslash\\"),
    ("tri_single", "tri'''ple"), ("tri_double", 'tri"""ple'), ("empty", ""), ("blank", "   "),
    ("tab", "tab\there"), ("only_quote", '"'), ("two_quotes", '""'), ("three_quotes", '"""'),
    ("bs_quote", 'ends with \\"'), ("indented", "line1\n\n    indented\n  last"), ("percent", "100%s {x} %(y)d"),
    ("hash", "# looks like a comment\n# Cells"), ("assign", "_allow_none = False\nlambda x: 1"),
    ("cr", "a\r\nb\rc"), ("ends_cr", "ends with carriage return\r"),
]
DOC_CR = ("cr", "a\r\nb\rc")
DOC_DIVIDER = ("divider", "x\n# " + "-" * 75 + "\n# References\nmore")

# ---------------------------------------------------------------------------- reference values
#  (kind, sub, python expression, formula-use class)
LITERALS = [
    ("int", "3"), ("int", "-4"), ("int", "0"), ("float", "2.5"), ("float", "-0.0"), ("float", "1e300"),
    ("float", "1e-07"), ("float", "-7.25"), ("bigint", "2 ** 70"), ("float_special", "float('inf')"),
    ("float_special", "float('-inf')"), ("float_special", "float('nan')"), ("str", "'abc'"), ("str", "''"),
    ("str", "'q\"uo\\'te'"), ("str", "'a\\nb'"), ("str", "'\\u00e9\\u4e2d'"), ("str", "'back\\\\slash'"),
    ("str", "'tab\\there'"), ("str", "'\\u2028sep'"), ("str", "'\\x00nul\\x7f'"), ("str", "'x' * 300"),
    ("str", "'# ' + '-' * 75"), ("str", "'(\"Pickle\", 1)'"),
    ("bool", "True"), ("bool", "False"), ("none", "None"),
]
PICKLES = [
    ("list", "[1, [2, 3]]"), ("dict", "{'a': 1, 2: (3, 4)}"), ("tuple", "(1, 2)"), ("set", "{1, 2}"),
    ("frozenset", "frozenset(['a', 'b'])"), ("bytes", "b'\\x00\\xff'"), ("complex", "1 + 2j"), ("range", "range(3)"),
    ("nan_in_list", "[float('nan'), 1.5]"), ("inf_in_dict", "{'k': float('inf')}"), ("empty_list", "[]"),
    ("empty_tuple", "()"), ("empty_dict", "{}"), ("decimal", "decimal.Decimal('1.50')"),
    ("date", "datetime.date(2020, 1, 2)"), ("fraction", "fractions.Fraction(1, 3)"), ("bytearray", "bytearray(b'ab')"),
    ("slice", "slice(1, 2)"), ("ellipsis", "Ellipsis"), ("builtin_func", "math.sqrt"), ("class", "int"),
    ("ordereddict", "collections.OrderedDict([('a', 1)])"), ("long_list", "list(range(500))"),
    ("np_float", "np.float64(1.5)"), ("np_array", "np.array([1, 2, 3])"), ("str_tuple", "('a', 'b\\n')"),
    ("nested", "{'l': [1, (2, {'s'})], 'n': None}"),
]
MODULES = [("module", "math"), ("module", "os.path"), ("module", "collections.abc"), ("module", "json.decoder")]


class Sp:
    """symbolic space"""
    def __init__(self, name, parent, order):
        self.name = name
        self.parent = parent          # Sp or None
        self.order = order
        self.children = {}
        self.bases = []               # Sp
        self.cells = {}               # name -> dict(params=[..], cached, form, an)
        self.refs = {}                # name -> dict(kind, sub, use)
        self.params = None            # list of parameter names of the space formula
        self.ndefaults = 0
        self.allow_none = None

    def path(self):
        return self.name if self.parent is None else self.parent.path() + "." + self.name

    def ancestors(self):
        p = self.parent
        while p is not None:
            yield p
            p = p.parent

    def descendants(self):
        for c in self.children.values():
            yield c
            yield from c.descendants()

    def mro(self):
        """linearisation good enough for the generator: self, then bases depth first (no duplicates)"""
        out = [self]
        for b in self.bases:
            for x in b.mro():
                if x not in out:
                    out.append(x)
        return out

    def all_cells(self):
        """name -> (definer, info) along the bases"""
        out = {}
        for s in self.mro():
            for n, c in s.cells.items():
                out.setdefault(n, (s, c))
        return out

    def all_refs(self):
        out = {}
        for s in self.mro():
            for n, r in s.refs.items():
                out.setdefault(n, (s, r))
        return out

    def in_item(self):
        """is the space (or an ancestor) parametrised"""
        return self.params is not None or any(a.params is not None for a in self.ancestors())


class Gen:
    def __init__(self, seed, focus=None, hazards=True):
        self.rnd = random.Random(seed)
        self.focus = focus
        # Triggers of mechanisms that are known deviations of the tree are confined to a small share of the cases
        # (never zero: DESIGN 4.3 item 4), decided once per case so that most cases stay free of them.
        self.hazards = hazards
        r = self.rnd.random
        self.hz = {"P": hazards and r() < 0.05, "d4": hazards and r() < 0.04,
                   "divider": hazards and r() < 0.012, "derived_input": hazards and r() < 0.04,
                   "crlf_ws": hazards and r() < 0.03, "dynmodule": hazards and r() < 0.03}
        self.ops = []
        self.spaces = []              # creation order
        self.mrefs = {}
        self.model_allow_none = False
        self.item_args = {}           # space path -> list of arg lists used for item inputs
        self.name_use = {}            # reference name -> use class (see value_for)

    # ------------------------------------------------------------------ helpers
    def emit(self, **op):
        self.ops.append(op)
        return op

    def p(self, x):
        return self.rnd.random() < x

    def doc(self, p_none=0.5):
        rnd = self.rnd
        if rnd.random() < p_none:
            return None, "none"
        if self.hz["divider"] and rnd.random() < 0.3:
            return DOC_DIVIDER[1], DOC_DIVIDER[0]
        k, d = rnd.choice(DOCS)
        return d, k

    # ------------------------------------------------------------------ function text
    def sig(self, params, defaults, multi=False, annot=False):
        parts = []
        for i, prm in enumerate(params):
            s = prm
            if annot:
                s += [": int", ": 'str'", ""][i % 3]
            if prm in defaults:
                s += (" = " if annot and ":" in s else "=") + defaults[prm]
            parts.append(s)
        if multi and len(parts) > 1:
            return (",\n        ").join(parts)
        return ", ".join(parts)

    def terms(self, sp, name, params, rank):
        """expressions a formula of `name` in space `sp` may contain"""
        rnd = self.rnd
        x = params[0] if params else None
        out = []
        if x:
            out += ["%s + 1" % x, "%s * 2" % x, "-%s" % x]
            if len(params) > 1:
                out.append("%s * 10 + %s" % (params[0], params[1]))
        else:
            out += ["7", "1 + 1"]
        # sibling cells of lower rank (own and inherited)
        for n, (definer, c) in sp.all_cells().items():
            if RANK.get(n, 99) < rank:
                out.append(self.call(n, c["params"], x))
        # child spaces' cells of lower rank
        for ch in sp.children.values():
            for n, c in ch.cells.items():
                if RANK.get(n, 99) < rank:
                    out.append(self.call(ch.name + "." + n, c["params"], x))
        # self recursion
        if x and name in RANK and rnd.random() < 0.15:
            rest = "".join(", %s" % q for q in params[1:])
            out.append("(%s(%s - 1%s) if %s > 0 else 0)" % (name, x, rest, x))
        # references by name / by attribute path
        for n, (definer, r) in list(sp.all_refs().items()):
            out += self.ref_terms(n, r, rank)
            if rnd.random() < 0.2:
                out += self.ref_terms("_space." + n, r, rank)
        for n, r in self.mrefs.items():
            out += self.ref_terms(n, r, rank)
            if rnd.random() < 0.2:
                out += self.ref_terms("_model." + n, r, rank)
        # space parameters (also of enclosing parametrised spaces)
        for s in [sp] + list(sp.ancestors()):
            if s.params:
                out += list(s.params)
        return out

    def call(self, target, cparams, x):
        rnd = self.rnd
        a = rnd.choice(["0", "1", "2"] + ([x] if x else []))
        if not cparams:
            return "%s()" % target
        if len(cparams) == 1:
            return rnd.choice(["%s(%s)" % (target, a), "%s(%s=%s)" % (target, cparams[0], a)])
        return rnd.choice(["%s(%s, 1)" % (target, a), "%s(%s)" % (target, a),
                           "%s(%s=2, %s=%s)" % (target, cparams[1], cparams[0], a)])

    def ref_terms(self, n, r, rank):
        use = r["use"]
        if use == "num":
            return [n, "%s * 2" % n, "repr(%s)" % n]
        if use == "str":
            return ["len(%s)" % n, "%s[:3]" % n, "repr(%s)" % n]
        if use == "repr":
            return ["repr(%s)" % n, "type(%s).__name__" % n]
        if use == "len":
            return ["len(%s)" % n, "type(%s).__name__" % n]
        if use == "type":
            return ["type(%s).__name__" % n]
        if use == "cells":
            # called only through the names in CALLREFS (always bound to cells of rank < 3) and only from formulas of
            # rank >= 3: wherever inheritance makes the name resolve, the call goes down the rank order
            if n.split(".")[-1] in CALLREFS and rank >= 3:
                return ["%s(1)" % n, "len(%s.parameters)" % n]
            return ["len(%s.parameters)" % n]
        if use == "space":
            return ["sorted(%s.cells)" % n]
        if use == "objlist":
            return ["len(%s)" % n, "[type(v).__name__ for v in %s]" % n]
        if use == "module":
            return ["%s.__name__" % n]
        if use == "pandas":
            return ["int(%s.sum().sum())" % n if r.get("sub") == "df" else "int(%s.sum())" % n]
        if use == "modio":
            return ["%s.f(2)" % n, "%s.K" % n]
        return ["type(%s).__name__" % n]

    def value_expr(self, terms):
        rnd = self.rnd
        k = rnd.choice([1, 1, 2, 2, 3])
        ts = [rnd.choice(terms) for _ in range(k)]
        if len(ts) == 1:
            return ts[0]
        return "(" + ", ".join(ts) + ")"

    def cells_text(self, sp, name, params, defaults, form, rank, none_at=None):
        """returns (text, features)"""
        rnd = self.rnd
        terms = self.terms(sp, name, params, rank)
        E = self.value_expr(terms)
        if none_at is not None and params:
            E = "(None if %s == %d else %s)" % (params[0], none_at, E)
        feats = []
        if form == "lambda":
            style = rnd.choice(["plain", "plain", "paren", "multiline", "cond", "nested", "strings", "lead_space",
                                "comment", "paren_whole"])
            feats.append("lambda:" + style)
            s = self.sig(params, defaults)
            head = "lambda %s: " % s if s else "lambda: "
            if style == "plain":
                t = head + E
            elif style == "paren":
                t = head + "(" + E + ")"
            elif style == "multiline":
                t = head + "(" + E + " if True else\n        None)"
            elif style == "cond":
                t = head + "%s if %s else %s" % (E, ("%s != 1" % params[0]) if params else "True", rnd.choice(terms))
            elif style == "nested":
                t = head + "(lambda z_: (z_, %s))(%s)" % (E, rnd.choice(terms))
            elif style == "strings":
                t = head + "('lambda: # \"x\" ' + str(%s))" % E
            elif style == "lead_space":
                t = "  " + head + E
            elif style == "comment":
                t = head + E + "  # trailing comment"
            else:
                t = "(" + head + E + ")"
            return t, feats
        # ---- def
        style = rnd.choice(["expr", "expr", "multi", "nested", "lambda_in", "comp", "cls", "shadow", "ifelse", "try",
                            "strings", "cont", "oneline", "fstring", "walrus", "annot", "blank_lines", "while"])
        feats.append("def:" + style)
        defname = name if rnd.random() < 0.8 else "other_name"
        if defname != name:
            feats.append("renamed")
        multi_sig = len(params) > 1 and rnd.random() < 0.15
        annot = rnd.random() < 0.15
        s = self.sig(params, defaults, multi_sig, annot)
        ret_annot = " -> int" if annot and rnd.random() < 0.5 else ""
        doc, dk = (None, "none")
        if rnd.random() < 0.35:
            doc, dk = self.doc(0.0)
            if dk in ("cr", "ends_cr", "divider"):
                doc, dk = "plain", "plain"
        if style == "oneline":
            body = "return " + E
            if doc is not None and "\n" not in doc and rnd.random() < 0.5:
                body = repr(doc) + "; " + body
                feats.append("doc:" + dk)
            t = "def %s(%s)%s: %s" % (defname, s, ret_annot, body)
            return t + ("\n" if rnd.random() < 0.5 else ""), feats
        ind = "\t" if rnd.random() < 0.05 else "    "
        if ind == "\t":
            feats.append("tabs")
        L = []
        if self.hz["d4"] and rnd.random() < 0.15:
            L.append("# leading comment")
            feats.append("c:leading")
        hdr = "def %s(%s)%s:" % (defname, s, ret_annot)
        if rnd.random() < 0.1:
            hdr += "  # on the def line"
            feats.append("c:def")
        L.append(hdr)
        if doc is not None:
            feats.append("doc:" + dk)
            q = rnd.choice(["repr", "triple", "raw"])
            if q == "triple" and "\\" not in doc and '"""' not in doc and not doc.endswith('"') and "\r" not in doc:
                L.append(ind + '"""' + doc.replace("\n", "\n" + ind) + '"""')
            elif q == "raw" and '"' not in doc and "\n" not in doc and not doc.endswith("\\") and "\r" not in doc:
                L.append(ind + 'r"""' + doc + '"""')
            else:
                L.append(ind + repr(doc))
        T2 = rnd.choice(terms)
        if style == "expr":
            L.append(ind + "return " + E)
        elif style == "multi":
            L += [ind + "a_ = %s; b_ = 2" % T2, ind + "return (a_,", ind + "        b_, %s)" % E]
        elif style == "nested":
            L += [ind + "def inner(z_):", ind + ind + "return (z_, %s)" % T2, ind + "return inner(%s)" % E]
        elif style == "lambda_in":
            L += [ind + "f_ = lambda z_: (z_, %s)" % T2, ind + "return f_(%s)" % E]
        elif style == "comp":
            L += [ind + "return [%s for i_ in range(2)] + [len({i_: i_ for i_ in range(2)})]" % E]
        elif style == "cls":
            L += [ind + "class K_:", ind + ind + "v = 5", ind + "return K_.v, %s" % E]
        elif style == "shadow":
            L += [ind + "min = 3", ind + "return min, %s" % E]
        elif style == "ifelse":
            cond = "%s > 0" % params[0] if params else "True"
            L += [ind + "if %s:" % cond, ind + ind + "return %s" % E, ind + "else:", ind + ind + "return %s" % T2]
        elif style == "try":
            L += [ind + "try:", ind + ind + "v_ = %s" % E, ind + "except ZeroDivisionError:", ind + ind + "v_ = 'err'",
                  ind + "return v_"]
        elif style == "strings":
            L += [ind + "s_ = \"# not a comment ''' _is_cached = False\"",
                  ind + "t_ = '''multi", "# " + "-" * 75, "# Cells", "line # x'''",
                  ind + "return len(s_) + len(t_), %s" % E]
        elif style == "cont":
            L += [ind + "v_ = 1 + \\", ind + "    2", ind + "return v_, %s" % E]
        elif style == "fstring":
            L += [ind + "return f\"{%s!r}:{'q'}\", %s" % (T2, E)]
        elif style == "walrus":
            L += [ind + "if (n_ := %s) is not None:" % T2, ind + ind + "return n_, %s" % E, ind + "return %s" % E]
        elif style == "annot":
            L += [ind + "v_: int = 2", ind + "return v_, %s" % E]
        elif style == "blank_lines":
            L += [ind + "a_ = %s" % T2, "", ind + "# a comment between statements", "", ind + "return a_, %s" % E]
        elif style == "while":
            L += [ind + "i_ = 0", ind + "while i_ < 2:", ind + ind + "i_ += 1", ind + "return i_, %s" % E]
        r = rnd.random()
        if r < 0.1:
            L[-1] += "  # tail comment"
            feats.append("c:tail")
        elif r < 0.25 and self.hz["d4"]:
            L.append(ind + "# comment after the last statement")
            feats.append("c:after_last")
        t = "\n".join(L)
        r = rnd.random()
        if r < 0.5:
            t += "\n"
        elif r < 0.65 and self.hz["d4"]:
            t += "\n\n"
        if rnd.random() < 0.08:
            t = "\n".join(("        " + ln if ln.strip() else ln) for ln in t.split("\n"))
            feats.append("indented")
            # string literals spanning lines change with re-indentation; that is what the author typed
        if rnd.random() < 0.03 and (self.hz["crlf_ws"] or not any(ln and not ln.strip() for ln in t.split("\n"))):
            t = t.replace("\n", "\r\n")      # (blank-only lines in CRLF text: a known mechanism, own switch)
            feats.append("crlf")
        return t, feats

    def space_formula(self, params, refs_ok=True):
        rnd = self.rnd
        defaults = {}
        if len(params) > 1 and rnd.random() < 0.7:
            defaults[params[-1]] = "2"
        elif rnd.random() < 0.15:
            defaults[params[0]] = "1"
        s = self.sig(params, defaults)
        ret = rnd.choice(["None", "None", "{'refs': {'w_': %s * 3}}" % params[0],
                          "{'refs': {'w_': %s, 'v_': 'x'}}" % " + ".join(params)])
        form = rnd.choice(["lambda", "lambda", "def", "def", "def_other", "def_doc", "def_multi"])
        if form == "lambda":
            t = "lambda %s: %s" % (s, ret)
        elif form == "def":
            t = "def _formula(%s):\n    return %s\n" % (s, ret)
        elif form == "def_other":
            t = "def params_(%s):\n    return %s" % (s, ret)
        elif form == "def_doc":
            t = 'def _formula(%s):\n    """space formula doc"""\n    # comment\n    return %s  # tail\n' % (s, ret)
        else:
            t = "def _formula(%s):\n    r_ = %s\n    if r_ is None:\n        return None\n    return r_\n" % (s, ret)
        return t, len(defaults), form, ("w_" if "w_" in ret else None)

    # ------------------------------------------------------------------ values
    def objects(self, kinds=("space", "cells"), derived=True):
        """static objects as (expr relative to the model, info)"""
        out = []
        for s in self.spaces:
            if "space" in kinds:
                out.append((s.path(), {"what": "space", "sp": s}))
            if "cells" in kinds:
                for n, (definer, c) in s.all_cells().items():
                    if definer is s or derived:
                        out.append((s.path() + "." + n, {"what": "cells", "sp": s, "name": n, "c": c,
                                                         "derived": definer is not s}))
        return out

    def relation(self, owner, target_sp, what):
        """relation class of an object reference (coverage matrix)"""
        if owner is None:
            return "from-model"
        if target_sp is owner:
            return "self" if what == "space" else "own-cells"
        if target_sp in list(owner.descendants()):
            d = "child" if target_sp.parent is owner else "descendant"
            return d if what == "space" else d + "-cells"
        if target_sp in list(owner.ancestors()):
            return "ancestor" if what == "space" else "ancestor-cells"
        if target_sp.parent is owner.parent:
            return "sibling" if what == "space" else "sibling-cells"
        return "other" if what == "space" else "other-cells"

    def pick_object(self, owner, prefer=None):
        rnd = self.rnd
        objs = self.objects()
        if not objs:
            return None
        if prefer == "derived":
            d = [o for o in objs if o[1].get("derived")]
            if d:
                objs = d
        elif prefer == "near" and owner is not None:
            near = [o for o in objs if o[1]["sp"] is owner or o[1]["sp"] in list(owner.descendants())]
            if near:
                objs = near
        return rnd.choice(objs)

    def value_for(self, name, owner, allow_obj=True, want=None):
        """value for a reference called `name`, or None.

        A reference name keeps one *use class* (number, text, container, cells, space, module ...) throughout a
        model: through inheritance and overriding a formula written for one space is evaluated with the name bound
        to another value, and the expression templates must stay pure there - `len(r)` of a text is fine, `len(r)`
        of a cells is the number of values it happens to hold.  Names that shadow builtins used by the templates
        (len, abs) never refer to a cells or a class - `len(s)` would become a call edge outside the rank order."""
        fixed = self.name_use.get(name)
        if name in CALLREFS:
            fixed, want = "cells", "object"
        for _ in range(40):
            v, info = self.value(owner, allow_obj, want)
            if name in CALLREFS and not (info.get("use") == "cells" and info.get("rank", 99) < 3):
                continue
            if name in ("len", "abs") and (info.get("use") in ("cells", "space") or v.get("sub") == "class"):
                want = None
                continue
            if fixed is not None and info.get("use") != fixed:
                want = None
                continue
            self.name_use[name] = info.get("use")
            return v, info
        return None, None

    def value(self, owner, allow_obj=True, want=None):
        """returns (value spec, info for formula use).  value spec: {"py": expr, "kind":, "sub":}"""
        rnd = self.rnd
        k = want or rnd.choices(["literal", "pickle", "object", "module", "objcontainer", "special"],
                                [40, 24, 22 if allow_obj else 0, 5, 7 if allow_obj else 0,
                                 0])[0]
        if k == "literal":
            sub, e = rnd.choice(LITERALS)
            use = {"int": "num", "float": "num", "bigint": "num", "float_special": "repr", "str": "str",
                   "bool": "repr", "none": "repr"}[sub]
            return {"py": e, "kind": "literal", "sub": sub}, {"use": use}
        if k == "pickle":
            sub, e = rnd.choice(PICKLES)
            use = "repr" if sub in ("list", "tuple", "bytes", "complex", "range", "empty_list", "empty_tuple",
                                    "empty_dict", "decimal", "date", "fraction", "bytearray", "slice", "str_tuple",
                                    "dict") else "type"
            if sub in ("long_list", "set", "frozenset", "nested", "ordereddict", "inf_in_dict", "nan_in_list"):
                use = "len"
            return {"py": e, "kind": "pickle", "sub": sub}, {"use": use}
        if k == "module" and self.hz["dynmodule"] and rnd.random() < 0.5:
            return {"py": "types.ModuleType('dyn')", "kind": "module", "sub": "not-importable"}, {"use": "module"}
        if k == "module":
            sub, e = rnd.choice(MODULES)
            return {"py": "importlib.import_module(%r)" % e, "kind": "module", "sub": e}, {"use": "module"}
        if k == "object":
            o = self.pick_object(owner, prefer=rnd.choice([None, "near", "near", "derived"]))
            if o is None:
                return self.value(owner, False, "literal")
            expr, info = o
            rel = self.relation(owner, info["sp"], info["what"])
            if rnd.random() < 0.06:
                return {"py": "O('')", "kind": "object", "sub": "model", "rel": "model"}, {"use": "type"}
            vs = {"py": "O(%r)" % expr, "kind": "object", "sub": info["what"], "rel": rel,
                  "derived": bool(info.get("derived"))}
            if info["what"] == "cells":
                return vs, {"use": "cells", "rank": RANK.get(info["name"], 99), "nparams": len(info["c"]["params"])}
            return vs, {"use": "space"}
        if k == "objcontainer":
            n = rnd.randint(1, 3)
            picks = [self.pick_object(owner, prefer=rnd.choice([None, "derived", "derived"])) for _ in range(n)]
            picks = [p for p in picks if p]
            if not picks:
                return self.value(owner, False, "pickle")
            items = ["O(%r)" % p[0] for p in picks]
            shape = rnd.choice(["list", "tuple", "dict", "nested"])
            if shape == "list":
                e = "[" + ", ".join(items) + "]"
            elif shape == "tuple":
                e = "(" + ", ".join(items) + ", 3)"
            elif shape == "dict":
                e = "{" + ", ".join("%r: %s" % ("k%d" % i, it) for i, it in enumerate(items)) + "}"
            else:
                e = "{'in': [" + ", ".join(items) + "], 'n': 1}"
            return ({"py": e, "kind": "pickle", "sub": "container-of-objects",
                     "derived": any(p[1].get("derived") for p in picks)},
                    {"use": "objlist" if shape in ("list", "tuple") else "len"})
        # (nodes of cells - cells.node(1) - are not in the vocabulary: their repr depends on whether the element
        # holds a value, which makes any text a formula builds from them depend on the order of evaluation)
        return self.value(owner, False, "literal")

    def item_arg_list(self, s):
        rnd = self.rnd
        n = len(s.params)
        if n - s.ndefaults < n and rnd.random() < 0.5:
            n = n - s.ndefaults
        n = max(1, n)
        pool = [0, 1, 2, 1, 2, 3, "a", (1, 2), None, 2.5, -1]
        return [rnd.choice(pool[:6]) if rnd.random() < 0.8 else rnd.choice(pool[6:]) for _ in range(n)]

    def input_value(self, owner, allow_none):
        rnd = self.rnd
        r = rnd.random()
        if r < 0.45:
            return {"py": repr(rnd.choice([100, 200, -5, 0, 10 ** 12])), "kind": "literal", "sub": "int"}
        if r < 0.6:
            return {"py": repr(rnd.choice(["in", "", "q\"'", "é\n"])), "kind": "literal", "sub": "str"}
        if r < 0.68:
            return {"py": rnd.choice(["2.5", "float('nan')", "float('inf')", "-0.0"]), "kind": "literal", "sub": "float"}
        if r < 0.74 and allow_none:
            return {"py": "None", "kind": "literal", "sub": "none"}
        if r < 0.86:
            sub, e = rnd.choice(PICKLES)
            return {"py": e, "kind": "pickle", "sub": sub}
        v, _ = self.value(owner, True, rnd.choice(["object", "objcontainer", "objcontainer"]))
        return v

    # ------------------------------------------------------------------ the model
    def build(self):
        rnd = self.rnd
        focus = self.focus
        # ---- model attributes
        d, dk = self.doc(0.55)
        an = rnd.choice([None, None, True, False])
        self.model_allow_none = bool(an)
        self.emit(op="model", doc=d, dk=dk, allow_none=an)
        # ---- space tree
        ntop = rnd.randint(1, 4 if focus != "small" else 2)
        tops = rnd.sample(TOPS, ntop)
        for t in tops:
            self.new_space(None, t, p_formula=0.5 if focus == "itemspace" else 0.2)
            top = self.spaces[-1]
            nch = rnd.choice([0, 0, 1, 1, 2]) if focus != "nested" else rnd.choice([1, 2, 2])
            for c in rnd.sample(CHILDREN, nch):
                self.new_space(top, c, p_formula=0.5 if focus == "itemspace" else 0.15)
                ch = self.spaces[-1]
                if rnd.random() < (0.6 if focus == "nested" else 0.3):
                    self.new_space(ch, rnd.choice([x for x in CHILDREN if x != c]),
                                   p_formula=0.3 if focus == "itemspace" else 0.1)
        # ---- inheritance: along a random order of the spaces (half of the cases: creation order), so that a sub
        # space may have been created - and is written - before its bases
        p_base = {"inherit": 0.8, "derived_obj": 0.8, "nested": 0.6}.get(focus, 0.35)
        order = list(self.spaces)
        if rnd.random() < 0.5:
            rnd.shuffle(order)
        self.inh_order = {id(s): i for i, s in enumerate(order)}
        for i, s in enumerate(order):
            if i == 0 or rnd.random() > p_base:
                continue
            cands = [b for b in order[:i] if b not in list(s.ancestors()) and b not in list(s.descendants())]
            if not cands:
                continue
            k = 1 if rnd.random() < 0.7 else 2
            bs = rnd.sample(cands, min(k, len(cands)))
            bs.sort(key=lambda b: -self.inh_order[id(b)])   # later in the order first: keeps the linearisation consistent
            s.bases = bs
            self.emit(op="bases", space=s.path(), bases=[b.path() for b in bs])
        # ---- cells (in rank order per space so that text may call lower ranks; children first)
        for s in sorted(self.spaces, key=lambda s: -len(list(s.ancestors()))):
            self.fill_cells(s)
        # ---- edits that delete things come before the references (a reference to a deleted object has no
        # counterpart in any model); renames and re-definitions come after them
        edits = rnd.randint(1, 3) if (focus == "edits" or rnd.random() < 0.12) else 0
        for _ in range(edits):
            self.edit(rnd.choice(["del_cells", "del_space", "remove_bases", "del_override", "none", "none"]))
        # ---- IOSpecs
        if focus == "iospec" or rnd.random() < 0.04:
            self.iospecs()
        # ---- references
        for s in self.spaces:
            self.fill_refs(s)
        self.fill_refs(None)
        # ---- formulas that use the references: a second round of cells with higher ranks
        for s in self.spaces:
            if rnd.random() < 0.6:
                self.fill_cells(s, late=True)
        # ---- overrides in sub spaces
        for s in self.spaces:
            if s.bases and rnd.random() < 0.4:
                self.override(s)
        # ---- edits
        for _ in range(edits):
            self.edit(rnd.choice(["rename_cells", "rename_space", "del_ref", "set_formula", "toggle_cached",
                                  "set_doc", "set_doc"]))
        # ---- inputs (static, then ItemSpaces: any namespace change discards ItemSpaces)
        for s in self.spaces:
            self.static_inputs(s)
        for s in self.spaces:
            if s.params is not None and not any(a.params is not None for a in s.ancestors()):
                self.item_inputs(s)
        return self

    def new_space(self, parent, name, p_formula):
        rnd = self.rnd
        s = Sp(name, parent, len(self.spaces))
        formula = None
        ffeat = None
        if rnd.random() < p_formula:
            params = list(rnd.choice(SPARAMS if parent is None else CPARAMS))
            formula, nd, ffeat, extra = self.space_formula(params)
            s.params = params
            s.ndefaults = nd
            if extra:
                s.refs_from_formula = extra
        d, dk = self.doc(0.65)
        an = rnd.choice([None, None, None, True, False])
        s.allow_none = an
        self.emit(op="space", parent=parent.path() if parent else "", name=name, formula=formula, ffeat=ffeat,
                  doc=d, dk=dk, allow_none=an)
        if parent is not None:
            parent.children[name] = s
        self.spaces.append(s)

    def effective_allow_none(self, s, c_an):
        if c_an is not None:
            return c_an
        x = s
        while x is not None:
            if x.allow_none is not None:
                return x.allow_none
            x = x.parent
        return self.model_allow_none

    def fill_cells(self, s, late=False):
        rnd = self.rnd
        focus = self.focus
        taken = set(s.all_cells())
        pool = [n for n in CELLS if n not in taken]
        if late:
            pool = [n for n in pool if RANK[n] > max([RANK.get(n2, -1) for n2 in s.cells] + [5])]
            k = rnd.choice([0, 1, 1, 2])
        else:
            k = rnd.choice([0, 1, 2, 2, 3, 4]) if focus != "prefix" else rnd.choice([3, 4, 5])
            if focus == "small":
                k = rnd.choice([1, 2])
        names = sorted(rnd.sample(pool, min(k, len(pool))), key=lambda n: RANK[n])
        if focus == "prefix" and not late:
            fam = rnd.choice([["c", "c1", "c12", "cc"], ["rate", "rate_adj"], ["f", "fo", "foo"], ["d", "d_x"], ["max", "ma"]])
            names = sorted(set(names) | {n for n in fam if n not in taken}, key=lambda n: RANK[n])
        for n in names:
            np_ = rnd.choices([0, 1, 2], [15, 55, 30])[0]
            params = ["x", "y"][:np_]
            defaults = {}
            if np_ == 2 and rnd.random() < 0.6:
                defaults["y"] = "1"
            form = "lambda" if rnd.random() < 0.38 else "def"
            cached = rnd.random() < 0.72
            an = rnd.choice([None, None, None, True, False])
            none_at = None
            if rnd.random() < 0.15 and params:
                none_at = 1
            text, feats = self.cells_text(s, n, params, defaults, form, RANK[n], none_at)
            d_after, dk = (None, "none")
            if rnd.random() < (0.45 if form == "lambda" else 0.15):
                d_after, dk = self.doc(0.0)
                if form == "def" and dk in ("cr", "ends_cr", "divider"):
                    d_after, dk = "plain", "plain"
            self.emit(op="cells", space=s.path(), name=n, formula=text, cached=cached, allow_none=an,
                      doc_after=d_after, dk=dk if d_after is not None else next((f[4:] for f in feats if f.startswith("doc:")), "none"),
                      form=form, feats=feats)
            s.cells[n] = {"params": params, "cached": cached, "form": form, "an": an}

    def fill_refs(self, s):
        rnd = self.rnd
        focus = self.focus
        if s is None:
            names = rnd.sample(MREFS, rnd.choice([0, 1, 1, 2, 3]))
            for n in names:
                v, info = self.value_for(n, None, True)
                if v is None:
                    continue
                self.emit(op="ref", space="", name=n, value=v, mode=None)
                self.mrefs[n] = info
            return
        k = rnd.choice([0, 1, 2, 2, 3, 4])
        if focus in ("refs", "derived_obj"):
            k = rnd.choice([3, 4, 5])
        taken = set(s.all_refs()) | set(getattr(s, "refs_from_formula", ()) or ())
        pool = [n for n in REFS if n not in taken]
        names = rnd.sample(pool, min(k, len(pool)))
        for n in names:
            want = None
            if focus == "derived_obj" and rnd.random() < 0.5:
                want = rnd.choice(["objcontainer", "object"])
            elif focus == "refs" and rnd.random() < 0.5:
                want = "object"
            v, info = self.value_for(n, s, True, want)
            if v is None:
                continue
            if v["kind"] == "object":
                mode = rnd.choice([None, "auto", "relative", "absolute", "absolute", "relative"])
                if mode == "relative" and v.get("rel") in ("other", "other-cells", "model", "dynamic", "sibling",
                                                           "sibling-cells", "ancestor", "ancestor-cells") \
                        and rnd.random() < 0.8:
                    mode = "absolute"      # relative references leaving the tree are mostly rejected later
            else:
                mode = None
                r = rnd.random()
                if r < 0.06:
                    mode = "auto"
                elif r < 0.3 and self.hz["P"]:
                    mode = rnd.choice(["absolute", "relative"])      # mechanism P trigger
            self.emit(op="ref", space=s.path(), name=n, value=v, mode=mode)
            s.refs[n] = info

    def iospecs(self):
        rnd = self.rnd
        owners = [None] + self.spaces
        for i in range(rnd.randint(1, 3)):
            o = rnd.choice(owners)
            kind = rnd.choice(["pandas_csv", "pandas_excel", "module", "pandas_series"])
            name = "io%d" % i
            sub = rnd.choice(["data", "data/sub", "files/deep/er", "io_files"])
            taken = set(self.mrefs) if o is None else set(o.all_refs())
            if name in taken:
                continue
            self.emit(op="iospec", space=o.path() if o else "", name=name, kind=kind,
                      path="%s/%s.%s" % (sub, name, {"pandas_csv": "csv", "pandas_excel": "xlsx", "module": "py",
                                                     "pandas_series": "csv"}[kind]))
            info = {"use": "modio"} if kind == "module" else {"use": "pandas", "sub": "series" if kind == "pandas_series" else "df"}
            if o is None:
                self.mrefs[name] = info
            else:
                o.refs[name] = info

    def override(self, s):
        rnd = self.rnd
        inherited = [(n, d, c) for n, (d, c) in s.all_cells().items() if d is not s]
        inh_refs = [(n, d, r) for n, (d, r) in s.all_refs().items() if d is not s]
        r = rnd.random()
        if r < 0.45 and inherited:
            n, d, c = rnd.choice(inherited)
            text, feats = self.cells_text(s, n, c["params"], {"y": "1"} if len(c["params"]) > 1 else {},
                                          rnd.choice(["def", "lambda"]), RANK.get(n, 50))
            self.emit(op="set_formula", space=s.path(), name=n, formula=text, feats=feats)
            s.cells[n] = dict(c, form="def" if text.lstrip().startswith(("def", "#", "@")) else "lambda")
        elif r < 0.8 and inh_refs:
            n, d, rinfo = rnd.choice(inh_refs)
            v, info = self.value_for(n, s, True)
            if v is not None:
                self.emit(op="ref", space=s.path(), name=n, value=v, mode=None)
                s.refs[n] = info
        elif inherited and self.hz["derived_input"] and r > 0.5:
            cands = [(n, d, c) for n, d, c in inherited if c["cached"]]
            if cands:
                n, d, c = rnd.choice(cands)      # input on a derived cells (kept at low weight)
                key = [rnd.choice([0, 1, 2]) for _ in c["params"]]
                self.emit(op="input", space=s.path(), name=n, key=key,
                          value={"py": "77", "kind": "literal", "sub": "int"}, derived=True)

    def edit(self, kind):
        rnd = self.rnd
        sps = list(self.spaces)
        if not sps:
            return
        s = rnd.choice(sps)
        if kind == "rename_cells" and s.cells:
            n = rnd.choice(sorted(s.cells))
            new = "ren_" + n
            self.emit(op="rename_cells", space=s.path(), name=n, new=new)
            s.cells[new] = s.cells.pop(n)
        elif kind == "rename_space":
            new = s.name + "_r"
            self.emit(op="rename_space", space=s.path(), new=new)
            if s.parent is not None:
                s.parent.children[new] = s.parent.children.pop(s.name)
            s.name = new
        elif kind == "del_cells" and s.cells:
            n = rnd.choice(sorted(s.cells))
            self.emit(op="del", space=s.path(), name=n)
            s.cells.pop(n)
        elif kind == "del_ref" and s.refs:
            n = rnd.choice(sorted(s.refs))
            self.emit(op="del", space=s.path(), name=n)
            s.refs.pop(n)
        elif kind == "del_space" and len(self.spaces) > 1:
            leafs = [x for x in self.spaces if not x.children]
            s = rnd.choice(leafs)
            self.emit(op="del_space", space=s.path())
            gone = [s]
            for x in gone:
                self.spaces.remove(x)
                if x.parent is not None:
                    x.parent.children.pop(x.name, None)
            for x in self.spaces:
                x.bases = [b for b in x.bases if b not in gone]
        elif kind == "set_formula" and s.cells:
            n = rnd.choice(sorted(s.cells))
            c = s.cells[n]
            text, feats = self.cells_text(s, n, c["params"], {"y": "1"} if len(c["params"]) > 1 else {},
                                          rnd.choice(["def", "lambda"]), RANK.get(n[4:] if n.startswith("ren_") else n, 50))
            self.emit(op="set_formula", space=s.path(), name=n, formula=text, feats=feats)
        elif kind == "toggle_cached" and s.cells:
            n = rnd.choice(sorted(s.cells))
            s.cells[n]["cached"] = not s.cells[n]["cached"]
            self.emit(op="set_cached", space=s.path(), name=n, value=s.cells[n]["cached"])
        elif kind == "set_doc":
            d, dk = self.doc(0.1)
            if s.cells and rnd.random() < 0.6:
                n = rnd.choice(sorted(s.cells))
                if s.cells[n]["form"] == "def" and dk in ("cr", "ends_cr", "divider"):
                    d, dk = "plain", "plain"
                self.emit(op="set_doc", space=s.path(), name=n, doc=d, dk=dk)
            else:
                self.emit(op="set_doc", space=s.path(), name=None, doc=d, dk=dk)
        elif kind == "remove_bases" and s.bases:
            b = rnd.choice(s.bases)
            self.emit(op="remove_bases", space=s.path(), bases=[b.path()])
            s.bases.remove(b)
        elif kind == "del_override":
            ov = [n for n in s.cells if any(n in b.all_cells() for b in s.bases)]
            if ov:
                n = rnd.choice(sorted(ov))
                self.emit(op="del", space=s.path(), name=n)
                s.cells.pop(n)

    def static_inputs(self, s):
        rnd = self.rnd
        p = 0.6 if self.focus in ("prefix", "inputs") else 0.35
        for n, c in sorted(s.cells.items()):
            if not c["cached"] or rnd.random() > p:
                continue
            an = self.effective_allow_none(s, c["an"])
            for _ in range(rnd.choice([1, 1, 2, 3])):
                key = []
                for _p in c["params"]:
                    key.append(rnd.choice([0, 1, 2, 1, 2, 5, -1]) if rnd.random() < 0.9
                               else rnd.choice(["k", 2.5, (1, 2), None]))
                self.emit(op="input", space=s.path(), name=n, key=key, value=self.input_value(s, an))

    def item_inputs(self, s):
        """inputs inside ItemSpaces of the parametrised top space s (and of what lies below it)"""
        rnd = self.rnd
        p = 0.8 if self.focus == "itemspace" else 0.5
        if rnd.random() > p:
            return
        for _ in range(rnd.choice([1, 1, 2, 3])):
            args = self.item_arg_list(s)
            expr = "%s[%s]" % (s.path(), ", ".join(repr(a) for a in args))
            self.item_args.setdefault(s.path(), []).append(args)
            cur = s
            # descend: stay, a child DynamicSpace, or a nested ItemSpace
            for _d in range(2):
                if cur.children and rnd.random() < 0.55:
                    ch = cur.children[rnd.choice(sorted(cur.children))]
                    expr += "." + ch.name
                    if ch.params is not None:
                        a2 = self.item_arg_list(ch)
                        expr += "[%s]" % ", ".join(repr(a) for a in a2)
                        self.item_args.setdefault("@" + expr.rsplit("[", 1)[0], []).append(a2)
                    cur = ch
                else:
                    break
            cands = [(n, c) for n, (d, c) in cur.all_cells().items() if c["cached"]]
            if not cands:
                continue
            n, c = rnd.choice(sorted(cands, key=lambda t: t[0]))
            key = [rnd.choice([0, 1, 2, 1, 7]) for _p in c["params"]]
            an = self.effective_allow_none(cur, c["an"])
            self.emit(op="item_input", target=expr + "." + n, key=key, value=self.input_value(cur, an),
                      nested=expr.count("["))


def plan(rnd, tier):
    """write/read plan of a case"""
    order = rnd.choice([["dir", "zip"], ["zip", "dir"]])
    chain = rnd.choice([[], ["zip"], ["dir"], ["zip", "dir"], ["dir", "zip"], ["zip", "zip"], ["dir", "dir"]])
    return {
        "order": order,
        "chain_from": rnd.choice(["dir", "zip"]),
        "chain": chain,
        "log_input": rnd.random() < 0.2,
        "pre_save": rnd.random() < 0.2,           # an older save exists at the path (backup rotation)
        "backup": rnd.random() < 0.8,
        "compression": rnd.choice([None, None, "stored", "deflated9"]),
        "pathname": rnd.choice(["model", "model.zip", "my model", "mödel", "m.v1", "A", "_data", "model_BAK1"]),
        "pathlib": rnd.random() < 0.3,
        "same_path": rnd.random() < 0.3,          # in the chain, save back to where the model was read from
        "pre_eval": rnd.random() < 0.7,           # evaluate part of the queries before writing
    }


FOCI = [None, None, "prefix", "derived_obj", "nested", "itemspace", "refs", "inherit", "iospec", "edits", "inputs",
        "small"]


def generate(seed, focus=None, tier="quick", hazards=True):
    g = Gen(seed, focus, hazards).build()
    rnd = random.Random(seed ^ 0xC04)
    return {"ops": g.ops, "plan": plan(rnd, tier), "item_args": g.item_args}


# ---------------------------------------------------------------------------- directed cases
def _v(py, kind="literal", sub="x", **kw):
    return dict({"py": py, "kind": kind, "sub": sub}, **kw)


def _plan(**kw):
    p = {"order": ["dir", "zip"], "chain_from": "zip", "chain": ["dir"], "log_input": False, "pre_save": False,
         "backup": True, "compression": None, "pathname": "model", "pathlib": False, "same_path": False,
         "pre_eval": True}
    p.update(kw)
    return p


def directed():
    """small fixed models: the witnesses of the mechanisms once found on the tree (regression probes) and
    one minimal representative per class of the 'should catch' list"""
    M = {"op": "model", "doc": None, "dk": "none", "allow_none": None}

    def sp(name, parent="", formula=None, doc=None, an=None):
        return {"op": "space", "parent": parent, "name": name, "formula": formula, "ffeat": None, "doc": doc,
                "dk": "x", "allow_none": an}

    def ce(space, name, formula, cached=True, an=None, doc_after=None, form=None):
        return {"op": "cells", "space": space, "name": name, "formula": formula, "cached": cached, "allow_none": an,
                "doc_after": doc_after, "dk": "x", "form": form or ("lambda" if formula.lstrip().startswith("lambda") else "def"),
                "feats": []}

    out = []
    # O: uncached lambda cells, crossed with doc / allow_none
    ops = [M, sp("A")]
    i = 0
    for cached in (True, False):
        for an in (None, True, False):
            for doc in (None, "d", ""):
                for form in ("lambda x: x + %d", "def c%d(x):\n    return x + %d"):
                    name = "c%d" % i
                    f = form % i if form.startswith("lambda") else form % (i, i)
                    ops.append(ce("A", name, f, cached, an, doc))
                    i += 1
    out.append({"id": "d_flags", "ops": ops, "plan": _plan(), "item_args": {}})
    # regression probes of the deviations of the unchanged tree met so far (minimal witnesses; also in
    # findings/c04_witnesses.py).  One multi-case: a single replay confirms all of them.
    short = _plan(chain=[], pre_eval=False)
    probes = [
        # P: explicit modes on non-object references
        {"id": "p_P", "ops": [M, sp("A"), {"op": "ref", "space": "A", "name": "x", "value": _v("1"), "mode": "absolute"},
                              {"op": "ref", "space": "A", "name": "y", "value": _v("[1]", "pickle"), "mode": "relative"},
                              {"op": "ref", "space": "A", "name": "z", "value": _v("2"), "mode": "auto"}]},
        # input assigned to a derived cells
        {"id": "p_derived_input", "ops": [M, sp("A"), ce("A", "c", "def c(x):\n    return x"), sp("B"),
                                          {"op": "bases", "space": "B", "bases": ["A"]},
                                          {"op": "input", "space": "B", "name": "c", "key": [1], "value": _v("50"), "derived": True}]},
        # carriage returns in documentation text
        {"id": "p_cr", "ops": [dict(M, doc=DOC_CR[1], dk="cr"), sp("A", doc="x\ry"), ce("A", "lam", "lambda x: x", doc_after="p\r\nq")]},
        # a section-divider line inside documentation text
        {"id": "p_divider", "ops": [dict(M, doc=DOC_DIVIDER[1], dk="divider"), sp("A")]},
        # comment / blank lines around a def formula
        {"id": "p_def_surroundings", "ops": [M, sp("A"), ce("A", "c", "# leading comment\ndef c(x):\n    return x\n"),
                                             ce("A", "d", "def d(x):\n    return x\n    # after the last statement\n"),
                                             ce("A", "f", "def f(x):\n    return x\n\n")]},
        # whitespace-only line in a def formula given as CRLF text
        {"id": "p_crlf_blank_line", "ops": [M, sp("A"), ce("A", "c", "def c(x):\r\n    s = \'\'\'p\r\n    \r\nq\'\'\'\r\n    return s\r\n")]},
        # a sub space created (and written) before its base, overriding a reference / a cells of the base
        {"id": "p_sub_before_base", "ops": [M, sp("B"), sp("C"), {"op": "bases", "space": "B", "bases": ["C"]},
                                            {"op": "ref", "space": "C", "name": "w", "value": _v("1"), "mode": None},
                                            {"op": "ref", "space": "B", "name": "w", "value": _v("2"), "mode": None},
                                            ce("C", "c", "lambda x: 1"),
                                            {"op": "set_formula", "space": "B", "name": "c", "formula": "lambda x: 2", "feats": []},
                                            ce("B", "d", "lambda x: (w, c(x))")]},
        # relative reference accepted only because an earlier sub defines the name
        {"id": "p_relref_break", "ops": [M, sp("Ba"), sp("Ch2", "Ba"), sp("A1"),
                                         {"op": "bases", "space": "Ba.Ch2", "bases": ["A1"]},
                                         {"op": "bases", "space": "Ba", "bases": ["A1"]},
                                         ce("Ba", "c", "lambda x: -x"), ce("A1", "max", "lambda x: x"),
                                         {"op": "ref", "space": "Ba.Ch2", "name": "s", "value": _v("O('Ba.c')", "object", "cells"), "mode": "absolute"},
                                         {"op": "ref", "space": "A1", "name": "s", "value": _v("O('Ba.max')", "object", "cells"), "mode": "relative"}]},
        # derived reference whose target in the sub's child space is created after the reference
        {"id": "p_null_derived_ref", "ops": [M, sp("Ab"), sp("Gc", "Ab"), ce("Ab.Gc", "max", "lambda x: x"), sp("Base"),
                                             sp("Gc", "Base"), {"op": "bases", "space": "Base", "bases": ["Ab"]},
                                             {"op": "ref", "space": "Ab", "name": "s2", "value": _v("O('Ab.Gc.max')", "object", "cells"), "mode": None},
                                             ce("Base.Gc", "max", "lambda x: -x"), ce("Base", "c", "lambda x: x")]},
        # a module object that cannot be imported by its name
        {"id": "p_dynmodule", "ops": [M, sp("A"), {"op": "ref", "space": "A", "name": "r", "value": _v("types.ModuleType('dyn')", "module", "not-importable"), "mode": None}]},
        # IOSpec-valued reference in a space
        {"id": "p_iospec_mode", "ops": [M, sp("A"), {"op": "iospec", "space": "A", "name": "io1", "kind": "pandas_series",
                                                    "path": "files/io1.csv"}]},
    ]
    for pr in probes:
        pr["plan"] = short
        pr["item_args"] = {}
    out.append({"id": "d_probes", "multi": probes})
    # Q: documentation text in model / space / lambda cells
    for j, (dk, d) in enumerate(DOCS):
        ops = [dict(M, doc=d, dk=dk), sp("A", doc=d), ce("A", "lam", "lambda x: x", doc_after=d),
               ce("A", "fn", "def fn(x):\n    return x", doc_after=d), sp("Ch", "A", doc=d)]
        out.append({"id": "d_doc_%s" % dk, "ops": ops, "plan": _plan(chain=[]), "item_args": {}})
    # prefix-related names with inputs in some of them only
    ops = [M, sp("A"), sp("Ab"), ce("A", "rate", "def rate(t):\n    return t"),
           ce("A", "rate_adj", "def rate_adj(t):\n    return rate(t) + 1"),
           ce("Ab", "c1", "lambda x: x"), ce("Ab", "c", "lambda x: x"),
           {"op": "input", "space": "A", "name": "rate_adj", "key": [0], "value": _v("5")},
           {"op": "input", "space": "Ab", "name": "c1", "key": [1], "value": _v("6")}]
    out.append({"id": "d_prefix", "ops": ops, "plan": _plan(), "item_args": {}})
    # containers holding derived members; object references in the three modes across nesting levels
    ops = [M, sp("Base"), ce("Base", "c", "def c(t):\n    return 100 + t"), sp("Ch", "Base"),
           ce("Base.Ch", "d", "def d(t):\n    return t"), sp("Gc", "Base.Ch"), ce("Base.Ch.Gc", "f", "lambda t: t * 2"),
           sp("Sub"), {"op": "bases", "space": "Sub", "bases": ["Base"]},
           sp("N", "Sub"), {"op": "bases", "space": "Sub.N", "bases": ["Base.Ch.Gc"]},
           {"op": "ref", "space": "Sub", "name": "w", "value": _v("[O('Sub.c'), O('Sub')]", "pickle", "container-of-objects"), "mode": None},
           {"op": "ref", "space": "Sub", "name": "k", "value": _v("{'p': O('Sub.c'), 'b': O('Base.c')}", "pickle", "container-of-objects"), "mode": None},
           ce("Sub", "foo", "def foo(t):\n    return sum(v(t) for v in w[:1]) + k['p'](t) + k['b'](t)"),
           ce("Sub", "sum", "def sum(i):\n    return None", an=True),
           {"op": "input", "space": "Sub", "name": "sum", "key": [0], "value": _v("(O('Sub.c'), 3)", "pickle", "container-of-objects")}]
    for mode in ("auto", "relative", "absolute"):
        ops += [{"op": "ref", "space": "Base", "name": "self_" + mode, "value": _v("O('Base')", "object", "space"), "mode": mode},
                {"op": "ref", "space": "Base", "name": "cell_" + mode, "value": _v("O('Base.c')", "object", "cells"), "mode": mode},
                {"op": "ref", "space": "Base", "name": "gc_" + mode, "value": _v("O('Base.Ch.Gc.f')", "object", "cells"), "mode": mode},
                {"op": "ref", "space": "Base.Ch.Gc", "name": "up_" + mode, "value": _v("O('Base')", "object", "space"), "mode": mode},
                {"op": "ref", "space": "Base.Ch.Gc", "name": "sib_" + mode, "value": _v("O('Base.Ch.d')", "object", "cells"), "mode": mode}]
    out.append({"id": "d_objects", "ops": ops, "plan": _plan(), "item_args": {}})
    # inputs in nested ItemSpaces
    ops = [M, sp("I", formula="def _formula(p, q=2):\n    return {'refs': {'w_': p * q}}"),
           ce("I", "c", "def c(x):\n    return p + q + w_ + x"), sp("Ch", "I", formula="lambda z: None"),
           ce("I.Ch", "d", "def d(x):\n    return p + z + x"), sp("Gc", "I.Ch"), ce("I.Ch.Gc", "f", "lambda x: x"),
           {"op": "item_input", "target": "I[1].c", "key": [5], "value": _v("500"), "nested": 1},
           {"op": "item_input", "target": "I[1, 3].c", "key": [6], "value": _v("600"), "nested": 1},
           {"op": "item_input", "target": "I[2].Ch[7].d", "key": [8], "value": _v("800"), "nested": 2},
           {"op": "item_input", "target": "I[2].Ch[7].Gc.f", "key": [1], "value": _v("[1, 2]", "pickle"), "nested": 2},
           {"op": "item_input", "target": "I['a'].Ch.Gc.f", "key": [2], "value": _v("9"), "nested": 1},
           {"op": "item_input", "target": "I[(1, 2), None].Ch[2.5].d", "key": [0], "value": _v("O('I.c')", "object", "cells"), "nested": 2}]
    out.append({"id": "d_items", "ops": ops, "plan": _plan(),
                "item_args": {"I": [[1], [1, 3], [2], ["a"]], "@I[2].Ch": [[7]]}})
    # IOSpec files in sub-directories
    ops = [M, sp("A"), {"op": "iospec", "space": "", "name": "io0", "kind": "pandas_excel", "path": "data/sub/io0.xlsx"},
           {"op": "iospec", "space": "A", "name": "io1", "kind": "pandas_series", "path": "files/deep/er/io1.csv"},
           {"op": "iospec", "space": "A", "name": "io2", "kind": "module", "path": "mods/io2.py"},
           ce("A", "c", "lambda x: (int(io0.sum().sum()), int(io1.sum()), io2.f(x))")]
    out.append({"id": "d_iospec", "ops": ops, "plan": _plan(), "item_args": {}})
    return out
