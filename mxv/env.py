"""Environment: which tree is under test, seeds, tiers.

Everything that imports modelx goes through `import_modelx()` so that the tree
under test is always the working tree of REPO (``/repo`` unless the self-test
sets MXV_REPO to a scratch copy).
"""
import os
import sys
import hashlib

VERIF = os.path.dirname(os.path.dirname(os.path.abspath(__file__)))
REPO = os.path.abspath(os.environ.get("MXV_REPO", "/repo"))
PYTHON = os.environ.get("MXV_PYTHON", "/venv/bin/python")
GUARD = "MODELX_VERIF"      # no guarded source hooks exist; recorded for MANIFEST.hooks

ALL_PROPS = ["C%02d" % i for i in range(1, 21)]


def seed():
    try:
        return int(os.environ.get("VERIF_SEED", "0"))
    except ValueError:
        return 0


def tier():
    t = os.environ.get("VERIF_TIER", "quick")
    return t if t in ("quick", "thorough") else "quick"


def jobs():
    try:
        return max(1, int(os.environ.get("MXV_JOBS", str(os.cpu_count() or 4))))
    except ValueError:
        return 4


def derive_seed(*parts):
    h = hashlib.sha256(repr(parts).encode()).digest()
    return int.from_bytes(h[:6], "big")


def child_env():
    env = dict(os.environ)
    env["PYTHONPATH"] = REPO + os.pathsep + VERIF
    env["PYTHONHASHSEED"] = "0"
    env["PYTHONWARNINGS"] = "ignore"
    env["MXV_REPO"] = REPO
    env.pop(GUARD, None)
    return env


_mx = None


def import_modelx():
    """import modelx from REPO's working tree and assert that it is that tree"""
    global _mx
    if _mx is not None:
        return _mx
    if REPO not in sys.path[:1]:
        sys.path.insert(0, REPO)
    import warnings
    warnings.simplefilter("ignore")
    import modelx
    f = os.path.realpath(modelx.__file__)
    if not f.startswith(os.path.realpath(REPO) + os.sep):
        raise RuntimeError("modelx imported from %s, not from %s" % (f, REPO))
    _mx = modelx
    return modelx
