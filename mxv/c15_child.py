"""Child-process driver of C15: imports an exported package with modelx blocked and
evaluates a list of queries.  Stand-alone: imports nothing from mxv or modelx.

usage: python c15_child.py <dir containing the package> <package name> <queries.json> <out.json>

A query is {"path": [step...], "cell": name, "args": [...], "kw": {...}} with steps
["s", name] (attribute), ["c", args, kwargs] (call) and ["g", args] (subscription).
Results: ["ok", canonical value] | ["err", exception class name, message].
"""
import importlib.abc
import json
import sys
import traceback


class _Block(importlib.abc.MetaPathFinder):
    def find_spec(self, name, path, target=None):
        if name == "modelx" or name.startswith("modelx."):
            raise ImportError("modelx is blocked in this process")
        return None


def canon(v, depth=0):
    """JSON-able, type-tagged canonical form (the same function is used on the model side)"""
    if depth > 8:
        return {"r": "<deep>"}
    if v is None or v is True or v is False:
        return {"c": repr(v)}
    t = type(v)
    if t is int:
        return v if abs(v) < 2 ** 50 else {"i": str(v)}
    if t is float:
        return {"f": repr(v)}
    if t is str:
        return {"s": v}
    if t is bytes:
        return {"b": v.hex()}
    if t is complex:
        return {"x": repr(v)}
    if t is tuple:
        return {"t": [canon(x, depth + 1) for x in v]}
    if t is list:
        return {"l": [canon(x, depth + 1) for x in v]}
    if t is dict:
        return {"d": [[canon(k, depth + 1), canon(x, depth + 1)] for k, x in v.items()]}
    if t is set or t is frozenset:
        return {"S" if t is set else "F": sorted(json.dumps(canon(x, depth + 1), sort_keys=True) for x in v)}
    if t is range:
        return {"rg": [v.start, v.stop, v.step]}
    return {"r": t.__name__}


def walk(root, q):
    o = root
    for st in q["path"]:
        if st[0] == "s":
            o = getattr(o, st[1])
        elif st[0] == "c":
            o = o(*st[1], **(st[2] if len(st) > 2 else {}))
        elif st[0] == "g":
            k = st[1]
            o = o[tuple(k) if len(k) != 1 else k[0]]
        else:
            raise ValueError(st)
    return getattr(o, q["cell"])


def origin(e):
    """[module file, class name, function name] of the innermost frame that is a method of an exported space"""
    tb = e.__traceback__
    found = None
    while tb is not None:
        fr = tb.tb_frame
        slf = fr.f_locals.get("self")
        co = fr.f_code
        # a method proper (self is its first argument), not a lambda / nested function closing over self
        if (co.co_filename.endswith("_mx_classes.py") and type(slf).__name__.startswith("_c_")
                and co.co_argcount and co.co_varnames[0] == "self"):
            found = [fr.f_code.co_filename, type(slf).__name__, fr.f_code.co_name]
        tb = tb.tb_next
    return found


def main(argv):
    pkgroot, pkgname, qfile, outfile = argv
    sys.meta_path.insert(0, _Block())
    sys.path.insert(0, pkgroot)
    sys.setrecursionlimit(3000)
    with open(qfile) as f:
        queries = json.load(f)
    out = {"import": None, "results": []}
    try:
        pkg = __import__(pkgname)
        root = pkg.mx_model
    except BaseException as e:      # noqa
        info = {"type": type(e).__name__, "msg": str(e)[:300]}
        if isinstance(e, SyntaxError):
            info["lineno"] = e.lineno
            info["filename"] = e.filename
            info["text"] = (e.text or "")[:200]
        else:
            tb = traceback.extract_tb(e.__traceback__)
            if tb:
                info["lineno"] = tb[-1].lineno
                info["filename"] = tb[-1].filename
                info["text"] = (tb[-1].line or "")[:200]
        out["import"] = info
        root = None
    if root is not None:
        for q in queries:
            if q.get("nop"):
                out["results"].append(["skip"])
                continue
            try:
                f = walk(root, q)
                v = f(*q.get("args", []), **q.get("kw", {}))
                out["results"].append(["ok", canon(v)])
            except RecursionError:
                out["results"].append(["err", "RecursionError", ""])
            except Exception as e:      # noqa
                out["results"].append(["err", type(e).__name__, str(e)[:200], origin(e)])
    out["modelx_loaded"] = any(k == "modelx" or k.startswith("modelx.") for k in sys.modules)
    with open(outfile, "w") as f:
        json.dump(out, f)
    return 0


if __name__ == "__main__":
    sys.exit(main(sys.argv[1:]))
