"""C10 helper: the exhaustive grid and the history generator (plain-data ops for c10_world.World)."""
import random

from . import refmodel as R

MODES = ("auto", "relative", "absolute")
DEPTHS = (0, 1, 2)
TARGETS = ("self", "own_cells", "child", "child_cells", "gchild", "gchild_cells", "outside", "outside_cells",
           "sibprefix", "sibprefix_cells", "topprefix", "topprefix_cells", "ancestor", "ancestor_cells",
           "xmodel", "xmodel_cells")
DERIVERS = ("sub", "subsub", "nested_sub", "multi_sub", "sub_in_tree", "item", "item_top", "nested_item",
            "item_of_sub", "item_xbase", "item_xbase_top")
FINISH = ("none", "dir", "zip")


def _cells(space, name, body):
    return {"op": "new_cells", "space": space, "name": name, "params": [], "body": body, "lam": True}


def _space(parent, name, bases=None):
    op = {"op": "new_space", "parent": parent, "name": name}
    if bases:
        op["bases"] = list(bases)
    return op


P1 = {"params": [["p", None]]}


def grid_points():
    """every (depth, mode, target, deriver) that exists: ancestor targets need depth > 0, derivers that go
    through the top space need depth > 0, topprefix equals sibprefix at depth 0"""
    for depth in DEPTHS:
        for mode in MODES:
            for tgt in TARGETS:
                if depth == 0 and tgt.startswith(("ancestor", "topprefix")):
                    continue
                for drv in DERIVERS:
                    if depth == 0 and drv in ("item_top", "nested_item", "item_xbase_top"):
                        continue
                    yield depth, mode, tgt, drv


def grid_ops(depth, mode, tgt, drv, finish="none", via="set_ref"):
    """Tree:  I[.X[.Y]] = definer D with cells dc, child K (cells kc) and grandchild K.L (cells lc);
    <D>_K next to D (its path has D's path as a string prefix) with child-like cells kc;
    I_K at top level; Out (cells oc); another model N.E (cells ec)."""
    ops = [_space("", "I"), _cells("I", "tc", "0")]
    dpath = "I"
    for n in ("X", "Y")[:depth]:
        ops.append(_space(dpath, n))
        dpath += "." + n
    dname = dpath.rsplit(".", 1)[-1]
    dparent = dpath.rpartition(".")[0]
    ops += [_cells(dpath, "dc", "1"), _space(dpath, "K"), _cells(dpath + ".K", "kc", "2"),
            _space(dpath + ".K", "L"), _cells(dpath + ".K.L", "lc", "3"),
            _space("", "Out"), _cells("Out", "oc", "4"), _cells("Out", "kc", "5"),
            _space(dparent, dname + "_K"), _cells((dparent + "." if dparent else "") + dname + "_K", "kc", "6")]
    sib = (dparent + "." if dparent else "") + dname + "_K"
    if depth:
        ops += [_space("", "I_K"), _cells("I_K", "kc", "7")]
    value = {
        "self": {"space": dpath}, "own_cells": {"cell": dpath + ".dc"},
        "child": {"space": dpath + ".K"}, "child_cells": {"cell": dpath + ".K.kc"},
        "gchild": {"space": dpath + ".K.L"}, "gchild_cells": {"cell": dpath + ".K.L.lc"},
        "outside": {"space": "Out"}, "outside_cells": {"cell": "Out.oc"},
        "sibprefix": {"space": sib}, "sibprefix_cells": {"cell": sib + ".kc"},
        "topprefix": {"space": "I_K"}, "topprefix_cells": {"cell": "I_K.kc"},
        "ancestor": {"space": "I"}, "ancestor_cells": {"cell": "I.tc"},
        "xmodel": {"xspace": "E"}, "xmodel_cells": {"xcell": "E.ec"},
    }[tgt]
    ops.append({"op": "set_ref", "space": dpath, "name": "r", "value": value, "mode": mode, "via": via})
    ops.append(_cells(dpath, "peek_r", "r"))
    if drv == "sub":
        ops.append(_space("", "S1", [dpath]))
    elif drv == "subsub":
        ops += [_space("", "S1", [dpath]), _space("", "S2", ["S1"])]
    elif drv == "nested_sub":
        ops += [_space("", "Host"), _space("Host", "S3", [dpath])]
    elif drv == "multi_sub":
        ops += [_space("", "Oth"), _cells("Oth", "q", "8"), _space("", "S4", ["Oth", dpath])]
    elif drv == "sub_in_tree":
        # a sub space next to the definer (inside the top space when there is one) and the ItemSpace of
        # the enclosing space: the derived reference is seen inside a dynamic tree
        ops.append(_space(dparent, "S5", [dpath]))
        if dparent:
            ops.append({"op": "set_space_formula", "space": "I", "formula": P1})
    elif drv == "item":
        ops.append({"op": "set_space_formula", "space": dpath, "formula": P1})
    elif drv == "item_top":
        ops.append({"op": "set_space_formula", "space": "I", "formula": P1})
    elif drv == "nested_item":
        ops += [{"op": "set_space_formula", "space": "I", "formula": P1},
                {"op": "set_space_formula", "space": dpath, "formula": P1}]
    elif drv == "item_of_sub":
        ops += [_space("", "S1", [dpath]), {"op": "set_space_formula", "space": "S1", "formula": P1}]
    elif drv == "item_xbase":
        ops += [_space("", "P"), {"op": "set_space_formula", "space": "P",
                                  "formula": {"params": [["p", None]], "base": dpath}}]
    elif drv == "item_xbase_top":
        ops += [_space("", "P"), {"op": "set_space_formula", "space": "P",
                                  "formula": {"params": [["p", None]], "base": "I"}}]
    else:
        raise ValueError(drv)
    if finish != "none":
        ops.append({"op": "reload", "fmt": finish})
    return ops


# ---------------------------------------------------------------------------- histories
TOPS = ["A", "B", "A2", "A_K", "C", "AB"]          # A / A2 / A_K / AB: string prefixes of one another
KIDS = ["K", "X", "K2", "X_K"]
REFN = ["r", "s", "t"]
CELLN = ["c", "d"]
PLACE = ["self", "own_cells", "child", "child_cells", "deep", "outside", "outside_cells", "ancestor",
         "sub", "xmodel", "lit"]


class HistoryGen:
    """ops are generated against a private copy of the definitions that assumes every op is accepted;
    the world skips ops that do not apply any more"""

    def __init__(self, rnd, directed=None):
        self.rnd = rnd
        self.rm = R.RModel("M")
        self.ops = []
        self.directed = directed
        self.lit = 0

    # -- bookkeeping
    def emit(self, op):
        self.ops.append(op)
        try:
            if op["op"] == "set_ref":
                v = op["value"]
                rs = self.rm.get(op["space"])
                if "space" in v:
                    rs.refs[op["name"]] = R.RRef(op["name"], "space", self.rm.get(v["space"]), op.get("mode"))
                elif "cell" in v:
                    sp, n = v["cell"].rsplit(".", 1)
                    rs.refs[op["name"]] = R.RRef(op["name"], "cell", (self.rm.get(sp), n), op.get("mode"))
                else:
                    rs.refs[op["name"]] = R.RRef(op["name"], "lit", 0, op.get("mode"))
            elif op["op"] != "reload":
                R.apply_op(self.rm, op, {}, probe=False)
                if op["op"] in ("add_bases", "new_space") and op.get("bases"):
                    # modelx refuses cycles and inconsistent orders: keep the prediction linearisable
                    rs = self.rm.get(op["space"] if op["op"] == "add_bases" else
                                     (op.get("parent", "") + "." if op.get("parent") else "") + op["name"])
                    if R.has_cycle(self.rm) or not _has_mro(rs) or \
                            not all(_has_mro(x) for x in self.rm.subs_of_safe(rs)):
                        n = len(op["bases"])
                        del rs.bases[-n:]
        except Exception:     # noqa  the prediction is only a guide
            pass

    def spaces(self):
        return list(self.rm.walk())

    def pick_space(self, pred=None):
        c = [s for s in self.spaces() if pred is None or pred(s)]
        return self.rnd.choice(c) if c else None

    # -- building blocks
    def new_space(self, parent, name, bases=None):
        self.emit(_space(parent, name, bases))
        p = (parent + "." if parent else "") + name
        for cn in CELLN[:self.rnd.choice((1, 1, 2))]:
            self.emit(_cells(p, cn, str(self.rnd.randrange(100))))
        return p

    def ok_base(self, sub_path, b):
        """a base may not contain or be contained in the sub"""
        p = b.path()
        return not (p == sub_path or p.startswith(sub_path + ".") or sub_path.startswith(p + "."))

    def value_for(self, rs, place):
        rnd = self.rnd
        alls = self.spaces()
        if place == "lit":
            self.lit += 1
            return {"lit": self.lit}
        if place == "xmodel":
            return rnd.choice(({"xspace": "E"}, {"xcell": "E.ec"}))
        if place in ("self", "own_cells"):
            c = [rs]
        elif place in ("child", "child_cells"):
            c = list(rs.children.values())
        elif place == "deep":
            c = [s for s in rs.walk() if s is not rs and s.parent is not rs]
        elif place == "ancestor":
            c = [s for s in alls if rs.is_within(s) and s is not rs]
        elif place == "sub":
            c = [s for s in alls if rs in s.bases]
        else:
            c = [s for s in alls if not s.is_within(rs) and not rs.is_within(s)]
        if not c:
            c = alls
        t = rnd.choice(c)
        cells = list(R.members(t)["cells"]) if _has_mro(t) else list(t.cells)
        as_cell = place.endswith("_cells") or (place in ("deep", "ancestor", "sub") and rnd.random() < 0.5)
        if as_cell and cells:
            return {"cell": t.path() + "." + rnd.choice(cells)}
        return {"space": t.path()}

    def set_ref(self, rs, name=None, place=None, mode=None):
        rnd = self.rnd
        place = place or rnd.choice(PLACE)
        if mode is None:
            mode = rnd.choice(("auto", "auto", "auto", "relative", "absolute"))
            if mode == "relative" and place in ("outside", "outside_cells", "ancestor", "xmodel", "sub") \
                    and rnd.random() < 0.8:
                mode = "auto"          # mostly avoid the documented rejection, keep a few
        via = rnd.choice(("set_ref", "set_ref", "kw", "setattr" if mode == "auto" else "set_ref"))
        self.emit({"op": "set_ref", "space": rs.path(), "name": name or rnd.choice(REFN),
                   "value": self.value_for(rs, place), "mode": mode, "via": via})

    def set_formula(self, rs, explicit=None):
        rnd = self.rnd
        fd = {"params": [["p", None]]}
        if explicit is None:
            explicit = rnd.random() < 0.35
        if explicit:
            b = self.pick_space(lambda s: self.ok_base(rs.path(), s))
            if b is not None:
                fd["base"] = b.path()
        self.emit({"op": "set_space_formula", "space": rs.path(), "formula": fd})

    # -- the model
    def build(self, n_ops):
        rnd = self.rnd
        tops = rnd.sample(TOPS, rnd.randint(3, 4))
        for t in tops:
            bases = None
            cands = [s for s in self.spaces()]
            if cands and rnd.random() < 0.45:
                bases = [b.path() for b in rnd.sample(cands, min(len(cands), rnd.choice((1, 1, 2))))]
            p = self.new_space("", t, bases)
            for k in rnd.sample(KIDS, rnd.choice((0, 1, 1, 2))):
                kb = None
                cands = [s for s in self.spaces() if self.ok_base(p + "." + k, s)]
                if cands and rnd.random() < 0.3:
                    kb = [rnd.choice(cands).path()]
                kp = self.new_space(p, k, kb)
                if rnd.random() < 0.35:
                    self.new_space(kp, rnd.choice(KIDS))
        for op in self.ops:
            op["chk"] = False          # construction: looked at once, below
        if self.directed:
            self.direct(self.directed)
        for _ in range(rnd.randint(3, 6)):
            self.set_ref(self.pick_space())
        for _ in range(rnd.choice((1, 1, 2))):
            self.set_formula(self.pick_space())
        for op in self.ops:
            if op["op"] == "new_cells":
                op["chk"] = False
        for _ in range(n_ops):
            self.random_op()
        for op in self.ops:
            if op["op"] == "new_cells" and not op["name"].startswith("peek"):
                op.setdefault("chk", False)
        return self.ops

    # -- directed: the definer of a derived reference changes
    def direct(self, kind):
        """D(X, Y): X and Y both define r with independently chosen placements; then one edit makes D.r
        derive from the other base (or back).  kind picks the edit."""
        rnd = self.rnd
        x = self.new_space("", "DX")
        y = self.new_space("", "DY")
        rnd.choice((lambda: None, lambda: self.new_space(x, "K"), lambda: self.new_space(y, "K")))()
        host = rnd.choice(("", "", self.pick_space().path()))
        if host.startswith(("DX", "DY")):
            host = ""
        order = [x, y] if rnd.random() < 0.8 else [y, x]
        d = self.new_space(host, "DD", order)
        places = ["self", "own_cells", "outside", "outside_cells", "lit", "child", "xmodel"]
        name = rnd.choice(REFN)
        self.set_ref(self.rm.get(x), name, rnd.choice(places))
        self.set_ref(self.rm.get(y), name, rnd.choice(places))
        if rnd.random() < 0.4:
            self.set_formula(self.rm.get(d), explicit=False)
        first = order[0]
        if kind == "del_ref":
            self.emit({"op": "del_ref", "space": first, "name": name})
        elif kind == "remove_bases":
            self.emit({"op": "remove_bases", "space": d, "bases": [first]})
        elif kind == "del_space":
            self.emit({"op": "del_space", "path": first})
        elif kind == "change_ref":
            self.set_ref(self.rm.get(first), name, rnd.choice(places))
        elif kind == "override":
            self.set_ref(self.rm.get(d), name, rnd.choice(places))
            self.emit({"op": "del_ref", "space": d, "name": name})
        elif kind == "add_bases":
            z = self.new_space("", "DZ")
            self.set_ref(self.rm.get(z), rnd.choice(REFN), rnd.choice(places))
            self.emit({"op": "add_bases", "space": d, "bases": [z]})
            self.emit({"op": "remove_bases", "space": d, "bases": [first]})
        elif kind == "swap":
            self.emit({"op": "remove_bases", "space": d, "bases": [first]})
            self.emit({"op": "add_bases", "space": d, "bases": [first]})
        elif kind == "reload":
            self.emit({"op": "reload", "fmt": rnd.choice(("dir", "zip"))})
            self.emit({"op": "del_ref", "space": first, "name": name})

    def random_op(self):
        rnd = self.rnd
        k = rnd.choice(["set_ref"] * 5 + ["del_ref"] * 3 + ["add_bases"] * 3 + ["remove_bases"] * 3 +
                       ["rename_space"] * 2 + ["rename_cells", "del_space", "new_space", "new_space",
                                               "del_cells", "new_cells", "set_formula", "set_formula",
                                               "del_formula", "reload", "override"])
        sp = self.spaces()
        if not sp:
            return
        if k == "set_ref":
            # prefer changing an existing reference (same name, new placement / mode)
            withrefs = [s for s in sp if s.refs]
            if withrefs and rnd.random() < 0.6:
                s = rnd.choice(withrefs)
                self.set_ref(s, rnd.choice(list(s.refs)))
            else:
                self.set_ref(rnd.choice(sp))
        elif k == "override":
            subs = [s for s in sp if s.bases and _has_mro(s)]
            if subs:
                s = rnd.choice(subs)
                names = [n for n, (df, _) in R.members(s)["refs"].items() if df is not s]
                if names:
                    self.set_ref(s, rnd.choice(names))
        elif k == "del_ref":
            c = [(s, n) for s in sp for n in s.refs]
            if c:
                s, n = rnd.choice(c)
                self.emit({"op": "del_ref", "space": s.path(), "name": n})
        elif k == "add_bases":
            s = rnd.choice(sp)
            c = [b for b in sp if self.ok_base(s.path(), b) and b not in s.bases]
            if c:
                self.emit({"op": "add_bases", "space": s.path(), "bases": [rnd.choice(c).path()]})
        elif k == "remove_bases":
            c = [s for s in sp if s.bases]
            if c:
                s = rnd.choice(c)
                self.emit({"op": "remove_bases", "space": s.path(), "bases": [rnd.choice(s.bases).path()]})
        elif k == "rename_space":
            s = rnd.choice(sp)
            pool = TOPS if isinstance(s.parent, R.RModel) else KIDS
            c = [n for n in pool + ["R1", "R2"] if n not in s.parent.children]
            if c:
                self.emit({"op": "rename_space", "path": s.path(), "new": rnd.choice(c)})
        elif k == "rename_cells":
            c = [(s, n) for s in sp for n in s.cells]
            if c:
                s, n = rnd.choice(c)
                self.emit({"op": "rename_cells", "space": s.path(), "name": n,
                           "new": rnd.choice(["e", "f", "g"])})
        elif k == "del_cells":
            c = [(s, n) for s in sp for n in s.cells]
            if c:
                s, n = rnd.choice(c)
                self.emit({"op": "del_cells", "space": s.path(), "name": n})
        elif k == "new_cells":
            s = rnd.choice(sp)
            self.emit(_cells(s.path(), rnd.choice(CELLN + ["e"]), str(rnd.randrange(100))))
        elif k == "del_space":
            s = rnd.choice(sp)
            self.emit({"op": "del_space", "path": s.path()})
        elif k == "new_space":
            # (re-)create: names of deleted spaces come back
            if rnd.random() < 0.5:
                parent, pool = "", TOPS
            else:
                parent, pool = rnd.choice(sp).path(), KIDS
            pr = self.rm.get(parent)
            c = [n for n in pool if n not in pr.children]
            if c:
                n = rnd.choice(c)
                bases = None
                cb = [b for b in sp if self.ok_base((parent + "." if parent else "") + n, b)]
                if cb and rnd.random() < 0.5:
                    bases = [rnd.choice(cb).path()]
                self.new_space(parent, n, bases)
        elif k == "set_formula":
            self.set_formula(rnd.choice(sp))
        elif k == "del_formula":
            c = [s for s in sp if s.formula is not None]
            if c:
                self.emit({"op": "set_space_formula", "space": rnd.choice(c).path(), "formula": None})
        elif k == "reload":
            self.emit({"op": "reload", "fmt": rnd.choice(("dir", "dir", "zip"))})


def _subs_of_safe(rm, space):
    """spaces that reach `space` through bases (graph walk; no linearisation needed)"""
    out = []
    for s in rm.walk():
        seen, st = set(), list(s.bases)
        while st:
            b = st.pop()
            if id(b) in seen:
                continue
            seen.add(id(b))
            if b is space:
                out.append(s)
                break
            st.extend(b.bases)
    return out


R.RModel.subs_of_safe = lambda self, space: _subs_of_safe(self, space)


def _has_mro(s):
    try:
        R.mro(s)
        return True
    except (TypeError, RecursionError):
        return False


DIRECTED = ("del_ref", "remove_bases", "del_space", "change_ref", "override", "add_bases", "swap", "reload")


def history_ops(seed, n_ops, directed=None):
    return HistoryGen(random.Random(seed), directed).build(n_ops)
