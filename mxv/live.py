"""World = the real modelx model + the reference model, driven by one op interpreter.

Ops are plain data (DESIGN 2.2).  `World.apply(op)` applies an op to the live
model through the public API and, only when modelx accepted it, to the
reference model.  The probe (model-level references pre__/post__ called from
every generated formula) records ENTER/EXIT events of formula bodies actually
running and can be armed to fail.
"""
import collections

from .mxutil import mx, val, canon, errclass, Inconclusive
from . import refmodel as R
from modelx.core.errors import DeletedObjectError


class Probe:
    """harness-side observer called from inside every generated formula"""

    def __init__(self):
        self.log = []            # ("E", space evalrepr, cells name, key) | ("X", ..., value is None)
        self.armed = None        # dict(at=("pre"|"post", repr, name, key), exc=class|"none", fired=False)
        self.stack = []
        self.chain_at_raise = None
        self.raised = None
        self.enabled = True

    def _nth(self, when):
        """armed by event index: {"nth": n, "when": "pre"|"post", "exc": class, "count": 0}"""
        a = self.armed
        if a and "nth" in a and a["when"] == when and not a.get("fired"):
            if a.get("count", 0) == a["nth"]:
                a["fired"] = True
                return True
            a["count"] = a.get("count", 0) + 1
        return False

    def pre(self, space, name, key):
        el = (space._evalrepr, name, tuple(key))
        self.log.append(("E",) + el)
        self.stack.append(el)
        a = self.armed
        if a and "nth" in a:
            if self._nth("pre"):
                self.raised = a["exc"]("injected at pre %s" % (el,))
                self.chain_at_raise = list(self.stack)
                self.stack.pop()
                raise self.raised
            return None
        if a and not a.get("fired") and a["at"] == ("pre",) + el and a["exc"] != "none":
            a["fired"] = True
            self.raised = a["exc"]("injected at pre %s" % (el,))
            self.chain_at_raise = list(self.stack)
            self.stack.pop()
            raise self.raised
        return None

    def post(self, space, name, key, value):
        el = (space._evalrepr, name, tuple(key))
        a = self.armed
        if a and "nth" in a:
            if self._nth("post"):
                self.raised = a["exc"]("injected at post %s" % (el,))
                self.chain_at_raise = list(self.stack)
                self._pop(el)
                raise self.raised
            a = None
        if a and not a.get("fired") and a["at"][1:] == el:
            if a["exc"] == "none":
                a["fired"] = True
                self.chain_at_raise = list(self.stack)
                self._pop(el)
                return None
            if a["at"][0] == "post":
                a["fired"] = True
                self.raised = a["exc"]("injected at post %s" % (el,))
                self.chain_at_raise = list(self.stack)
                self._pop(el)
                raise self.raised
        self.log.append(("X",) + el + (value is None,))
        self._pop(el)
        return value

    def _pop(self, el):
        # exceptions raised by callees unwind frames without calling post: drop what is above el
        while self.stack and self.stack[-1] != el:
            self.stack.pop()
        if self.stack:
            self.stack.pop()

    def reset(self):
        self.log = []
        self.stack = []
        self.chain_at_raise = None
        self.raised = None

    def entered(self):
        return [e[1:4] for e in self.log if e[0] == "E"]


class World:
    def __init__(self, name="M", probe=True, refmodel=True):
        self.m = mx.new_model(name)
        self.name = name
        self.rm = R.RModel(name) if refmodel else None
        self.probe = Probe() if probe else None
        if probe:
            self.m.pre__ = self.probe.pre
            self.m.post__ = self.probe.post
        self.ev = None           # Evaluator, rebuilt lazily after every edit
        self.inputs = {}         # reference-model inputs: (static path, cellname, key) -> value
        self.nops = 0
        self.handles = {}

    # ------------------------------------------------------------ live access
    def get_live(self, path):
        o = self.m
        if path:
            for p in path.split("."):
                o = getattr(o, p) if o is self.m else o.spaces[p]
        return o

    def live_inst(self, steps):
        o = self.m
        for st in steps:
            if st[0] == "s":
                o = getattr(o, st[1]) if o is self.m else o.spaces[st[1]]
            else:
                kw = st[2] if len(st) > 2 else {}
                o = o(*st[1], **kw)
        return o

    # ------------------------------------------------------------ reference side
    def evaluator(self):
        if self.ev is None:
            self.ev = R.Evaluator(self.rm, self.name)
            for (path, cname, key), v in self.inputs.items():
                try:
                    sp = self.rm.get(path)
                except KeyError:
                    continue
                self.ev.inputs[(("s", id(sp)), cname, key)] = v
        return self.ev

    def invalidate(self):
        self.ev = None

    def ref_value(self, steps, name, args=(), kwargs=None):
        """canonical reference value, ('ERR', class) or UNKNOWN"""
        ev = self.evaluator()
        ev.memo.clear()
        ev.steps = 0
        try:
            inst = ev.inst_from_steps(steps)
            v = ev.evaluate(inst, name, tuple(args), kwargs or {})
            cdef = ev.cell_def(inst, name)
            if v is None and cdef.cached and not ev.allow_none(inst, name):
                return ("ERR", "NoneReturnedError")
            return self._strip(R.canon_ref(v))
        except (R.RefError, RecursionError):
            return R.UNKNOWN
        except KeyError as e:
            if isinstance(e.args[0] if e.args else None, str) and False:
                return R.UNKNOWN
            return ("ERR", "KeyError")
        except Exception as e:      # noqa  the formula's own exception
            return ("ERR", type(e).__name__)

    # ------------------------------------------------------------ evaluation
    def live_value(self, steps, name, args=(), kwargs=None, spelling="call"):
        def f():
            inst = self.live_inst(steps)
            c = inst.cells[name]
            if spelling == "call":
                return c(*args, **(kwargs or {}))
            if spelling == "sub":
                return c[tuple(args)] if len(args) != 1 else c[args[0]]
            if spelling == "value":
                return c.value
            raise ValueError(spelling)
        return val(lambda: self._strip(canon(f())))

    def _strip(self, v):
        """objects are named relative to the model so that values of twin models compare equal"""
        if isinstance(v, dict):
            if "obj" in v and isinstance(v["obj"], str):
                o = v["obj"]
                pre = self.name + "."
                v = dict(v, obj="M." + o[len(pre):] if o.startswith(pre) else ("M" if o == self.name else o))
            return {k: self._strip(x) for k, x in v.items()}
        if isinstance(v, list):
            return [self._strip(x) for x in v]
        return v

    # ------------------------------------------------------------ ops
    def apply(self, op):
        """returns ('ok', result) or ('rej', exception class name)"""
        self.nops += 1
        k = op["op"]
        fn = getattr(self, "op_" + k, None)
        if fn is None:
            if k == "nop":
                return ("ok", None)
            raise ValueError("unknown op %s" % k)
        try:
            res = fn(op)
        except _Skip:
            return ("skip", None)
        except DeletedObjectError:
            return ("rej", "DeletedObjectError")
        except Exception as e:      # noqa
            return ("rej", errclass(e))
        return ("ok", res)

    def _is_edit(self, op):
        return op["op"] not in ("eval", "nop", "handle", "poke")

    # -- structure (live half; the reference half is refmodel.apply_op)
    def _ref(self, op):
        if self.rm is not None:
            R.apply_op(self.rm, op, self.inputs, probe=self.probe is not None)
            self.invalidate()

    def _mk_cell(self, op):
        return R.mk_cell(op, self.probe is not None)

    def op_new_space(self, op):
        parent = self.get_live(op.get("parent", ""))
        kw = {}
        if op.get("bases"):
            kw["bases"] = [self.get_live(b) for b in op["bases"]]
        if op.get("formula") is not None:
            kw["formula"] = R.mk_formula(None, op["formula"]).source()
        parent.new_space(op["name"], **kw)
        self._ref(op)

    def op_new_cells(self, op):
        cd = self._mk_cell(op)
        self.get_live(op["space"]).new_cells(op["name"], formula=cd.source(), is_cached=cd.cached)
        self._ref(op)

    def op_set_formula(self, op):
        cd = self._mk_cell(op)
        self.get_live(op["space"]).cells[op["name"]].formula = cd.source()
        self._ref(op)

    def op_del_cells(self, op):
        sp = self.get_live(op["space"])
        if op["name"] not in sp.cells:
            raise _Skip()
        del sp.cells[op["name"]]
        self._ref(op)

    def op_rename_cells(self, op):
        self.get_live(op["space"]).cells[op["name"]].rename(op["new"])
        self._ref(op)

    def op_set_cached(self, op):
        self.get_live(op["space"]).cells[op["name"]].is_cached = op["cached"]
        self._ref(op)

    def op_set_allow_none(self, op):
        if "name" in op:
            self.get_live(op["space"]).cells[op["name"]].allow_none = op["value"]
        else:
            self.get_live(op["space"]).allow_none = op["value"]
        self._ref(op)

    def op_set_ref(self, op):
        owner = self.get_live(op["space"])
        lv = self.live_refvalue(op["value"])
        if op["space"] == "" or op.get("via") == "setattr":
            setattr(owner, op["name"], lv)
        else:
            owner.set_ref(op["name"], lv, refmode=op.get("mode", "auto"))
        self._ref(op)

    def live_refvalue(self, v):
        if "lit" in v:
            x = v["lit"]
            return tuple(x) if isinstance(x, list) else x
        if "space" in v:
            return self.get_live(v["space"])
        sp, name = v["cell"].rsplit(".", 1)
        return self.get_live(sp).cells[name]

    def op_del_ref(self, op):
        delattr(self.get_live(op["space"]), op["name"])
        self._ref(op)

    def op_del_space(self, op):
        parent_path, _, name = op["path"].rpartition(".")
        delattr(self.get_live(parent_path), name)
        self._ref(op)

    def op_rename_space(self, op):
        self.get_live(op["path"]).rename(op["new"])
        self._ref(op)

    def op_add_bases(self, op):
        self.get_live(op["space"]).add_bases(*[self.get_live(b) for b in op["bases"]])
        self._ref(op)

    def op_remove_bases(self, op):
        self.get_live(op["space"]).remove_bases(*[self.get_live(b) for b in op["bases"]])
        self._ref(op)

    def op_set_space_formula(self, op):
        sp = self.get_live(op["space"])
        if op.get("formula") is None:
            del sp.formula
        else:
            sp.formula = R.mk_formula(None, op["formula"]).source()
        self._ref(op)

    def op_set_doc(self, op):
        if "name" in op:
            self.get_live(op["space"]).cells[op["name"]].doc = op["doc"]
        else:
            self.get_live(op["space"]).doc = op["doc"]

    # -- values
    def _cell(self, op):
        return self.live_inst(op["inst"]).cells[op["name"]]

    def op_assign(self, op):
        c = self._cell(op)
        args = tuple(op["args"])
        c[args if len(args) != 1 else args[0]] = op["value"]
        self._ref(op)

    def op_clear_at(self, op):
        self._cell(op).clear_at(*op["args"])
        self._ref(op)

    def op_clear(self, op):
        self._cell(op).clear()

    def op_clear_all(self, op):
        if "name" in op:
            self._cell(op).clear_all()
        else:
            self.m.clear_all()
        self._ref(op)

    def op_eval(self, op):
        return self.live_value(op["inst"], op["name"], op.get("args", ()), op.get("kwargs"),
                               op.get("spelling", "call"))


class _Skip(Exception):
    pass
