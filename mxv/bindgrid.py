"""Argument binding grid, shared by C01 (cells) and C07 (parametrised spaces).

A signature of 1-4 parameters with defaults on a suffix; every way of writing one call: a positional prefix, the
rest by keyword (in two orders) or omitted where a default exists.  The expectation for a spelling is what plain
Python binds for a function with the same signature."""
import itertools

PNAMES = ["a", "b", "c", "d"]


def signatures():
    """[(params)] params = [[name, default-or-None], ...]; defaults are distinct and differ from the arguments used"""
    out = []
    for n in range(1, 5):
        for ndef in range(0, n + 1):
            ps = []
            for i in range(n):
                ps.append([PNAMES[i], (50 + i) if i >= n - ndef else None])
            out.append(ps)
    return out


def sig_text(params):
    return ", ".join(p if d is None else "%s=%d" % (p, d) for p, d in params)


def spellings(params, values):
    """values: {name: value} for the parameters that are given (the others must have defaults).
    -> [(args list, kwargs as a list of pairs in call order)]"""
    names = [p for p, _ in params]
    given = [n for n in names if n in values]
    out = []
    # positional prefix must be gap-free: the first k parameters, all given
    maxpre = 0
    while maxpre < len(names) and names[maxpre] in values:
        maxpre += 1
    for k in range(0, maxpre + 1):
        pos = [values[n] for n in names[:k]]
        rest = [n for n in given if n not in names[:k]]
        orders = [rest, list(reversed(rest))] if len(rest) > 1 else [rest]
        for o in orders:
            out.append((pos, [[n, values[n]] for n in o]))
    return out


def choices(params):
    """every set of given parameters: all the required ones, any subset of the defaulted ones"""
    req = [p for p, d in params if d is None]
    opt = [p for p, d in params if d is not None]
    for r in range(len(opt) + 1):
        for sub in itertools.combinations(opt, r):
            yield req + list(sub)


def plain(params, body_expr):
    """the plain function `def f(<sig>): return <body_expr>`"""
    ns = {}
    exec("def f(%s):\n    return %s\n" % (sig_text(params), body_expr), ns)
    return ns["f"]


def bound_tuple(params, args, kwargs):
    f = plain(params, "(%s)" % "".join(p + ", " for p, _ in params))
    return f(*args, **dict(kwargs))
