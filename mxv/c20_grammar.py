"""C20: grammar of function-text layouts (plain data -> text), enumeration of the
single-feature and pair-of-features layouts, random deeper combinations.

A *layout* is a dict {dimension: choice}.  Two families:

  kind "def"     def texts            (dimensions DEF_DIMS)
  kind "lam"     lambda expressions   (dimensions LAM_DIMS), embedded in a statement

`render_def` / `render_lam` return None for combinations that are not a function text
(infeasible), otherwise a dict with the text at column 0, the lines that must stay at
column 0 when the text is indented (`raw`), and how to fetch the function object when
the text is part of a module.

Nothing here imports modelx.
"""
import re

DEF_NAME = "foo"

# --------------------------------------------------------------------------- def layouts

# sig: (text, n positional params callable, kind of y)   C = continuation indent placeholder
SIGS = {
    "x": ("x", "x"),
    "none": ("", ""),
    "xy": ("x, y=2", "num"),
    "annot": ("x: int, y: 'str' = 2", "num"),
    "multiline": ("x,\n        y=2", "num"),
    "black": ("\n    x,\n    y=2,\n", "num"),
    "trailcomma": ("x, y=2,", "num"),
    "strdefault": ("x, y=\"def g(z): # :\"", "str"),
    "lamdefault": ("x, g=lambda z: z + 1", "lam"),
    "spaced": ("x ,y = 2", "num"),
}

RETS = {"none": "", "int": " -> int", "str": " -> 'lambda: T'"}

# docstring literals; {I} = indentation of the body
DOCS = {
    "none": None,
    "triple": '"""doc"""',
    "single": "'doc'",
    "multi": '"""multi\n{I}line\n{I}"""',
    "endquote": '"""ends with quote\\""""',
    "backslash": '"""back\\\\slash \\n"""',
    "raw": 'r"""raw \\d"""',
    "tsingle": "'''it's \"q\" '''",
    "bothtriples": '"""has \'\'\' and \\"\\"\\" inside"""',
    "empty": '""""""',
    "codeish": '"""def foo(x): return @deco lambda: # not a comment"""',
    "concat": '"a" "b"',
    "paren": '("paren doc")',
    "deeper": '"""first line\n\n{I}    indented more\n{I}"""',
    "unicode": '"""dök ü → é"""',
    "fstr_first": 'f"not a doc {1}"',
    "bytes_first": 'b"not a doc"',
}
DOC_SINGLE_LINE = {k for k, v in DOCS.items() if v is not None and "\n" not in v}

# bodies: lines relative to the body indentation, {U} = one more level; NAME = the def's own name
BODIES = {
    "expr": (["return x + K"], "return x + K"),
    "multi": (["a = x + 1; b = 2", "return (a +", "{U}{U}b + K)"], "a = x + 1; b = 2; return a + b + K"),
    "bslash": (["total = x + \\", "{U}K", "return total"], None),
    "nested": (["def inner(z):", "{U}return z * 2", "return inner(x) + K"], None),
    "samename": (["def NAME(z):", "{U}return z * 3", "return NAME(x) + K"], None),
    "nested_doc": (["def inner(z):", '{U}"""inner doc"""', "{U}return z * 2", "return inner(x) + K"], None),
    "nested_deco": (["def twice(f):", "{U}return lambda q: 2 * f(q)", "@twice", "def inner(z):",
                     "{U}return z + K", "return inner(x)"], None),
    "nested_deco_first": (["@(lambda f: (lambda q: f(q) * 3))", "def inner(z):", "{U}return z + K",
                           "return inner(x)"], None),
    "lambda_in": (["f = lambda z: z + K", "return f(x)"], "f = lambda z: z + K; return f(x)"),
    "comp": (["return sum([i + K for i in range(x)]) + len({i: i for i in range(2)})"],
             "return sum([i + K for i in range(x)]) + len({i: i for i in range(2)})"),
    "genexp": (["return sum(i * K for i in range(x + 1))"], "return sum(i * K for i in range(x + 1))"),
    "cls": (["class C:", '{U}"""class doc"""', "{U}v = 5", "{U}def m(self, z):", "{U}{U}return z + self.v",
             "return C().m(x) + K"], None),
    "shadow": (["max = 3", "return max + x + K"], "max = 3; return max + x + K"),
    "ifelse": (["if x > 1:", "{U}return K", "else:", "{U}return -K"], None),
    "tryexc": (["try:", "{U}return K // x", "except ZeroDivisionError:", "{U}return -1"], None),
    "raises": (["return K // x"], "return K // x"),
    "sib": (["return sib(x) + Ch.r + K"], "return sib(x) + Ch.r + K"),
    "strdef": (["s = 'def NAME(x): return lambda: 0  # no'", "return len(s) + x + K"],
               "s = 'def NAME(x): return lambda: 0  # no'; return len(s) + x + K"),
    "mlstr": (['s = """first', "{U}{U}second", '{U}{U}"""', "return len(s) + x + K"], None),
    "mlstr_col0": (['s = """first', "\0second", '\0"""', "return len(s) + x + K"], None),
    "mlfstr": (['s = f"""first {x}', "{U}{U}second", '{U}{U}"""', "return len(s) + x + K"], None),
    "fstr": (["return len(f\"{x!r:>4} {'q'} {{}}\") + K"], "return len(f\"{x!r:>4} {'q'} {{}}\") + K"),
    "walrus": (["if (n := x + 1) > 1:", "{U}return n + K", "return K"], None),
    "while": (["i = 0", "while i < x:", "{U}i += 1", "return i + K"], None),
    "blank": (["a = x", "", "   ", "return a + K"], None),
    "lam_samename": (["NAME = lambda z: z * 3", "return NAME(x) + K"], "NAME = lambda z: z * 3; return NAME(x) + K"),
    "deep": (["def a1(z):", "{U}def a2(w):", "{U}{U}return w + K", "{U}return a2(z) * 2", "return a1(x)"], None),
    "passfirst": (["pass", "return x + K"], "pass; return x + K"),
    "star": (["a, *b = [x, K, 1]", "return a + sum(b)"], "a, *b = [x, K, 1]; return a + sum(b)"),
    "semi_tail": (["return x + K;"], "return x + K;"),
    "paren_ret": (["return (", "{U}x + K", ")"], None),
    "dictml": (["d = {", "{U}'a': x,", "{U}'b': K,", "}", "return d['a'] + d['b']"], None),
    "unicode": (["s = 'é→ü'  # ü", "return len(s) + x + K"], "s = 'é→ü'; return len(s) + x + K"),
    # characters that str.splitlines (but not Python's tokenizer) treats as line ends, inside a string literal
    "lineseps": (["s = 'a\x0cb\u2028c\x85d'", "return len(s) + x + K"], "s = 'a\x0cb\u2028c\x85d'; return len(s) + x + K"),
}

COMMENTS = ["none", "leading", "between", "ondef", "afterdoc", "tail_last", "after_last", "after_col0",
            "col0_inside", "insig", "leading_unicode"]
DECOS = {
    "none": [],
    "bare": ["@deco"],
    "call": ["@deco2(1, 'a')"],
    "multicall": ["@deco2(1,", "       'a')"],
    "two": ["@deco", "@deco2(2)"],
    "lam": ["@deco2(lambda q: q)"],
    "blankafter": ["@deco", ""],
    "attr": ["@ns.deco"],
    "closeparen": ["@deco2(", "    1,", ")"],
}
LINES = ["multi", "one"]
UNITS = {"s4": "    ", "s2": "  ", "tab": "\t", "s8": "        "}
TAILS = {"nl": "\n", "nonl": "", "blank": "\n\n\n", "ws": "\n    \n"}
HEADS = {"none": "", "blank": "\n\n"}
SPACING = ["normal", "wide"]

DEF_DIMS = {
    "sig": list(SIGS), "ret": list(RETS), "doc": list(DOCS), "body": list(BODIES), "comment": COMMENTS,
    "deco": list(DECOS), "line": LINES, "unit": list(UNITS), "tail": list(TAILS), "head": list(HEADS),
    "spacing": SPACING,
}
DEF_DEFAULT = {d: v[0] for d, v in DEF_DIMS.items()}


def _sub_name(s, name):
    return s.replace("NAME", name)


def render_def(L, name=DEF_NAME, extra_deco=None):
    """-> {"text", "raw": set of 0-based line numbers to keep at column 0, "nparams", "defline"} or None"""
    L = dict(DEF_DEFAULT, **L)
    U = UNITS[L["unit"]]
    sig, ykind = SIGS[L["sig"]]
    doc = DOCS[L["doc"]]
    blines, bone = BODIES[L["body"]]
    comment = L["comment"]
    deco = DECOS[L["deco"]]
    one = L["line"] == "one"
    if comment == "between" and not deco:
        return None
    if one:
        if bone is None or "\n" in sig:
            return None
        if doc is not None and L["doc"] not in DOC_SINGLE_LINE:
            return None
        if comment in ("afterdoc", "col0_inside", "tail_last"):
            return None
    if comment == "afterdoc" and doc is None:
        return None
    if comment == "insig" and "\n" in sig:
        return None

    def fix(s):
        s = _sub_name(s, name)
        if ykind == "num":
            s = re.sub(r"\bK\b", "(K + y)", s)
        elif ykind == "lam":
            s = re.sub(r"\bK\b", "g(K)", s)
        if sig == "":
            s = re.sub(r"\bx\b", "2", s)
        return s

    out = []
    raw = set()
    if comment == "leading":
        out.append("# leading comment")
    elif comment == "leading_unicode":
        out.append("# über → comment")
    if extra_deco:
        out.extend(extra_deco)
    dl = list(deco)
    if comment == "between":
        dl = dl[:1] + ["# between"] + dl[1:] if len(dl) > 1 and dl[1].startswith("@") else dl + ["# between"]
    out.extend(dl)
    sigtxt = sig
    if comment == "insig":
        if ", " in sig:
            a, b = sig.split(", ", 1)
            sigtxt = a + ",  # in sig\n        " + b
        else:
            sigtxt = sig + "  # in sig\n        "
    if L["spacing"] == "wide":
        header = "def  %s ( %s )%s :" % (name, sigtxt, RETS[L["ret"]])
    else:
        header = "def %s(%s)%s:" % (name, sigtxt, RETS[L["ret"]])
    hlines = header.split("\n")
    defline = len(out)
    if one:
        stmts = ([doc] if doc is not None else []) + [fix(bone)]
        hlines[-1] += " " + "; ".join(stmts)
        if comment == "ondef":
            hlines[-1] += "  # on def"
        out.extend(hlines)
    else:
        if comment == "ondef":
            hlines[-1] += "  # on def"
        out.extend(hlines)
        if doc is not None:
            out.extend((U + doc.replace("{I}", U)).split("\n"))
        if comment == "afterdoc":
            out.append(U + "# after doc")
        body = []
        for ln in blines:
            ln = fix(ln)
            if ln.startswith("\0"):
                raw.add(len(out) + len(body))
                body.append(ln[1:])
            elif ln.strip() == "":
                body.append(ln)
            else:
                body.append(U + ln.replace("{U}", U))
        if comment == "col0_inside":
            # before the last physical line of the body (never inside a string / after a backslash)
            at = len(body) - 1
            raw.add(len(out) + at)
            body.insert(at, "# col0 comment")
        if comment == "tail_last":
            body[-1] += "  # tail"
        out.extend(body)
    if comment == "after_last":
        out.append(U + "# after last statement")
    if comment == "after_col0":
        raw.add(len(out))
        out.append("# after, at column 0")
    text = HEADS[L["head"]] + "\n".join(out) + TAILS[L["tail"]]
    shift = HEADS[L["head"]].count("\n")
    raw = {r + shift for r in raw}
    np_ = 0 if sig == "" else (1 if "," not in sig.strip().rstrip(",") else 2)
    return {"text": text, "raw": sorted(raw), "nparams": np_, "ykind": ykind if np_ == 2 else None,
            "name": name}


# --------------------------------------------------------------------------- lambda layouts

LSIGS = {"x": "x", "none": "", "xy": "x, y=2", "spaced": "x ,y = 2"}
LBODIES = {
    "plain": "x + K",
    "paren_ml": "(x +\n        K)",
    "cond": "K if x else -K",
    "nested_same_line": "(lambda z: z * 2)(x) + K",
    "nested_tail": "x + (lambda z: z + K)(1)",
    "nested_next_line": "(x +\n        (lambda z: z * 2)(K))",
    "comp": "sum([i for i in range(x)]) + K",
    "strlam": "len('lambda q: ') + x + K",
    "call_end": "max(x, K)",
    "sub_end": "[x, K][1]",
    "sib": "sib(x) + Ch.r + K",
    "dict": "{'a': x + K}['a']",
    "tuple_val": "(x, K)[1]",
    "raises": "K // x",
}
# embed: (statement template, accessor or None when no object can be fetched, text_ok)
EMBEDS = {
    "assign": ("foo = LAM", "foo", True),
    "bare": ("LAM", None, True),
    "call": ("foo = ident(LAM)", "foo", True),
    "call_more": ("foo = ident2(LAM, 3)", "foo", True),
    "kwarg": ("foo = ident(f=LAM)", "foo", True),
    "tuple": ("tup = (1, LAM, 2)", "tup[1]", True),
    "dict": ("dd = {'k': LAM}", "dd['k']", True),
    "default": ("def h(g=LAM): pass", "h.__defaults__[0]", False),
    "ret": ("def mk():\n    return LAM", "mk()", False),
    "comment": ("foo = LAM  # trailing: lambda", "foo", True),
    "paren_ml": ("foo = (\n    LAM\n)", "foo", True),
    "semi": ("foo = LAM; other = 3", "foo", True),
    "listcomp": ("fs = [LAM for _ in range(1)]", "fs[0]", True),
    "subscr": ("dd2['k'] = LAM", "dd2['k']", True),
    "condexpr": ("foo = (LAM) if K else None", "foo", True),
    "attrcall": ("foo = ns.keep(LAM)", "foo", True),
    "leadcomment": ("# a comment: lambda q: 0\nfoo = LAM", "foo", True),
    "call_ml": ("foo = ident2(\n    LAM,\n    3)", "foo", True),
    # the subject is the SECOND lambda starting on its line: a function object from such a line cannot be told from
    # its neighbour by its source position (creation may be refused, it must not silently take the neighbour)
    "tuple_second": ("tup = (lambda q_: q_ - 1000, LAM)", "tup[1]", False),
    "dict_second": ("dd = {'a': lambda q_: q_ - 1000, 'k': LAM}", "dd['k']", False),
}
LAM_DIMS = {"lsig": list(LSIGS), "lbody": list(LBODIES), "embed": list(EMBEDS), "tail": list(TAILS)}
LAM_DEFAULT = {d: v[0] for d, v in LAM_DIMS.items()}


def render_lam(L):
    L = dict(LAM_DEFAULT, **L)
    sig = LSIGS[L["lsig"]]
    body = LBODIES[L["lbody"]]
    tmpl, acc, text_ok = EMBEDS[L["embed"]]
    ykind = "num" if "y" in sig else None
    if ykind:
        body = re.sub(r"\bK\b", "(K + y)", body)
    if sig == "":
        body = re.sub(r"\bx\b", "2", body)
    lam = "lambda%s: %s" % ((" " + sig) if sig else "", body)
    stmt = tmpl.replace("LAM", lam)
    text = stmt + TAILS[L["tail"]]
    np_ = 0 if sig == "" else (2 if ykind else 1)
    # number of lambdas starting on the same physical line as the subject lambda
    second = L["embed"] in ("tuple_second", "dict_second")
    same_line = L["lbody"] in ("nested_same_line", "nested_tail") and not second
    return {"text": text, "lam": lam, "accessor": acc, "text_ok": text_ok, "nparams": np_,
            "ykind": ykind, "same_line_lambdas": same_line, "second_on_line": second, "raw": []}


# --------------------------------------------------------------------------- enumeration

def singles_and_pairs(dims, default):
    """layouts deviating from the default in 0, 1 or 2 dimensions (only the deviating keys are stored)"""
    out = [{}]
    names = list(dims)
    for i, d in enumerate(names):
        for v in dims[d][1:]:
            out.append({d: v})
    for i, d in enumerate(names):
        for e in names[i + 1:]:
            for v in dims[d][1:]:
                for w in dims[e][1:]:
                    out.append({d: v, e: w})
    return out


def random_layout(rnd, dims, kmin=2, kmax=6):
    names = list(dims)
    k = rnd.randint(kmin, min(kmax, len(names)))
    L = {}
    for d in rnd.sample(names, k):
        L[d] = rnd.choice(dims[d][1:]) if len(dims[d]) > 1 else dims[d][0]
    return L


def features(L):
    return ["%s=%s" % kv for kv in sorted(L.items())]


def indent_text(text, prefix, raw=()):
    """prefix every non-blank line except the `raw` ones (0-based line numbers)"""
    lines = text.split("\n")
    raw = set(raw)
    out = []
    for i, ln in enumerate(lines):
        if i in raw or ln.strip() == "":
            out.append(ln)
        else:
            out.append(prefix + ln)
    return "\n".join(out)
