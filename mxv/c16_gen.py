"""Dependency-DAG model generators for C16 (memory-optimised runs).

Every generator returns a list of World ops (mxv/live.py) plus the argument domain of the
first parameter.  All structure (spaces, object references, cells) is created first and
inputs are assigned last, so that no later namespace change discards them.

Spaces: M.A, M.B, M.A.Ch.  Cross-space calls go through absolute object references
(A.B_ -> B, B.A_ -> A, Ch.P_ -> A, Ch.B_ -> B) and through attribute paths (A: `Ch.c(x)`,
B: `A_.Ch.c(x)`).  Formulas terminate by construction: a cells calls only cells created
before it, or itself with x - 1 under `x > 0`.

Families
  random   2-8 cells, up to 3 callees each (fan-in <= 3), optional self recursion; the
           prototype's family with zero-parameter, two-parameter, lambda and uncached cells
  chain    a backbone k(x) = f(k(x - 1)) of length 3-8 whose links additionally read
           constants / side cells at chosen positions only, and a top cells that reads the
           end of the chain *and* things used at its start: elements whose consumers lie far
           apart in every topological order
  layered  2-6 layers of width 1-3; a cells reads 1-3 cells of earlier layers, mostly the
           previous one, sometimes one two or more layers back (skip edges)
  stock    the model of the repository's own test (Cells1/Cells2/Cells3) with a random depth
"""

HOMES = ["A", "B", "A.Ch"]
PREFIX = {
    ("A", "A"): "", ("B", "B"): "", ("A.Ch", "A.Ch"): "",
    ("A", "B"): "B_.", ("A", "A.Ch"): "Ch.",
    ("B", "A"): "A_.", ("B", "A.Ch"): "A_.Ch.",
    ("A.Ch", "A"): "P_.", ("A.Ch", "B"): "B_.",
}
FAMILIES = ["random", "chain", "layered", "stock"]


def steps_of(path):
    return [["s", p] for p in path.split(".")]


class DagGen:
    def __init__(self, rnd, family, uncached=0.0, lambdas=0.15, inputs=0.5, item=False):
        self.rnd = rnd
        self.family = family
        self.item = item         # B is parametrised: B(p); calls into B create / use the ItemSpaces B(1), B(2)
        self.p_uncached = uncached
        self.p_lambda = lambdas
        self.p_inputs = inputs
        self.ops = []
        self.cells = []          # (home, name, nparams [0|1|2], cached)
        self.domain = [0, 1, 2]

    # ------------------------------------------------------------ skeleton
    def skeleton(self):
        e = self.ops.append
        e({"op": "new_space", "name": "A"})
        e({"op": "new_space", "name": "B", "formula": {"params": [["p", None]]} if self.item else None})
        e({"op": "new_space", "parent": "A", "name": "Ch"})
        for sp, name, tgt in (("A", "B_", "B"), ("B", "A_", "A"), ("A.Ch", "P_", "A"), ("A.Ch", "B_", "B")):
            e({"op": "set_ref", "space": sp, "name": name, "value": {"space": tgt}, "mode": "absolute"})

    def home(self):
        return self.rnd.choice(["A", "A", "B", "B", "A.Ch"])

    def add_cell(self, home, name, nparams, body, cached=True, lam=None):
        params = [["x", None], ["y", 1]][:nparams]
        if self.item and home == "B" and self.rnd.random() < 0.6:
            body = body + " + p"
        if lam is None:
            lam = self.rnd.random() < self.p_lambda
        self.ops.append({"op": "new_cells", "space": home, "name": name, "params": params, "body": body,
                         "lam": lam, "cached": cached})
        self.cells.append((home, name, nparams, cached))

    def call(self, home, callee, arg):
        chome, cname, cn, _ = callee
        p = PREFIX[(home, chome)]
        if self.item and chome == "B" and home != "B":
            p = "%s(%d)." % (p[:-1], self.rnd.choice([1, 1, 2]))
        if cn == 0:
            return "%s%s()" % (p, cname)
        if cn == 1:
            return self.rnd.choice(["%s%s(%s)", "%s%s(%s)", "%s%s(x=%s)"]) % (p, cname, arg)
        return self.rnd.choice(["%s%s(%s)", "%s%s(%s, 2)", "%s%s(%s, y=1)", "%s%s(y=2, x=%s)"]) % (p, cname, arg)

    def arg(self, nparams):
        if nparams == 0:
            return self.rnd.choice(["0", "1"])
        return self.rnd.choice(["x", "x", "0", "1", "(x - 1 if x > 0 else 0)"])

    def cached(self):
        return self.rnd.random() >= self.p_uncached

    # ------------------------------------------------------------ families
    def build(self):
        self.skeleton()
        getattr(self, "fam_" + self.family)()
        self.add_inputs()
        return self

    def fam_random(self):
        rnd = self.rnd
        n = rnd.randint(2, 8)
        for i in range(n):
            name = "c%d" % i
            home = self.home()
            r = rnd.random()
            nparams = 0 if r < 0.15 else (2 if r < 0.3 else 1)
            terms = []
            for j in rnd.sample(range(i), min(i, rnd.randint(0, 3))):
                terms.append(self.call(home, self.cells[j], self.arg(nparams)))
            if nparams and rnd.random() < 0.4:
                terms.append("(%s(x - 1) if x > 0 else 0)" % name if nparams == 1 else
                             "(%s(x - 1, y) if x > 0 else 0)" % name)
            if nparams:
                terms.append("x")
            if nparams == 2:
                terms.append("y")
            terms.append(str(i))
            self.add_cell(home, name, nparams, " + ".join(terms), self.cached())

    def fam_chain(self):
        rnd = self.rnd
        L = rnd.randint(3, 8)
        self.domain = list(range(L + 1))
        consts = []
        for i in range(rnd.randint(1, 3)):
            home = self.home()
            if rnd.random() < 0.6:
                self.add_cell(home, "b%d" % i, 0, str(3 + i), True)
            else:
                self.add_cell(home, "b%d" % i, 1, "x + %d" % (3 + i), self.cached())
            consts.append(self.cells[-1])
        khome = self.home()
        # what a link of the chain reads besides its predecessor, at which positions
        extra = []
        for c in consts:
            for p in sorted(rnd.sample(range(1, L + 1), rnd.randint(1, 2))):
                extra.append("(%s if x == %d else 0)" % (self.call(khome, c, "0"), p))
        start = self.call(khome, consts[0], "0")
        body = "(k(x - 1) * 2 + %s if x > 0 else %s + 1)" % (" + ".join(extra) if extra else "1", start)
        self.add_cell(khome, "k", 1, body, True)
        k = self.cells[-1]
        # side cells: read the chain far behind their own position
        sides = []
        for i in range(rnd.randint(0, 2)):
            home = self.home()
            back = rnd.randint(2, L)
            terms = [self.call(home, k, "(x - %d if x > %d else 0)" % (back, back))]
            if rnd.random() < 0.5:
                terms.append(self.call(home, rnd.choice(consts), "0"))
            terms.append("x")
            self.add_cell(home, "s%d" % i, 1, " + ".join(terms), self.cached())
            sides.append(self.cells[-1])
        home = self.home()
        terms = [self.call(home, k, "x")]
        for c in rnd.sample(consts, rnd.randint(1, len(consts))):
            terms.append(self.call(home, c, "0"))
        for s in sides:
            if rnd.random() < 0.7:
                terms.append(self.call(home, s, "x"))
        if rnd.random() < 0.4:
            terms.append(self.call(home, k, "(x - 2 if x > 2 else 0)"))
        rnd.shuffle(terms)
        self.add_cell(home, "top", 1, " + ".join(terms), True)

    def fam_layered(self):
        rnd = self.rnd
        self.domain = [0, 1]
        nl = rnd.randint(2, 6)
        layers = []
        cnt = 0
        for li in range(nl):
            layer = []
            for _ in range(rnd.randint(1, 3)):
                name = "c%d" % cnt
                cnt += 1
                home = self.home()
                nparams = 0 if rnd.random() < 0.2 else 1
                terms = []
                if li:
                    for _j in range(rnd.randint(1, 3)):
                        src = layers[li - 1] if (li == 1 or rnd.random() < 0.7) else rnd.choice(layers[:li - 1])
                        callee = rnd.choice(src)
                        a = rnd.choice(["x", "x", "0"]) if nparams else "0"
                        t = self.call(home, callee, a)
                        if t not in terms:
                            terms.append(t)
                terms.append("x + %d" % cnt if nparams else str(cnt))
                self.add_cell(home, name, nparams, " + ".join(terms), self.cached() if li else True)
                layer.append(self.cells[-1])
            layers.append(layer)

    def fam_stock(self):
        rnd = self.rnd
        self.domain = list(range(rnd.randint(2, 6) + 1))
        home = rnd.choice(["A", "B"])
        self.add_cell(home, "Cells1", 0, "1", True, lam=False)
        self.add_cell(home, "Cells2", 1, "(Cells2(x - 1) if x > 0 else Cells1())", True, lam=False)
        self.add_cell(home, "Cells3", 1, "Cells1() + Cells2(x)", True, lam=False)

    # ------------------------------------------------------------ inputs
    def add_inputs(self):
        rnd = self.rnd
        if rnd.random() >= self.p_inputs:
            return
        cands = [c for c in self.cells if c[3]]
        if self.item:
            cands = [c for c in cands if c[0] != "B"]       # inputs live in static spaces only
        for home, name, nparams, _ in rnd.sample(cands, min(len(cands), rnd.randint(1, 2))):
            args = [] if nparams == 0 else [rnd.choice(self.domain)]
            if nparams == 2 and rnd.random() < 0.5:
                args.append(rnd.choice([1, 2]))
            self.ops.append({"op": "assign", "inst": steps_of(home), "name": name, "args": args,
                             "value": 1000 + rnd.randint(0, 9)})
