"""Source-free fault injection for C14 (save / load failure points).

* one `sys.addaudithook` hook, installed once per process, inert unless armed; when armed
  it numbers the audited file operations that touch the per-case sandbox (or are
  issued relative to a directory descriptor, as shutil.rmtree does) and raises
  `OSError` at the k-th one (one-shot) or from the k-th one on (persistent);
* `Poison`: a value whose pickling / unpickling raises on demand;
* `faulty_open`: wraps `io.open` / `builtins.open` so that the j-th `write()` on a file
  inside the sandbox fails half-way (a failure in the middle of a write to an open file);
* file-tree hashes.

Nothing here imports modelx.
"""
import builtins
import contextlib
import errno as _errno
import hashlib
import io
import os
import sys

EVENTS = {
    "open", "os.mkdir", "os.rename", "os.remove", "os.rmdir", "os.scandir", "os.listdir", "os.walk",
    "os.chmod", "os.utime", "os.link", "os.symlink", "os.truncate",
    "shutil.move", "shutil.rmtree", "shutil.copyfile", "shutil.copymode", "shutil.copystat", "shutil.copytree",
    "tempfile.mkdtemp", "tempfile.mkstemp", "pickle.find_class",
}

ERRNOS = {"ENOSPC": _errno.ENOSPC, "EIO": _errno.EIO, "EACCES": _errno.EACCES, "ENOENT": _errno.ENOENT}


class State:
    def __init__(self):
        self.on = False
        self.root = None          # realpath prefix of the sandbox (with trailing separator)
        self.k = None             # failure point (1-based index among counted events) or None = count only
        self.persistent = True
        self.errno = _errno.ENOSPC
        self.n = 0
        self.log = []             # (event, shortened first path, second path or None)
        self.fired = 0
        self.tripped = False      # a write fault happened: every later counted operation fails too
        self.xdev = False         # make the rename that moves a finished file out of the temp dir fail with EXDEV
        self.xdev_hits = 0
        # write faults
        self.wk = None
        self.wpersistent = True
        self.wn = 0
        self.wlog = []


ST = State()


class InjectedOSError(OSError):
    pass


def _short(p):
    if p is None:
        return None
    s = str(p)
    if ST.root and s.startswith(ST.root):
        return s[len(ST.root):]
    return s[-60:]


def _hook(ev, args):
    st = ST
    if not st.on or ev not in EVENTS:
        return
    second = None
    if ev == "pickle.find_class":
        first = "%s.%s" % (args[0], args[1])
    else:
        a = args[0] if args else None
        if a is None or isinstance(a, int):
            if ev == "os.scandir" and isinstance(a, int):
                first = "<fd>"          # rmtree walking by descriptor
            else:
                return
        else:
            try:
                p = os.fspath(a)
            except TypeError:
                return
            if isinstance(p, bytes):
                p = p.decode("utf-8", "replace")
            if os.path.isabs(p):
                if not (p + os.sep).startswith(st.root):
                    return
            # relative names: operations issued against a directory descriptor (rmtree)
            first = p
            if ev in ("os.rename", "shutil.move", "shutil.copyfile", "os.link") and len(args) > 1:
                try:
                    second = os.fspath(args[1])
                except TypeError:
                    second = None
    if st.xdev and ev == "os.rename" and second is not None:
        tmp = st.root + "tmp" + os.sep
        if str(first).startswith(tmp) and not str(second).startswith(tmp):
            st.xdev_hits += 1
            raise OSError(_errno.EXDEV, "injected: cross-device link")
    st.n += 1
    st.log.append((ev, _short(first), _short(second)))
    if st.tripped or (st.k is not None and (st.n == st.k or (st.persistent and st.n > st.k))):
        st.fired += 1
        raise InjectedOSError(st.errno, "injected at #%d %s" % (st.n, ev))


_installed = False


def install():
    global _installed
    if not _installed:
        sys.addaudithook(_hook)
        _installed = True


class _FaultyFile:
    """delegating file object whose write() can fail half-way"""

    def __init__(self, f, name):
        object.__setattr__(self, "_f", f)
        object.__setattr__(self, "_n", name)

    def write(self, data):
        st = ST
        if st.on:
            st.wn += 1
            st.wlog.append((self._n, len(data)))
            if st.tripped or (st.wk is not None and (st.wn == st.wk or (st.wpersistent and st.wn > st.wk))):
                if st.wpersistent:
                    st.tripped = True        # disk full: every later operation fails too
                st.fired += 1
                if len(data) > 1:
                    try:
                        self._f.write(data[:len(data) // 2])
                    except Exception:    # noqa
                        pass
                raise InjectedOSError(st.errno, "injected in write #%d to %s" % (st.wn, self._n))
        return self._f.write(data)

    def fileno(self):
        # keeps shutil.copyfile from bypassing write() through sendfile/copy_file_range
        raise io.UnsupportedOperation("fileno")

    def __getattr__(self, n):
        return getattr(self._f, n)

    def __setattr__(self, n, v):
        setattr(self._f, n, v)

    def __enter__(self):
        self._f.__enter__()
        return self

    def __exit__(self, *a):
        return self._f.__exit__(*a)

    def __iter__(self):
        return iter(self._f)


_real_open = io.open


def _open(file, mode="r", *a, **kw):
    f = _real_open(file, mode, *a, **kw)
    try:
        if ST.on and not isinstance(file, int) and any(c in mode for c in "wax+"):
            p = os.fspath(file)
            if isinstance(p, bytes):
                p = p.decode("utf-8", "replace")
            p = os.path.abspath(p)
            if (p + os.sep).startswith(ST.root):
                return _FaultyFile(f, _short(p))
    except TypeError:
        pass
    return f


@contextlib.contextmanager
def faulty_open():
    """while active, files opened for writing inside the sandbox count their write() calls"""
    io.open = _open
    builtins.open = _open
    try:
        yield
    finally:
        io.open = _real_open
        builtins.open = _real_open


@contextlib.contextmanager
def armed(root, k=None, persistent=True, errno="ENOSPC", wk=None, xdev=False, wpersistent=True):
    """count (k=None) or fail audited operations under `root` for the duration of the block"""
    install()
    st = ST
    st.root = os.path.realpath(root) + os.sep
    st.k, st.persistent, st.errno = k, persistent, ERRNOS[errno]
    st.n, st.log, st.fired, st.tripped = 0, [], 0, False
    st.wk, st.wn, st.wlog, st.wpersistent = wk, 0, [], wpersistent
    st.xdev, st.xdev_hits = xdev, 0
    cm = faulty_open() if wk is not None else contextlib.nullcontext()
    with cm:
        st.on = True
        try:
            yield st
        finally:
            st.on = False


# ------------------------------------------------------------------ poison values
ARM = {"dump": None, "load": None, "dumps": 0, "loads": 0}


class PoisonError(RuntimeError):
    pass


class Poison:
    """a picklable value that fails on demand while being pickled / unpickled"""

    def __init__(self, tag):
        self.tag = tag

    def __eq__(self, other):
        return isinstance(other, Poison) and other.tag == self.tag

    def __hash__(self):
        return hash(("Poison", self.tag))

    def __repr__(self):
        return "Poison(%r)" % (self.tag,)

    def __reduce__(self):
        ARM["dumps"] += 1
        if ARM["dump"] in (self.tag, "*"):
            raise PoisonError("injected while pickling %s" % self.tag)
        return (_rebuild, (self.tag,))


def _rebuild(tag):
    ARM["loads"] += 1
    if ARM["load"] in (tag, "*"):
        raise PoisonError("injected while unpickling %s" % tag)
    return Poison(tag)


@contextlib.contextmanager
def poison(dump=None, load=None):
    ARM["dump"], ARM["load"] = dump, load
    try:
        yield
    finally:
        ARM["dump"] = ARM["load"] = None


# ------------------------------------------------------------------ file-tree hashes
def tree_hash(path):
    """hash of a file or of a directory tree (names + contents); None if absent"""
    if not os.path.lexists(path):
        return None
    h = hashlib.sha256()
    if os.path.isfile(path):
        h.update(b"F")
        with _real_open(path, "rb") as f:
            h.update(f.read())
        return h.hexdigest()[:24]
    h.update(b"D")
    for d, dirs, files in os.walk(path):
        dirs.sort()
        rel = os.path.relpath(d, path)
        h.update(("d:" + rel + "\n").encode())
        for fn in sorted(files):
            h.update(("f:" + fn + "\n").encode())
            try:
                with _real_open(os.path.join(d, fn), "rb") as f:
                    h.update(hashlib.sha256(f.read()).digest())
            except OSError:
                h.update(b"<unreadable>")
    return h.hexdigest()[:24]


def listing(path):
    """sorted relative file names of a copy (dir tree or zip members)"""
    import zipfile
    if os.path.isdir(path):
        out = []
        for d, dirs, files in os.walk(path):
            for fn in files:
                out.append(os.path.relpath(os.path.join(d, fn), path))
        return sorted(out)
    try:
        with zipfile.ZipFile(path) as z:
            return sorted(z.namelist())
    except Exception:    # noqa
        return None
