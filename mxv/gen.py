"""Seeded generators: models (as op lists), formulas from a terminating grammar, query sets.

Termination: every cells *name* has a global rank; a formula for a name of rank n
calls only names of rank < n (whatever space they are resolved in), or itself with
x - 1 under `if x > 0`.  Arguments stay in a small domain.
"""
import random

from . import refmodel as R

C_NAMES = ["c0", "c1", "c2", "max", "c3", "c4", "len", "c5", "c6"]     # top-level pools, rank = 10 + index
D_NAMES = ["d0", "d1", "abs", "d2"]                                      # child-space pool, rank = index
RANK = {n: i for i, n in enumerate(D_NAMES)}
RANK.update({n: 10 + i for i, n in enumerate(C_NAMES)})
BUILTIN_SHADOW = {"max", "len", "abs", "sum"}
REF_NAMES = ["r", "s", "k", "t"]
MODEL_REFS = ["g", "w"]
DOMAIN = [0, 1, 2, 3]


class ModelGen:
    def __init__(self, rnd, nesting=True, inheritance=True, itemspaces=False, objrefs=True,
                 uncached=0.2, lambdas=0.2, two_params=0.4, probe=True, max_cells=4):
        self.rnd = rnd
        self.f = dict(nesting=nesting, inheritance=inheritance, itemspaces=itemspaces, objrefs=objrefs,
                      uncached=uncached, lambdas=lambdas, two_params=two_params)
        self.rm = R.RModel("M")
        self.inputs = {}
        self.ops = []
        self.probe = probe
        self.max_cells = max_cells

    # ------------------------------------------------------------ emit
    def emit(self, op):
        R.apply_op(self.rm, op, self.inputs, probe=self.probe)
        self.ops.append(op)
        return op

    # ------------------------------------------------------------ model
    def build(self):
        rnd = self.rnd
        for g in MODEL_REFS:
            self.emit({"op": "set_ref", "space": "", "name": g, "value": {"lit": rnd.randint(1, 9)}})
        tops = ["A", "B", "C"][: rnd.randint(1, 3)]
        for i, t in enumerate(tops):
            bases = []
            if self.f["inheritance"] and i > 0 and rnd.random() < 0.6:
                k = rnd.randint(1, min(2, i))
                bases = rnd.sample(tops[:i], k)
                probe_space = R.RSpace("_", self.rm)
                probe_space.bases = [self.rm.get(b) for b in bases]
                try:
                    R.mro(probe_space)
                except TypeError:
                    bases = bases[:1]
            formula = None
            if self.f["itemspaces"] and not bases and rnd.random() < 0.5:
                formula = self.gen_space_formula(["p", "q"])
            self.emit({"op": "new_space", "name": t, "bases": bases, "formula": formula})
            self.fill_space(t, C_NAMES, top=True)
            if self.f["nesting"] and rnd.random() < 0.6:
                chf = None
                if self.f["itemspaces"] and rnd.random() < 0.3:
                    chf = self.gen_space_formula(["n"])
                self.emit({"op": "new_space", "parent": t, "name": "Ch", "formula": chf})
                self.fill_space(t + ".Ch", D_NAMES, top=False)
                if rnd.random() < 0.3:
                    self.emit({"op": "new_space", "parent": t + ".Ch", "name": "Gc"})
                    self.fill_space(t + ".Ch.Gc", D_NAMES[:2], top=False)
            # cells of the top space are created after its children so that they can call into them
            self.fill_cells(t, C_NAMES)
            if self.f["objrefs"] and rnd.random() < 0.5:
                self.add_objref(t)
        self.late_edits()
        return self

    def late_edits(self):
        """features that need an order of creation: model-level references created after a same-named cells
        or child space exists; None-returning formulas with allow_none at cells / space / model level;
        assigned inputs (incl. None)"""
        rnd = self.rnd
        spaces = list(self.rm.walk())
        if self.f.get("late_model_refs", True) and rnd.random() < 0.35:
            names = []
            for s in spaces:
                names += [n for n in s.cells if n not in ("g", "w")]
                names += list(s.children)
            if names:
                n = rnd.choice(names)
                if n not in self.rm.refs and not any(n in s.refs for s in spaces):
                    self.emit({"op": "set_ref", "space": "", "name": n, "value": {"lit": rnd.randint(50, 59)}})
        if self.f.get("none_values", True) and rnd.random() < 0.4:
            level = rnd.choice(["cell", "space", "model", "none"])
            cands = [(s, n) for s in spaces for n in s.cells]
            if cands:
                s, n = rnd.choice(cands)
                cd = s.cells[n]
                op = {"op": "set_formula", "space": s.path(), "name": n, "params": [list(p) for p in cd.params],
                      "body": "(None if x == 1 else (%s))" % cd.body, "lam": cd.lam, "cached": cd.cached}
                self.emit(op)
                if level == "cell":
                    self.emit({"op": "set_allow_none", "space": s.path(), "name": n, "value": True})
                elif level == "space":
                    top = s
                    while isinstance(top.parent, R.RSpace) and rnd.random() < 0.5:
                        top = top.parent
                    self.emit({"op": "set_allow_none", "space": top.path(), "value": True})
                elif level == "model":
                    self.emit({"op": "set_allow_none", "space": "", "value": True})
        if self.f.get("inputs", True) and rnd.random() < 0.4:
            cands = [(s, n) for s in spaces for n in s.cells
                     if s.cells[n].cached and s.formula is None
                     and not any(a.formula is not None for a in R._ancestors(s))]
            for s, n in rnd.sample(cands, min(len(cands), 2)):
                cd = s.cells[n]
                steps = [["s", p] for p in s.path().split(".")]
                args = [rnd.choice([0, 1, 2])] + ([cd.params[1][1]] if len(cd.params) > 1 and rnd.random() < 0.5 else [])
                v = rnd.choice([100, 200, None]) if self.f.get("none_values", True) else rnd.choice([100, 200])
                self.emit({"op": "assign", "inst": steps, "name": n, "args": args, "value": v})

    def gen_space_formula(self, pnames):
        rnd = self.rnd
        params = [[pnames[0], None]]
        if len(pnames) > 1 and rnd.random() < 0.6:
            params.append([pnames[1], rnd.randint(1, 3)])
        fd = {"params": params, "lam": rnd.random() < 0.3}
        if rnd.random() < 0.4:
            fd["refs"] = {"t2": "%s * 10 + 1" % pnames[0]}
        return fd

    def fill_space(self, path, pool, top):
        rnd = self.rnd
        sp = self.rm.get(path)
        mem = R.members(sp)
        for rn in rnd.sample(REF_NAMES, rnd.randint(1, 3)):
            if rn in mem["cells"]:
                continue
            self.emit({"op": "set_ref", "space": path, "name": rn, "value": {"lit": rnd.randint(1, 9)},
                       "mode": "auto", "via": rnd.choice(["setattr", "set_ref"])})
        if not top:
            self.fill_cells(path, pool)

    def fill_cells(self, path, pool):
        rnd = self.rnd
        sp = self.rm.get(path)
        n = rnd.randint(2, self.max_cells)
        names = sorted(rnd.sample(pool, min(n, len(pool))), key=lambda x: RANK[x])
        for name in names:
            mem = R.members(sp)
            if name in mem["refs"] or name in sp.children:
                continue
            cd = self.gen_cell(path, name)
            if name in mem["cells"]:
                if mem["cells"][name][0] is sp:
                    continue
                # override a derived cells
                if rnd.random() < 0.5:
                    self.emit(dict(cd, op="set_formula", space=path))
                continue
            self.emit(dict(cd, op="new_cells", space=path))

    def add_objref(self, path):
        rnd = self.rnd
        cands = []
        for s in self.rm.walk():
            if s.formula is None and not any(a.formula is not None for a in R._ancestors(s)):
                cands.append(s)
        if not cands:
            return
        t = rnd.choice(cands)
        sp = self.rm.get(path)
        if "o1" in R.members(sp)["refs"]:
            return
        tcells = list(R.members(t)["cells"])
        if tcells and rnd.random() < 0.4:
            self.emit({"op": "set_ref", "space": path, "name": "o2",
                       "value": {"cell": t.path() + "." + rnd.choice(tcells)}, "mode": "absolute"})
        else:
            self.emit({"op": "set_ref", "space": path, "name": "o1", "value": {"space": t.path()},
                       "mode": "absolute"})

    # ------------------------------------------------------------ formulas
    def gen_cell(self, path, name, probe=None):
        rnd = self.rnd
        params = [["x", None]]
        if rnd.random() < self.f["two_params"]:
            params.append(["y", rnd.randint(1, 3)])
        existing = self._existing_params(name)
        if existing is not None:
            params = existing          # one signature per name keeps cross-space calls well-formed
        body = self.gen_body(path, name, [p for p, _ in params])
        return {"name": name, "params": params, "body": body,
                "lam": rnd.random() < self.f["lambdas"],
                "cached": rnd.random() >= self.f["uncached"]}

    def _existing_params(self, name):
        for s in self.rm.walk():
            if name in s.cells:
                return [list(p) for p in s.cells[name].params]
        return None

    def arg(self, params):
        rnd = self.rnd
        c = ["x", "0", "1", "(x - 1 if x > 0 else 0)"]
        if "y" in params:
            c.append("(y if y < 3 else 3)")
        return rnd.choice(c)

    def call_text(self, prefix, cname, cparams, params):
        """one of the call spellings that bind the same way"""
        rnd = self.rnd
        a = self.arg(params)
        names = [p for p, _ in cparams]
        if len(names) == 1:
            return rnd.choice(["%s%s(%s)", "%s%s(x=%s)"]) % (prefix, cname, a)
        b = rnd.choice(["1", "2"])
        return rnd.choice([
            "%s%s(%s)" % (prefix, cname, a),
            "%s%s(%s, %s)" % (prefix, cname, a, b),
            "%s%s(x=%s)" % (prefix, cname, a),
            "%s%s(%s, y=%s)" % (prefix, cname, a, b),
            "%s%s(y=%s, x=%s)" % (prefix, cname, b, a),
        ])

    def visible_cells(self, path, rank):
        """[(prefix, name, params)] of cells callable from `path` with rank < rank"""
        out = []
        sp = self.rm.get(path)
        for n, (d, c) in R.members(sp)["cells"].items():
            if RANK.get(n, 99) < rank:
                out.append(("", n, c.params))
        for chn, ch in sp.children.items():
            for n, (d, c) in R.members(ch)["cells"].items():
                if RANK.get(n, 99) < rank:
                    out.append((chn + ".", n, c.params))
            for gn, gc in ch.children.items():
                for n, (d, c) in R.members(gc)["cells"].items():
                    if RANK.get(n, 99) < rank:
                        out.append((chn + "." + gn + ".", n, c.params))
        for rn, (d, r) in R.members(sp)["refs"].items():
            if r.kind == "space" and not r.value.deleted:
                for n, (d2, c) in R.members(r.value)["cells"].items():
                    if RANK.get(n, 99) < rank:
                        out.append((rn + ".", n, c.params))
            elif r.kind == "cell" and RANK.get(r.value[1], 99) < rank:
                try:
                    c = R.members(r.value[0])["cells"][r.value[1]][1]
                    out.append(("", rn, c.params))
                except KeyError:
                    pass
        return out

    def ref_terms(self, path):
        sp = self.rm.get(path)
        out = []
        for rn, (d, r) in R.members(sp)["refs"].items():
            if r.kind == "lit" and isinstance(r.value, int):
                out += [rn, "_space." + rn, "_model.%s.%s" % (path, rn)]
        for g in self.rm.refs:
            if self.rm.refs[g].kind == "lit" and g not in R.members(sp)["refs"]:
                out += [g, "_model." + g]
        for chn, ch in sp.children.items():
            for rn, (d, r) in R.members(ch)["refs"].items():
                if r.kind == "lit" and isinstance(r.value, int):
                    out.append("%s.%s" % (chn, rn))
            for g in self.rm.refs:
                if self.rm.refs[g].kind == "lit":
                    out.append("%s.%s" % (chn, g))        # model-level reference seen through a child
        # parameters of enclosing parametrised spaces
        s = sp
        while isinstance(s, R.RSpace):
            if s.formula is not None:
                out += [p for p, _ in s.formula.params]
                if s is sp and s.formula.refs:
                    out += list(s.formula.refs)
            s = s.parent
        return out

    def gen_body(self, path, name, params):
        rnd = self.rnd
        rank = RANK.get(name, 99)
        vis = self.visible_cells(path, rank)
        terms = []
        for prefix, cn, cps in rnd.sample(vis, min(len(vis), rnd.randint(0, 3))):
            ct = self.call_text(prefix, cn, cps, params)
            form = rnd.random()
            if form < 0.6:
                terms.append(ct)
            elif form < 0.7:
                terms.append("sum([%s for _i in range(2)])" % ct)
            elif form < 0.8:
                terms.append("sum(%s for _i in range(1))" % ct)
            elif form < 0.9:
                terms.append("(lambda _q: %s)(0)" % ct)
            else:
                terms.append("(%s if x < 2 else 0)" % ct)
        rts = self.ref_terms(path)
        for rt in rnd.sample(rts, min(len(rts), rnd.randint(0, 2))):
            terms.append(rt)
        if rnd.random() < 0.3:
            terms.append("(%s(x - 1) if x > 0 else 0)" % name if len(params) == 1 else
                         "(%s(x - 1, y) if x > 0 else 0)" % name)
        if rnd.random() < 0.15 and rank > RANK["abs"]:
            # `abs` is a builtin or, where a cells of that (lower-ranked) name is visible, that cells:
            # well-formed either way
            terms.append("abs(x - 2)" if rnd.random() < 0.5 else "abs(x)")
        if rnd.random() < 0.1:
            terms.append("min(x, 2)")
        terms.append(rnd.choice(["x", "1", "x * 2"] + (["y"] if "y" in params else [])))
        rnd.shuffle(terms)
        return " + ".join(terms)

    # ------------------------------------------------------------ queries
    def instances(self, item_args=(1, 2)):
        """instance step lists of every space (static ones, and ItemSpaces for a few argument values)"""
        out = []

        def rec(sp, steps):
            steps = steps + [["s", sp.name]]
            if sp.formula is None:
                out.append(steps)
                for ch in sp.children.values():
                    rec(ch, steps)
            else:
                for a in item_args:
                    isteps = steps + [["i", [a]]]
                    out.append(isteps)
                    base = sp.formula.base or sp
                    for ch in base.children.values():
                        rec_dyn(ch, isteps)

        def rec_dyn(sp, steps):
            steps = steps + [["s", sp.name]]
            if sp.formula is None:
                out.append(steps)
                for ch in sp.children.values():
                    rec_dyn(ch, steps)
            else:
                for a in item_args[:1]:
                    isteps = steps + [["i", [a]]]
                    out.append(isteps)
        for t in self.rm.children.values():
            rec(t, [])
        return out

    def space_of(self, steps):
        ev = R.Evaluator(self.rm)
        return ev.inst_from_steps(steps).space

    def queries(self, rm=None, domain=(0, 1, 2), max_per_cell=3):
        rm = rm or self.rm
        out = []
        ev = R.Evaluator(rm)
        for steps in self.instances():
            try:
                inst = ev.inst_from_steps(steps)
            except Exception:   # noqa
                continue
            for n, (d, c) in R.members(inst.space)["cells"].items():
                for x in domain[:max_per_cell]:
                    args = [x]
                    out.append({"inst": steps, "name": n, "args": args})
        return out


def spellings(cdef, args):
    """all call spellings that bind like positional `args` (with defaults omitted)"""
    names = [p for p, _ in cdef.params]
    full = list(cdef.bind(tuple(args), {}))
    out = [("call", list(args), {})]
    out.append(("call", [], dict(zip(names, full))))
    out.append(("call", full, {}))
    if len(names) >= 1:
        out.append(("call", full[:1], dict(zip(names[1:], full[1:]))))
    out.append(("sub", full, {}))
    if len(args) == 1:
        out.append(("sub", list(args), {}))
    if not names:
        out.append(("value", [], {}))
    return out
