"""Seeded generators: models (as op lists), formulas from a terminating grammar, query sets.

Termination: every cells *name* has a global rank; a formula for a name of rank n
calls only names of rank < n (whatever space they are resolved in), or itself with
x - 1 under `if x > 0`.  Arguments stay in a small domain.
"""
import random

from . import refmodel as R

C_NAMES = ["c0", "c1", "c2", "max", "c3", "c4", "len", "c5", "c6"]     # top-level pools, rank = 10 + index
D_NAMES = ["d0", "d1", "abs", "d2"]                                      # child-space pool, rank = index
RANK = {n: i for i, n in enumerate(D_NAMES)}
RANK.update({n: 10 + i for i, n in enumerate(C_NAMES)})
BUILTIN_SHADOW = {"max", "len", "abs", "sum"}
REF_NAMES = ["r", "s", "k", "t"]
MODEL_REFS = ["g", "w"]
DOMAIN = [0, 1, 2, 3]


class ModelGen:
    def __init__(self, rnd, nesting=True, inheritance=True, itemspaces=False, objrefs=True,
                 uncached=0.2, lambdas=0.2, two_params=0.4, probe=True, max_cells=4):
        self.rnd = rnd
        self.f = dict(nesting=nesting, inheritance=inheritance, itemspaces=itemspaces, objrefs=objrefs,
                      uncached=uncached, lambdas=lambdas, two_params=two_params)
        self.rm = R.RModel("M")
        self.inputs = {}
        self.ops = []
        self.probe = probe
        self.max_cells = max_cells

    # ------------------------------------------------------------ emit
    def emit(self, op):
        R.apply_op(self.rm, op, self.inputs, probe=self.probe)
        self.ops.append(op)
        return op

    # ------------------------------------------------------------ model
    def build(self):
        rnd = self.rnd
        for g in MODEL_REFS:
            self.emit({"op": "set_ref", "space": "", "name": g, "value": {"lit": rnd.randint(1, 9)}})
        tops = ["A", "B", "C"][: rnd.randint(1, 3)]
        for i, t in enumerate(tops):
            bases = []
            if self.f["inheritance"] and i > 0 and rnd.random() < 0.6:
                k = rnd.randint(1, min(2, i))
                bases = rnd.sample(tops[:i], k)
                if self.f.get("nested_bases", True) and rnd.random() < 0.25:
                    # a child space of an earlier space as (additional) base
                    kids = [c.path() for t0 in tops[:i] for c in self.rm.get(t0).children.values()
                            if c.formula is None and self.rm.get(t0).formula is None]
                    if kids:
                        bases = (bases + [rnd.choice(kids)])[-2:]
                probe_space = R.RSpace("_", self.rm)
                probe_space.bases = [self.rm.get(b) for b in bases]
                try:
                    R.mro(probe_space)
                except TypeError:
                    bases = bases[:1]
            formula = None
            if self.f["itemspaces"] and not bases and rnd.random() < 0.5:
                formula = self.gen_space_formula(["p", "q"])
            self.emit({"op": "new_space", "name": t, "bases": bases, "formula": formula})
            self.fill_space(t, C_NAMES, top=True)
            if self.f["nesting"] and rnd.random() < 0.6:
                chf = None
                if self.f["itemspaces"] and rnd.random() < 0.3:
                    chf = self.gen_space_formula(["n"])
                self.emit({"op": "new_space", "parent": t, "name": "Ch", "formula": chf})
                self.fill_space(t + ".Ch", D_NAMES, top=False)
                if rnd.random() < 0.3:
                    self.emit({"op": "new_space", "parent": t + ".Ch", "name": "Gc"})
                    self.fill_space(t + ".Ch.Gc", D_NAMES[:2], top=False)
            # cells of the top space are created after its children so that they can call into them
            self.fill_cells(t, C_NAMES)
            if self.f["objrefs"] and rnd.random() < 0.5:
                self.add_objref(t)
        self.late_edits()
        return self

    def late_edits(self):
        """features that need an order of creation: model-level references created after a same-named cells
        or child space exists; None-returning formulas with allow_none at cells / space / model level;
        assigned inputs (incl. None)"""
        rnd = self.rnd
        spaces = list(self.rm.walk())
        if self.f.get("late_model_refs", True) and rnd.random() < 0.35:
            names = []
            for s in spaces:
                names += [n for n in s.cells if n not in ("g", "w")]
                names += list(s.children)
            if names:
                n = rnd.choice(names)
                if n not in self.rm.refs and not any(n in s.refs for s in spaces):
                    self.emit({"op": "set_ref", "space": "", "name": n, "value": {"lit": rnd.randint(50, 59)}})
        if self.f.get("none_values", True) and rnd.random() < 0.4:
            level = rnd.choice(["cell", "space", "model", "none"])
            cands = [(s, n) for s in spaces for n in s.cells]
            if cands:
                s, n = rnd.choice(cands)
                cd = s.cells[n]
                op = {"op": "set_formula", "space": s.path(), "name": n, "params": [list(p) for p in cd.params],
                      "body": "(None if x == 1 else (%s))" % cd.body, "lam": cd.lam, "cached": cd.cached}
                self.emit(op)
                if level == "cell":
                    self.emit({"op": "set_allow_none", "space": s.path(), "name": n, "value": True})
                elif level == "space":
                    top = s
                    while isinstance(top.parent, R.RSpace) and rnd.random() < 0.5:
                        top = top.parent
                    self.emit({"op": "set_allow_none", "space": top.path(), "value": True})
                elif level == "model":
                    self.emit({"op": "set_allow_none", "space": "", "value": True})
        if self.f.get("inputs", True) and rnd.random() < 0.4:
            cands = [(s, n) for s in spaces for n in s.cells
                     if s.cells[n].cached and s.formula is None
                     and not any(a.formula is not None for a in R._ancestors(s))]
            for s, n in rnd.sample(cands, min(len(cands), 2)):
                cd = s.cells[n]
                steps = [["s", p] for p in s.path().split(".")]
                args = [rnd.choice([0, 1, 2])] + ([cd.params[1][1]] if len(cd.params) > 1 and rnd.random() < 0.5 else [])
                v = rnd.choice([100, 200, None]) if self.f.get("none_values", True) else rnd.choice([100, 200])
                self.emit({"op": "assign", "inst": steps, "name": n, "args": args, "value": v})

    def gen_space_formula(self, pnames):
        rnd = self.rnd
        params = [[pnames[0], None]]
        if len(pnames) > 1 and rnd.random() < 0.6:
            params.append([pnames[1], rnd.randint(1, 3)])
        fd = {"params": params, "lam": rnd.random() < 0.3}
        if rnd.random() < 0.4:
            fd["refs"] = {"t2": "%s * 10 + 1" % pnames[0]}
        return fd

    def fill_space(self, path, pool, top):
        rnd = self.rnd
        sp = self.rm.get(path)
        mem = R.members(sp)
        for rn in rnd.sample(REF_NAMES, rnd.randint(1, 3)):
            if rn in mem["cells"]:
                continue
            self.emit({"op": "set_ref", "space": path, "name": rn, "value": {"lit": rnd.randint(1, 9)},
                       "mode": "auto", "via": rnd.choice(["setattr", "set_ref"])})
        if rnd.random() < 0.15:
            # a space-level reference shadowing a model-level one of the same name
            self.emit({"op": "set_ref", "space": path, "name": rnd.choice(MODEL_REFS),
                       "value": {"lit": rnd.randint(60, 69)}, "via": "setattr"})
        if sp.formula is not None and rnd.random() < 0.25:
            # a reference of the base space named like one of its parameters (the argument wins in instances)
            pn = sp.formula.params[-1][0]
            if pn not in mem["cells"]:
                self.emit({"op": "set_ref", "space": path, "name": pn, "value": {"lit": rnd.randint(70, 79)},
                           "via": "setattr"})
        if not top:
            self.fill_cells(path, pool)

    def fill_cells(self, path, pool):
        rnd = self.rnd
        sp = self.rm.get(path)
        n = rnd.randint(2, self.max_cells)
        names = sorted(rnd.sample(pool, min(n, len(pool))), key=lambda x: RANK[x])
        for name in names:
            mem = R.members(sp)
            if name in mem["refs"] or name in sp.children:
                continue
            cd = self.gen_cell(path, name)
            if name in mem["cells"]:
                if mem["cells"][name][0] is sp:
                    continue
                # override a derived cells
                if rnd.random() < 0.5:
                    self.emit(dict(cd, op="set_formula", space=path))
                continue
            self.emit(dict(cd, op="new_cells", space=path))

    def add_objref(self, path):
        rnd = self.rnd
        cands = []
        for s in self.rm.walk():
            if s.formula is None and not any(a.formula is not None for a in R._ancestors(s)):
                cands.append(s)
        if not cands:
            return
        t = rnd.choice(cands)
        sp = self.rm.get(path)
        if "o1" in R.members(sp)["refs"]:
            return
        tcells = list(R.members(t)["cells"])
        if tcells and rnd.random() < 0.4:
            self.emit({"op": "set_ref", "space": path, "name": "o2",
                       "value": {"cell": t.path() + "." + rnd.choice(tcells)}, "mode": "absolute"})
        else:
            self.emit({"op": "set_ref", "space": path, "name": "o1", "value": {"space": t.path()},
                       "mode": "absolute"})

    # ------------------------------------------------------------ formulas
    def gen_cell(self, path, name, probe=None):
        rnd = self.rnd
        params = [["x", None]]
        if rnd.random() < self.f["two_params"]:
            params.append(["y", rnd.randint(1, 3)])
        existing = self._existing_params(name)
        if existing is not None:
            params = existing          # one signature per name keeps cross-space calls well-formed
        body = self.gen_body(path, name, [p for p, _ in params])
        return {"name": name, "params": params, "body": body,
                "lam": rnd.random() < self.f["lambdas"],
                "cached": rnd.random() >= self.f["uncached"]}

    def _existing_params(self, name):
        for s in self.rm.walk():
            if name in s.cells:
                return [list(p) for p in s.cells[name].params]
        return None

    def arg(self, params):
        rnd = self.rnd
        c = ["x", "0", "1", "(x - 1 if x > 0 else 0)"]
        if "y" in params:
            c.append("(y if y < 3 else 3)")
        return rnd.choice(c)

    def call_text(self, prefix, cname, cparams, params):
        """one of the call spellings that bind the same way"""
        rnd = self.rnd
        a = self.arg(params)
        names = [p for p, _ in cparams]
        if len(names) == 1:
            return rnd.choice(["%s%s(%s)", "%s%s(x=%s)"]) % (prefix, cname, a)
        b = rnd.choice(["1", "2"])
        return rnd.choice([
            "%s%s(%s)" % (prefix, cname, a),
            "%s%s(%s, %s)" % (prefix, cname, a, b),
            "%s%s(x=%s)" % (prefix, cname, a),
            "%s%s(%s, y=%s)" % (prefix, cname, a, b),
            "%s%s(y=%s, x=%s)" % (prefix, cname, b, a),
        ])

    def visible_cells(self, path, rank):
        """[(prefix, name, params)] of cells callable from `path` with rank < rank"""
        out = []
        sp = self.rm.get(path)
        for n, (d, c) in R.members(sp)["cells"].items():
            if RANK.get(n, 99) < rank:
                out.append(("", n, c.params))
        for chn, ch in sp.children.items():
            for n, (d, c) in R.members(ch)["cells"].items():
                if RANK.get(n, 99) < rank:
                    out.append((chn + ".", n, c.params))
            for gn, gc in ch.children.items():
                for n, (d, c) in R.members(gc)["cells"].items():
                    if RANK.get(n, 99) < rank:
                        out.append((chn + "." + gn + ".", n, c.params))
        for rn, (d, r) in R.members(sp)["refs"].items():
            if r.kind == "space" and not r.value.deleted:
                for n, (d2, c) in R.members(r.value)["cells"].items():
                    if RANK.get(n, 99) < rank:
                        out.append((rn + ".", n, c.params))
            elif r.kind == "cell" and RANK.get(r.value[1], 99) < rank:
                try:
                    c = R.members(r.value[0])["cells"][r.value[1]][1]
                    out.append(("", rn, c.params))
                except KeyError:
                    pass
        return out

    def ref_terms(self, path):
        sp = self.rm.get(path)
        out = []
        for rn, (d, r) in R.members(sp)["refs"].items():
            if r.kind == "lit" and isinstance(r.value, int):
                out += [rn, "_space." + rn, "_model.%s.%s" % (path, rn)]
        for g in self.rm.refs:
            if self.rm.refs[g].kind == "lit" and g not in R.members(sp)["refs"]:
                out += [g, "_model." + g]
        for chn, ch in sp.children.items():
            for rn, (d, r) in R.members(ch)["refs"].items():
                if r.kind == "lit" and isinstance(r.value, int):
                    out.append("%s.%s" % (chn, rn))
            for g in self.rm.refs:
                if self.rm.refs[g].kind == "lit":
                    out.append("%s.%s" % (chn, g))        # model-level reference seen through a child
        # parameters of enclosing parametrised spaces
        s = sp
        while isinstance(s, R.RSpace):
            if s.formula is not None:
                out += [p for p, _ in s.formula.params]
                if s is sp and s.formula.refs:
                    out += list(s.formula.refs)
            s = s.parent
        return out

    def gen_body(self, path, name, params):
        rnd = self.rnd
        rank = RANK.get(name, 99)
        vis = self.visible_cells(path, rank)
        terms = []
        for prefix, cn, cps in rnd.sample(vis, min(len(vis), rnd.randint(0, 3))):
            ct = self.call_text(prefix, cn, cps, params)
            form = rnd.random()
            if form < 0.6:
                terms.append(ct)
            elif form < 0.7:
                terms.append("sum([%s for _i in range(2)])" % ct)
            elif form < 0.8:
                terms.append("sum(%s for _i in range(1))" % ct)
            elif form < 0.9:
                terms.append("(lambda _q: %s)(0)" % ct)
            else:
                terms.append("(%s if x < 2 else 0)" % ct)
        rts = self.ref_terms(path)
        for rt in rnd.sample(rts, min(len(rts), rnd.randint(0, 2))):
            terms.append(rt)
        if rnd.random() < 0.3:
            terms.append("(%s(x - 1) if x > 0 else 0)" % name if len(params) == 1 else
                         "(%s(x - 1, y) if x > 0 else 0)" % name)
        if rnd.random() < 0.15 and rank > RANK["abs"]:
            # `abs` is a builtin or, where a cells of that (lower-ranked) name is visible, that cells:
            # well-formed either way
            terms.append("abs(x - 2)" if rnd.random() < 0.5 else "abs(x)")
        if rnd.random() < 0.1:
            terms.append("min(x, 2)")
        terms.append(rnd.choice(["x", "1", "x * 2"] + (["y"] if "y" in params else [])))
        rnd.shuffle(terms)
        return " + ".join(terms)

    # ------------------------------------------------------------ queries
    def instances(self, item_args=(1, 2), with_space=False):
        """instance step lists of every space (static ones, and ItemSpaces for a few argument values);
        with_space: pairs (steps, the space whose members the instance shows)"""
        out = []

        def rec(sp, steps, dyn):
            steps = steps + [["s", sp.name]]
            if sp.formula is None:
                out.append((steps, sp))
                for ch in sp.children.values():
                    rec(ch, steps, dyn)
            else:
                for a in (item_args[:1] if dyn else item_args):
                    isteps = steps + [["i", [a]]]
                    base = sp.formula.base or sp      # (a deleted base still tells which names were there)
                    out.append((isteps, base))
                    if not dyn or True:
                        for ch in base.children.values():
                            if ch.formula is None or not dyn:
                                rec(ch, isteps, True)
        for t in self.rm.children.values():
            rec(t, [], False)
        return out if with_space else [s for s, _ in out]

    def space_of(self, steps):
        ev = R.Evaluator(self.rm)
        return ev.inst_from_steps(steps).space

    def queries(self, rm=None, domain=(0, 1, 2), max_per_cell=3):
        out = []
        for steps, sp in self.instances(with_space=True):
            try:
                names = list(R.members(sp)["cells"])
            except Exception:   # noqa
                continue
            for n in names:
                for x in domain[:max_per_cell]:
                    out.append({"inst": steps, "name": n, "args": [x]})
        return out


def spellings(cdef, args):
    """all call spellings that bind like positional `args` (with defaults omitted)"""
    names = [p for p, _ in cdef.params]
    full = list(cdef.bind(tuple(args), {}))
    out = [("call", list(args), {})]
    out.append(("call", [], dict(zip(names, full))))
    out.append(("call", full, {}))
    if len(names) >= 1:
        out.append(("call", full[:1], dict(zip(names[1:], full[1:]))))
    out.append(("sub", full, {}))
    if len(args) == 1:
        out.append(("sub", list(args), {}))
    if not names:
        out.append(("value", [], {}))
    return out


# ------------------------------------------------------------------ edit histories
EDIT_KINDS = [
    "change_ref", "change_ref", "new_ref", "shadow_model_ref", "del_ref", "change_model_ref", "del_model_ref",
    "new_model_ref", "set_formula", "set_formula", "override_cells", "del_cells", "rename_cells", "new_cells",
    "toggle_cached", "assign", "assign", "clear_at", "clear", "clear_all_cells", "new_space", "del_space",
    "rename_space", "add_bases", "remove_bases", "space_formula", "allow_none", "obj_ref", "override_ref",
]


class EditGen:
    """random edits that are (believed) valid for the current definitions held in a ModelGen"""

    def __init__(self, g, rnd=None, allow_del_base=False):
        self.g = g
        self.rnd = rnd or g.rnd
        self.fresh = 0
        self.allow_del_base = allow_del_base      # may a space named as `base` by a space formula be deleted

    def static_spaces(self):
        return [s for s in self.g.rm.walk()
                if s.formula is None and not any(a.formula is not None for a in R._ancestors(s))]

    def steps_of(self, sp):
        return [["s", p] for p in sp.path().split(".")]

    def one(self, kind=None):
        """returns an op (already applied to the generator's definitions) or None"""
        rnd, g, rm = self.rnd, self.g, self.g.rm
        kind = kind or rnd.choice(EDIT_KINDS)
        spaces = list(rm.walk())
        if not spaces:
            return None
        sp = rnd.choice(spaces)
        mem = R.members(sp)
        path = sp.path()
        op = None
        if kind == "change_ref":
            c = [n for n, r in sp.refs.items() if r.kind == "lit"]
            if c:
                op = {"op": "set_ref", "space": path, "name": rnd.choice(c), "value": {"lit": rnd.randint(10, 40)},
                      "via": "setattr"}
        elif kind == "override_ref":
            c = [n for n, (d, r) in mem["refs"].items() if d is not sp and r.kind == "lit"]
            if c:
                op = {"op": "set_ref", "space": path, "name": rnd.choice(c), "value": {"lit": rnd.randint(10, 40)},
                      "via": "setattr"}
        elif kind == "new_ref":
            c = [n for n in REF_NAMES if n not in mem["refs"] and n not in mem["cells"] and n not in sp.children
                 and not self._used_in_subs(sp, n)]
            if c:
                op = {"op": "set_ref", "space": path, "name": rnd.choice(c), "value": {"lit": rnd.randint(10, 40)},
                      "via": "setattr"}
        elif kind == "shadow_model_ref":
            c = [n for n in rm.refs if n not in mem["refs"] and n not in mem["cells"] and n not in sp.children
                 and rm.refs[n].kind == "lit" and not self._used_in_subs(sp, n)]
            if c:
                op = {"op": "set_ref", "space": path, "name": rnd.choice(c), "value": {"lit": rnd.randint(60, 90)},
                      "via": "setattr"}
        elif kind == "del_ref":
            c = list(sp.refs)
            if c:
                op = {"op": "del_ref", "space": path, "name": rnd.choice(c)}
        elif kind == "change_model_ref":
            c = [n for n, r in rm.refs.items() if r.kind == "lit"]
            if c:
                op = {"op": "set_ref", "space": "", "name": rnd.choice(c), "value": {"lit": rnd.randint(10, 40)}}
        elif kind == "del_model_ref":
            c = list(rm.refs)
            if c and rnd.random() < 0.5:
                op = {"op": "del_ref", "space": "", "name": rnd.choice(c)}
        elif kind == "new_model_ref":
            c = [n for n in MODEL_REFS + ["v"] if n not in rm.refs
                 and not any(n in s.cells or n in s.children for s in spaces)]
            if c:
                op = {"op": "set_ref", "space": "", "name": rnd.choice(c), "value": {"lit": rnd.randint(10, 40)}}
        elif kind == "set_formula":
            c = list(sp.cells)
            if c:
                n = rnd.choice(c)
                cd = sp.cells[n]
                op = {"op": "set_formula", "space": path, "name": n, "params": [list(p) for p in cd.params],
                      "body": g.gen_body(path, n, [p for p, _ in cd.params]) + " + 1000",
                      "lam": rnd.random() < 0.2, "cached": cd.cached}
        elif kind == "override_cells":
            c = [n for n, (d, cd) in mem["cells"].items() if d is not sp]
            if c:
                n = rnd.choice(c)
                cd = mem["cells"][n][1]
                op = {"op": "set_formula", "space": path, "name": n, "params": [list(p) for p in cd.params],
                      "body": g.gen_body(path, n, [p for p, _ in cd.params]) + " + 500",
                      "lam": False, "cached": cd.cached}
        elif kind == "del_cells":
            c = [n for n in sp.cells if not self._cell_is_ref_target(sp, n)]
            if c:
                op = {"op": "del_cells", "space": path, "name": rnd.choice(c)}
        elif kind == "rename_cells":
            c = [n for n in sp.cells if not self._defined_elsewhere(sp, n)
                 and not self._cell_is_ref_target(sp, n)]
            if c:
                self.fresh += 1
                op = {"op": "rename_cells", "space": path, "name": rnd.choice(c), "new": "zz%d" % self.fresh}
        elif kind == "new_cells":
            pool = D_NAMES if isinstance(sp.parent, R.RSpace) else C_NAMES
            c = [n for n in pool if n not in mem["cells"] and n not in mem["refs"] and n not in sp.children
                 and n not in rm.refs and not self._used_in_subs(sp, n)]
            if c:
                n = rnd.choice(c)
                op = dict(g.gen_cell(path, n), op="new_cells", space=path)
        elif kind == "toggle_cached":
            c = list(sp.cells)
            if c:
                n = rnd.choice(c)
                op = {"op": "set_cached", "space": path, "name": n, "cached": not sp.cells[n].cached}
        elif kind in ("assign", "clear_at", "clear", "clear_all_cells"):
            st = [s for s in self.static_spaces() if s.cells]
            if st:
                s2 = rnd.choice(st)
                c = [n for n, cd in s2.cells.items() if cd.cached]
                if c:
                    n = rnd.choice(c)
                    cd = s2.cells[n]
                    args = [rnd.choice(DOMAIN[:3])]
                    if kind == "assign":
                        op = {"op": "assign", "inst": self.steps_of(s2), "name": n, "args": args,
                              "value": rnd.randint(100, 140)}
                    elif kind == "clear_at":
                        op = {"op": "clear_at", "inst": self.steps_of(s2), "name": n, "args": args}
                    elif kind == "clear":
                        op = {"op": "clear", "inst": self.steps_of(s2), "name": n}
                    else:
                        op = {"op": "clear_all", "inst": self.steps_of(s2), "name": n}
        elif kind == "new_space":
            self.fresh += 1
            c = [n for n in ("Zs", "Ch", "Gc") if n not in sp.children and n not in mem["cells"]
                 and n not in mem["refs"] and n not in rm.refs and not self._used_in_subs(sp, n)]
            if c:
                op = {"op": "new_space", "parent": path, "name": rnd.choice(c)}
        elif kind == "del_space":
            if rnd.random() < 0.5 and not self._is_ref_target(sp):
                op = {"op": "del_space", "path": path}
        elif kind == "rename_space":
            self.fresh += 1
            if rnd.random() < 0.5:
                op = {"op": "rename_space", "path": path, "new": "Rn%d" % self.fresh}
        elif kind == "add_bases":
            tops = [s for s in rm.children.values() if s is not sp and s not in sp.bases
                    and not s.is_within(sp) and not sp.is_within(s)]
            if tops and isinstance(sp.parent, R.RModel):
                b = rnd.choice(tops)
                if self._bases_ok(sp, sp.bases + [b]):
                    op = {"op": "add_bases", "space": path, "bases": [b.path()]}
        elif kind == "remove_bases":
            if sp.bases:
                b = rnd.choice(sp.bases)
                op = {"op": "remove_bases", "space": path, "bases": [b.path()]}
        elif kind == "space_formula":
            if sp.formula is not None:
                r = rnd.random()
                if r < 0.3:
                    op = {"op": "set_space_formula", "space": path, "formula": None}
                else:
                    fd = g.gen_space_formula([p for p, _ in sp.formula.params])
                    fd["params"] = [[p, d] for p, d in sp.formula.params]
                    if len(fd["params"]) > 1:
                        fd["params"][1][1] = rnd.randint(1, 3)
                    op = {"op": "set_space_formula", "space": path, "formula": fd}
        elif kind == "child_formula_new":
            # a plain child space inside a parametrised tree becomes parametrised itself
            if sp.formula is None and any(a.formula is not None for a in R._ancestors(sp)) \
                    and not any(p == "n" for a in R._ancestors(sp) if a.formula for p, _ in a.formula.params):
                op = {"op": "set_space_formula", "space": path,
                      "formula": {"params": [["n", None]], "lam": rnd.random() < 0.5}}
        elif kind == "allow_none":
            if rnd.random() < 0.3:
                c = list(sp.cells)
                if c and rnd.random() < 0.5:
                    op = {"op": "set_allow_none", "space": path, "name": rnd.choice(c), "value": True}
                else:
                    # only switched on: withdrawing the permission is not one of the edits C02 lists, and a
                    # held None legitimately stays
                    op = {"op": "set_allow_none", "space": rnd.choice([path, ""]), "value": True}
        elif kind == "obj_ref":
            st = self.static_spaces()
            if st and sp in st:
                t = rnd.choice(st)
                n = "o1"
                if n in mem["cells"] or n in sp.children or (n in mem["refs"] and n not in sp.refs):
                    return None
                if self._used_in_subs(sp, n):
                    return None
                op = {"op": "set_ref", "space": path, "name": n, "value": {"space": t.path()}, "mode": "absolute"}
        if op is None:
            return None
        if op["op"] in ("del_cells", "rename_cells", "del_space", "remove_bases", "add_bases", "set_formula",
                        "new_cells") and self._would_dangle(op):
            return None
        try:
            g.emit(op)
        except Exception:    # noqa  the generator's own belief was wrong: drop the op
            if g.ops and g.ops[-1] is op:
                g.ops.pop()
            return None
        if has_bad_mro(rm):
            return op
        return op

    def _used_in_subs(self, sp, name):
        for s in self.g.rm.subs_of(sp):
            if name in s.cells or name in s.refs or name in s.children:
                return True
        return False

    def _defined_elsewhere(self, sp, name):
        for s in self.g.rm.walk():
            if s is not sp and name in s.cells:
                try:
                    if sp in R.mro(s) or s in R.mro(sp):
                        return True
                except TypeError:
                    return True
        return False

    def _would_dangle(self, op):
        """would the op leave an object-valued reference without its target?  (a reference to a deleted
        object is a dangling handle - C13's subject - and poisons every formula of its space)"""
        import copy
        rm2 = copy.deepcopy(self.g.rm)
        try:
            R.apply_op(rm2, op, {}, probe=self.g.probe)
            for s in rm2.walk():
                for r in s.refs.values():
                    if r.kind == "space" and r.value.deleted:
                        return True
                    if r.kind == "cell":
                        if r.value[0].deleted or r.value[1] not in R.members(r.value[0])["cells"]:
                            return True
        except Exception:     # noqa
            return True
        return False

    def _cell_is_ref_target(self, sp, name):
        """a reference to a deleted object is a dangling handle (C13's subject), not a C02 dependency"""
        for s in self.g.rm.walk():
            for r in s.refs.values():
                if r.kind == "cell" and r.value[1] == name:
                    try:
                        if r.value[0] is sp or sp in R.mro(r.value[0]):
                            return True
                    except TypeError:
                        return True
        return False

    def _is_ref_target(self, sp):
        for s in self.g.rm.walk():
            for r in s.refs.values():
                if r.is_obj():
                    t = r.value if r.kind == "space" else r.value[0]
                    if t.is_within(sp):
                        return True
            if (not self.allow_del_base and s.formula is not None and s.formula.base is not None
                    and s.formula.base.is_within(sp)):
                return True
        return False

    def _bases_ok(self, sp, bases):
        old = sp.bases
        sp.bases = bases
        try:
            if R.has_cycle(self.g.rm):
                return False
            for s in self.g.rm.walk():
                R.mro(s)
            # kinds must agree along the MRO (modelx rejects a name that is a cells in one and a ref in another)
            for s in [sp] + self.g.rm.subs_of(sp):
                cells, refs, kids = set(), set(), set()
                for b in R.mro(s):
                    cells |= set(b.cells)
                    refs |= set(b.refs)
                    kids |= set(b.children)
                if cells & refs or cells & kids or refs & kids:
                    return False
            return True
        except TypeError:
            return False
        finally:
            sp.bases = old


def has_bad_mro(rm):
    try:
        for s in rm.walk():
            R.mro(s)
        return False
    except TypeError:
        return True
