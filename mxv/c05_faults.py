"""Shared fault workload of C05 (a failed evaluation leaves a consistent, retryable state)
and C17 (the error traceback is exactly the chain that was executing).

What is here
* a generator of DAG-shaped models (`gen_spec`): cells c0..cN in space A calling lower-ranked cells
  through plain / keyword / list-comprehension / generator-expression / lambda / nested-def spellings,
  optionally wrapped in try/finally, try/except-nonmatching, bare re-raise and converting handlers;
  self recursion; calls into a child space, into and out of ItemSpaces (the space formula is on the
  chain); references read by name and by attribute path before/after the calls; failures that a
  formula handles itself (`boom`, `risky`); cached and uncached cells; allow_none at cells / space /
  model level.  The source of every formula is laid out by the generator, so the line of every call
  is known (`render_cell`).
* a pure evaluator of the same specs (`Pure`): values and the set of elements an evaluation reaches,
  without modelx.
* the probe (`Probe`): pre__/post__/spre__/spost__ are called from every formula body; ENTER/EXIT log;
  can be armed to raise a chosen exception at the n-th entry/exit of a chosen element or to make post__
  return None.  At the instant of the raise it records the chain of formula frames that are executing
  by walking the Python frames (element, line being executed, lines of nested frames) - an observation
  that does not use modelx' own call stack.
* LINE failpoints (`LineInjector`): sys.monitoring LINE events on the code objects of the formulas;
  raises at the k-th line event of an evaluation.
* `FaultRunner`: builds the model, runs the clean evaluation, enumerates every ENTER/EXIT event as a
  failure point, executes fault sequences (fail / fail,fail / fail,edit; cold and warm; FormulaError on
  and off) and hands every observation to the judge of the property (mxv/props/c05.py, c17.py).
"""
import hashlib
import json
import random
import sys

from .mxutil import mx, Inconclusive, executor_idle, sanity
from modelx.core.errors import FormulaError, NoneReturnedError, DeepReferenceError   # noqa: F401

MODEL = "M"


# ---------------------------------------------------------------------------------------------
# exception kinds
class UserErr(Exception):
    pass


class UserBase(BaseException):
    pass


class Never(Exception):
    """named in except clauses that must never match"""


class Converted(Exception):
    """raised by a handler inside a formula in place of the exception it caught"""
    probe = None

    def __init__(self, *a):
        Exception.__init__(self, *a)
        p = Converted.probe
        if p is not None:
            p.note_raise(self, sys._getframe(1), converted=True)


KINDS = {
    "ValueError": ValueError, "ZeroDivisionError": ZeroDivisionError, "KeyError": KeyError,
    "UserErr": UserErr, "StopIteration": StopIteration, "RecursionError": RecursionError,
    "UserBase": UserBase, "KeyboardInterrupt": KeyboardInterrupt, "SystemExit": SystemExit,
    "GeneratorExit": GeneratorExit, "IndexError": IndexError,
}
# IndexError is what the formulas' own handlers catch (boom / risky): it is injected everywhere except
# inside those try blocks, so that a handled and an escaping failure of the same type meet in one history
HANDLED_INSIDE = ("boom", "risky")
EXC_KINDS = list(KINDS)
BASE_ONLY = {"UserBase", "KeyboardInterrupt", "SystemExit", "GeneratorExit"}


def category(kind):
    if kind == "none":
        return "none"
    if kind in BASE_ONLY:
        return "base-exception"
    return "exception"


def attempt(fn, *a, **k):
    """('ok', value) or ('exc', exception object) - whatever the exception derives from"""
    try:
        return ("ok", fn(*a, **k))
    except BaseException as e:      # noqa  injected kinds include BaseException subclasses
        return ("exc", e)


def is_subseq(a, b):
    it = iter(b)
    return all(any(x == y for y in it) for x in a)


def is_original(err, obj):
    """err is the injected object, or what Python itself made of it (PEP 479: StopIteration inside a
    generator becomes RuntimeError with the original as __cause__)"""
    if err is obj:
        return True
    if isinstance(obj, StopIteration) and isinstance(err, RuntimeError) and err.__cause__ is obj:
        return True
    return False


# ---------------------------------------------------------------------------------------------
# probe
class Probe:
    def __init__(self):
        self.log = []           # ("E"|"X", space evalrepr, name, key)
        self.stack = []         # entered, not yet exited (may hold stale entries of handled failures)
        self.maxdepth = 0
        self.armed = None
        self.last = None        # what was recorded at the instant of the most recent raise
        self.codes = {}         # code object of a formula -> (element name, parameter name)
        self.frames_on = True

    # -- called from formulas
    def pre(self, space, name, key):
        el = (space._evalrepr, name, tuple(key))
        self.log.append(("E",) + el)
        self.stack.append(el)
        if len(self.stack) > self.maxdepth:
            self.maxdepth = len(self.stack)
        a = self.armed
        if a is not None and a["when"] == "pre" and a["el"] == el and not a["fired"]:
            a["seen"] += 1
            if a["seen"] == a["occ"]:
                a["fired"] = True
                obj = KINDS[a["kind"]]("injected at pre %s" % (el,))
                self.note_raise(obj, sys._getframe(1))
                raise obj
        return None

    def post(self, space, name, key, value):
        el = (space._evalrepr, name, tuple(key))
        a = self.armed
        if a is not None and a["when"] == "post" and a["el"] == el and not a["fired"]:
            a["seen"] += 1
            if a["seen"] == a["occ"]:
                a["fired"] = True
                if a["kind"] == "none":
                    self.note_raise(None, sys._getframe(1))
                    return None
                obj = KINDS[a["kind"]]("injected at post %s" % (el,))
                self.note_raise(obj, sys._getframe(1))
                raise obj
        self.log.append(("X",) + el)
        self._pop(el)
        return value

    def spre(self, space, key):
        return self.pre(space, "<space>", key)

    def spost(self, space, key, value):
        return self.post(space, "<space>", key, value)

    def _pop(self, el):
        while self.stack and self.stack[-1] != el:
            self.stack.pop()
        if self.stack:
            self.stack.pop()

    # -- harness side
    def reset(self):
        self.log = []
        self.stack = []
        self.maxdepth = 0
        self.last = None
        self.armed = None

    def arm(self, when, el, kind, occ=1):
        self.armed = {"when": when, "el": tuple(el[:2]) + (tuple(el[2]),), "kind": kind, "occ": occ,
                      "seen": 0, "fired": False}

    def disarm(self):
        a, self.armed = self.armed, None
        return a

    def note_raise(self, obj, frame, converted=False, line=None):
        self.last = {"obj": obj, "converted": converted, "nlog": len(self.log),
                     "frames": self.frames_chain(frame) if self.frames_on else None,
                     "stack": list(self.stack), "line": line}

    def frames_chain(self, frame):
        """formula frames now executing, outermost first:
        {"el": (space repr, name, key), "line": line being executed, "inner": lines of nested frames}"""
        out = []
        inner = []
        f = frame
        while f is not None:
            c = f.f_code
            reg = self.codes.get(c)
            if reg is not None:
                name, param = reg
                try:
                    sp = f.f_globals["_space"]._evalrepr
                    key = (f.f_locals[param],)
                except Exception as e:     # noqa
                    raise Inconclusive("cannot read a formula frame: %r" % (e,))
                out.append({"el": (sp, name, key), "line": f.f_lineno, "inner": inner})
                inner = []
            elif c.co_filename == "<string>":
                inner.append(f.f_lineno)
            f = f.f_back
        out.reverse()
        return out

    def completed(self, start=0, end=None):
        return [e[1:] for e in self.log[start:end] if e[0] == "X"]

    def entered(self, start=0, end=None):
        return [e[1:] for e in self.log[start:end] if e[0] == "E"]


def all_codes(code):
    yield code
    for k in code.co_consts:
        if hasattr(k, "co_code"):
            yield from all_codes(k)


class LineInjector:
    """sys.monitoring LINE failpoints restricted to the code objects of formulas"""
    TOOL = 4

    def __init__(self, probe):
        self.probe = probe
        self.n = 0
        self.k = None
        self.kind = None
        self.fired = None
        self.active = False
        self.codes = []

    def start(self, k=None, kind=None):
        mon = sys.monitoring
        try:
            if mon.get_tool(self.TOOL) is None:
                mon.use_tool_id(self.TOOL, "mxv_c05_line")
            mon.register_callback(self.TOOL, mon.events.LINE, self._cb)
            self.codes = []
            for c in list(self.probe.codes):
                for cc in all_codes(c):
                    mon.set_local_events(self.TOOL, cc, mon.events.LINE)
                    self.codes.append(cc)
        except Exception as e:     # noqa
            raise Inconclusive("sys.monitoring not usable: %r" % (e,))
        self.n = 0
        self.k = k
        self.kind = kind
        self.fired = None
        self.active = True

    def stop(self):
        mon = sys.monitoring
        self.active = False
        for cc in self.codes:
            try:
                mon.set_local_events(self.TOOL, cc, 0)
            except Exception:      # noqa
                pass
        self.codes = []
        try:
            mon.register_callback(self.TOOL, mon.events.LINE, None)
            mon.free_tool_id(self.TOOL)
        except Exception:      # noqa
            pass

    def _cb(self, code, line):
        if not self.active:
            return None
        self.n += 1
        if self.k is not None and self.n == self.k and self.fired is None:
            obj = KINDS[self.kind]("injected at line event %d (%s:%d)" % (self.n, code.co_name, line))
            self.fired = (code.co_name, line)
            self.probe.note_raise(obj, sys._getframe(1), line=line)
            raise obj
        return None


# ---------------------------------------------------------------------------------------------
# specs
ARGS = ["x", "x", "0", "1"]
FORMS = ["plain", "plain", "plain", "kw", "listcomp", "gen", "lam", "ndef"]
WRAPS = ["finally", "nomatch", "reraise", "convert"]
REF_HOWS = ["name", "_space", "P_", "_model"]
AN = [None, None, None, True, False]


def gen_spec(rnd, profile="c05"):
    c17 = profile == "c17"
    n = rnd.randint(1, 8) if c17 else rnd.randint(2, 7)
    chainy = rnd.random() < (0.6 if c17 else 0.35)
    pwrap = 0.45 if c17 else 0.2
    spec = {
        "refs": {"k": rnd.randint(1, 9), "rate": rnd.randint(1, 9), "bad": rnd.random() < 0.7,
                 "w": rnd.randint(1, 9), "g": rnd.randint(1, 9)},
        "allow_none": {"model": rnd.choice([False, False, True]), "A": rnd.choice(AN), "Ch": rnd.choice(AN),
                       "B": rnd.choice(AN)},
        "bc": {"cached": rnd.random() > 0.2, "calls_c0": rnd.random() < 0.4, "allow_none": rnd.choice(AN)},
        "d": {"cached": rnd.random() > 0.2, "allow_none": rnd.choice(AN)},
        "cells": [], "x0": rnd.randint(0, 2),
    }
    for i in range(n):
        terms = []
        callees = []
        if i > 0 and (chainy or rnd.random() < 0.5):
            callees.append(i - 1)
        for j in rnd.sample(range(i), min(i, rnd.randint(0, 2))):
            if j not in callees or rnd.random() < 0.3:
                callees.append(j)
        for j in callees:
            form = rnd.choice(FORMS)
            t = {"t": "call", "callee": j, "arg": rnd.choice(ARGS), "form": form}
            if form == "plain" and rnd.random() < pwrap:
                t["wrap"] = rnd.choice(WRAPS)
            terms.append(t)
        if rnd.random() < 0.3:
            terms.append({"t": "self"})
        if i >= 1 and rnd.random() < 0.3:
            terms.append({"t": "item", "arg": rnd.choice(ARGS), "sub": rnd.random() < 0.5})
        if rnd.random() < 0.25:
            terms.append({"t": "child", "arg": rnd.choice(ARGS)})
        if rnd.random() < 0.6:
            for _ in range(rnd.randint(1, 2)):
                terms.append({"t": "ref", "how": rnd.choice(REF_HOWS)})
        if rnd.random() < 0.2:
            terms.append({"t": "boom"})
        if rnd.random() < 0.2:
            terms.append({"t": "rboom"})
        rnd.shuffle(terms)
        spec["cells"].append({"cached": rnd.random() > 0.25, "allow_none": rnd.choice(AN), "terms": terms})
    return spec


SPACE_FORMULA = "def _formula(p):\n    spre__(_space, (p,))\n    return spost__(_space, (p,), None)"
BOOM_SRC = "def boom(x):\n    pre__(_space, 'boom', (x,))\n    raise IndexError('always')"
RISKY_SRC = ("def risky(x):\n    pre__(_space, 'risky', (x,))\n    t0 = P_.bad\n    if t0:\n"
             "        raise IndexError('risky')\n    return post__(_space, 'risky', (x,), x)")
HCATCH_SRC = ("def hcatch(x):\n    pre__(_space, 'hcatch', (x,))\n    try:\n        boom(x)\n"
              "    except IndexError:\n        pass\n    return post__(_space, 'hcatch', (x,), x)")
D_SRC = "def d(x):\n    pre__(_space, 'd', (x,))\n    t0 = _space.w\n    return post__(_space, 'd', (x,), t0 + x + 10)"


def bc_src(calls_c0):
    if calls_c0:
        return ("def bc(x):\n    pre__(_space, 'bc', (x,))\n    t0 = p\n    t1 = A_.c0(x)\n"
                "    return post__(_space, 'bc', (x,), t0 + t1 + x)")
    return "def bc(x):\n    pre__(_space, 'bc', (x,))\n    t0 = p\n    return post__(_space, 'bc', (x,), t0 + x)"


def cname(i):
    return "c%d" % i


def render_cell(i, cell):
    """source text of cells c<i> and its line map:
    {"calls": {callee element name: [lines at which a call to it can be pending]}, "ret": return line}"""
    name = cname(i)
    lines = ["def %s(x):" % name, "    pre__(_space, '%s', (x,))" % name]
    calls = {}
    names = []

    def add_call(callee, ln):
        calls.setdefault(callee, [])
        if ln not in calls[callee]:
            calls[callee].append(ln)

    for ti, t in enumerate(cell["terms"]):
        v = "t%d" % ti
        names.append(v)
        k = t["t"]
        if k == "call":
            callee = cname(t["callee"])
            a = t["arg"]
            form = t["form"]
            wrap = t.get("wrap")
            if form == "plain":
                expr = "%s(%s)" % (callee, a)
            elif form == "kw":
                expr = "%s(x=%s)" % (callee, a)
            elif form == "listcomp":
                expr = "sum([%s(%s) for _ in range(1)])" % (callee, a)
            elif form == "gen":
                expr = "sum(%s(%s) for _ in range(1))" % (callee, a)
            elif form == "lam":
                expr = "(lambda q: %s(q))(%s)" % (callee, a)
            elif form == "ndef":
                lines.append("    def h%d(q):" % ti)
                lines.append("        return %s(q)" % callee)
                add_call(callee, len(lines))
                expr = "h%d(%s)" % (ti, a)
            else:
                raise ValueError(form)
            if wrap is None:
                lines.append("    %s = %s" % (v, expr))
                add_call(callee, len(lines))
            else:
                lines.append("    try:")
                lines.append("        %s = %s" % (v, expr))
                add_call(callee, len(lines))
                if wrap == "finally":
                    lines.append("    finally:")
                    lines.append("        done%d = True" % ti)
                elif wrap == "nomatch":
                    lines.append("    except Never__:")
                    lines.append("        %s = 0" % v)
                elif wrap == "reraise":
                    lines.append("    except BaseException:")
                    lines.append("        note%d = 'seen'" % ti)
                    lines.append("        raise")
                elif wrap == "convert":
                    lines.append("    except UserErr__:")
                    lines.append("        raise Conv__('%s')" % name)
                else:
                    raise ValueError(wrap)
        elif k == "self":
            lines.append("    %s = %s(x - 1) if x > 0 else 0" % (v, name))
            add_call(name, len(lines))
        elif k == "item":
            a = t["arg"]
            lines.append("    %s = B_[%s].bc(%s)" % (v, a, a) if t.get("sub") else "    %s = B_(%s).bc(%s)" % (v, a, a))
            add_call("<space>", len(lines))
            add_call("bc", len(lines))
        elif k == "child":
            lines.append("    %s = Ch.d(%s)" % (v, t["arg"]))
            add_call("d", len(lines))
        elif k == "ref":
            how = t["how"]
            expr = {"name": "k", "_space": "_space.k", "P_": "P_.rate", "_model": "_model.g"}[how]
            lines.append("    %s = %s" % (v, expr))
        elif k in ("boom", "rboom"):
            callee = "boom" if k == "boom" else "risky"
            if k == "rboom":
                # the caller reads the reference that decides the callee's failure itself: a dependency that
                # exists only through a handled exception is not recorded by modelx (a C02 matter, not C05)
                lines.append("    %s = P_.bad" % v)
            lines.append("    try:")
            lines.append("        %s = %s(x)" % (v, callee))
            add_call(callee, len(lines))
            lines.append("    except IndexError:")
            lines.append("        %s = 0" % v)
        else:
            raise ValueError(k)
    lines.append("    return post__(_space, '%s', (x,), %s)" % (name, " + ".join(names + ["x"])))
    return "\n".join(lines), {"calls": calls, "ret": len(lines), "pre": 2}


FIXED_LINES = {
    "boom": {"calls": {}, "pre": 2},
    "risky": {"calls": {}, "pre": 2},
    "hcatch": {"calls": {"boom": [4]}, "pre": 2},
    "d": {"calls": {}, "pre": 2},
    "<space>": {"calls": {}, "pre": 2},
}


def line_map(spec):
    lm = dict(FIXED_LINES)
    lm["bc"] = {"calls": {"c0": [4]} if spec["bc"]["calls_c0"] else {}, "pre": 2}
    for i, c in enumerate(spec["cells"]):
        lm[cname(i)] = render_cell(i, c)[1]
    return lm


def spec_hash(spec):
    return hashlib.sha256(json.dumps(spec, sort_keys=True).encode()).hexdigest()[:10]


# ---------------------------------------------------------------------------------------------
# pure evaluation of a spec
SP_A = MODEL + ".A"
SP_CH = MODEL + ".A.Ch"
SP_B = MODEL + ".B"


def sp_item(p):
    return "%s.B(%d)" % (MODEL, p)


class Pure:
    """values of a spec under given reference values, and the elements an evaluation reaches"""

    def __init__(self, spec, refs):
        self.spec = spec
        self.refs = refs
        self.memo = {}       # element -> value, every element reached (cached or not)
        self.spaces = set()  # ItemSpace arguments reached

    def cached(self, el):
        sp, name, _ = el
        if name == "<space>":
            return True
        if name in ("boom", "risky", "hcatch"):
            return True
        if name == "bc":
            return self.spec["bc"]["cached"]
        if name == "d":
            return self.spec["d"]["cached"]
        return self.spec["cells"][int(name[1:])]["cached"]

    def cell(self, i, x):
        el = (SP_A, cname(i), (x,))
        if el in self.memo:
            return self.memo[el]
        total = x
        for t in self.spec["cells"][i]["terms"]:
            k = t["t"]
            if k == "call":
                total += self.cell(t["callee"], self.arg(t["arg"], x))
            elif k == "self":
                total += self.cell(i, x - 1) if x > 0 else 0
            elif k == "item":
                a = self.arg(t["arg"], x)
                total += self.bc(a, a)
            elif k == "child":
                total += self.d(self.arg(t["arg"], x))
            elif k == "ref":
                total += self.refs[{"name": "k", "_space": "k", "P_": "rate", "_model": "g"}[t["how"]]]
            elif k == "boom":
                total += 0
            elif k == "rboom":
                total += 0 if self.refs["bad"] else self.risky(x)
        self.memo[el] = total
        return total

    @staticmethod
    def arg(a, x):
        return x if a == "x" else int(a)

    def risky(self, x):
        if self.refs["bad"]:
            raise IndexError("risky")
        self.memo[(SP_A, "risky", (x,))] = x
        return x

    def d(self, x):
        v = self.refs["w"] + x + 10
        self.memo[(SP_CH, "d", (x,))] = v
        return v

    def bc(self, p, x):
        self.spaces.add(p)
        self.memo[(SP_B, "<space>", (p,))] = True
        el = (sp_item(p), "bc", (x,))
        if el in self.memo:
            return self.memo[el]
        v = p + x + (self.cell(0, x) if self.spec["bc"]["calls_c0"] else 0)
        self.memo[el] = v
        return v

    def hcatch(self, x):
        self.memo[(SP_A, "hcatch", (x,))] = x
        return x

    def query(self, q):
        """q = [space tag, name, x] or ["B", p, "bc", x]; returns value or ["ERR", class name]"""
        try:
            if q[0] == "B":
                return self.bc(q[1], q[3])
            name, x = q[1], q[2]
            if name == "boom":
                return ["ERR", "IndexError"]
            if name == "risky":
                return self.risky(x)
            if name == "hcatch":
                return self.hcatch(x)
            if name == "d":
                return self.d(x)
            return self.cell(int(name[1:]), x)
        except IndexError:
            return ["ERR", "IndexError"]

    def held(self):
        return {el: v for el, v in self.memo.items() if self.cached(el)}


def full_queries(spec):
    qs = []
    for x in (0, 1, 2):
        for i in range(len(spec["cells"])):
            qs.append(["A", cname(i), x])
        qs.append(["Ch", "d", x])
        qs.append(["B", x, "bc", x])
        qs.append(["A", "risky", x])
        qs.append(["A", "hcatch", x])
    qs.append(["B", 2, "bc", 0])
    qs.append(["A", "boom", 0])
    return qs


# ---------------------------------------------------------------------------------------------
# the live model
def tuplize(k):
    if k is None:
        return ()
    return k if isinstance(k, tuple) else (k,)


def held_all(m):
    """{element: value} of everything that holds a value, ItemSpaces included
    (an existing ItemSpace is the element (base space repr, '<space>', args) with value True)"""
    out = {}

    def visit(space):
        for c in space.cells.values():
            for k, v in dict(c).items():
                out[(space._evalrepr, c.name, tuplize(k))] = v
        for ch in getattr(space, "named_spaces", {}).values():
            visit(ch)
        for k, isp in getattr(space, "itemspaces", {}).items():
            out[(space._evalrepr, "<space>", tuplize(k))] = True
            visit(isp)
    for s in m.spaces.values():
        visit(s)
    return out


def resolve_allow_none(spec, el):
    """(resolved value, level that decided) by the documented rule: the cells' own setting, else its
    space's, else the parent space's ..., else the model's"""
    sp, name, _ = el
    an = spec["allow_none"]
    if name == "bc":
        chain = [("cells", spec["bc"]["allow_none"]), ("space", an["B"])]
    elif name == "d":
        chain = [("cells", spec["d"]["allow_none"]), ("space", an["Ch"]), ("parent-space", an["A"])]
    elif name in ("boom", "risky", "hcatch"):
        chain = [("space", an["A"])]
    else:
        chain = [("cells", spec["cells"][int(name[1:])]["allow_none"]), ("space", an["A"])]
    for level, v in chain:
        if v is not None:
            return bool(v), level
    return bool(an["model"]), "model"


class Session:
    """the live model of a spec, its probe and the current reference values"""

    def __init__(self, spec):
        self.spec = spec
        self.refs = dict(spec["refs"])
        self.probe = Probe()
        Converted.probe = self.probe
        self.lines = line_map(spec)
        self.sources = {}
        self.m = None
        self._pure = {}
        self.build()

    def build(self):
        spec = self.spec
        p = self.probe
        m = mx.new_model(MODEL)
        self.m = m
        m.pre__, m.post__, m.spre__, m.spost__ = p.pre, p.post, p.spre, p.spost
        m.Conv__, m.Never__, m.UserErr__ = Converted, Never, UserErr
        m.g = self.refs["g"]
        an = spec["allow_none"]
        if an["model"]:
            m.allow_none = True
        A = m.new_space("A")
        P = m.new_space("P")
        B = m.new_space("B", formula=SPACE_FORMULA)
        Ch = A.new_space("Ch")
        A.k = self.refs["k"]
        P.rate = self.refs["rate"]
        P.bad = self.refs["bad"]
        Ch.w = self.refs["w"]
        A.absref(B_=B, P_=P)
        B.absref(A_=A)
        for sp, key in ((A, "A"), (Ch, "Ch"), (B, "B")):
            if an[key] is not None:
                sp.allow_none = an[key]
        c = Ch.new_cells("d", formula=D_SRC, is_cached=spec["d"]["cached"])
        if spec["d"]["allow_none"] is not None:
            c.allow_none = spec["d"]["allow_none"]
        A.new_cells("boom", formula=BOOM_SRC)
        A.new_cells("risky", formula=RISKY_SRC)
        A.new_cells("hcatch", formula=HCATCH_SRC)
        for i, cell in enumerate(spec["cells"]):
            src = render_cell(i, cell)[0]
            self.sources[cname(i)] = src
            c = A.new_cells(cname(i), formula=src, is_cached=cell["cached"])
            if cell["allow_none"] is not None:
                c.allow_none = cell["allow_none"]
        c = B.new_cells("bc", formula=bc_src(spec["bc"]["calls_c0"]), is_cached=spec["bc"]["cached"])
        if spec["bc"]["allow_none"] is not None:
            c.allow_none = spec["bc"]["allow_none"]
        self.register_codes()

    def register_codes(self):
        m = self.m
        codes = {}
        try:
            for c in list(m.A.cells.values()) + [m.A.Ch.d, m.B.bc]:
                codes[c._impl.altfunc.fresh.altfunc.__code__] = (c.name, "x")
            codes[m.B._impl.altfunc.fresh.altfunc.__code__] = ("<space>", "p")
        except AttributeError as e:
            raise Inconclusive("formula code objects not reachable: %s" % e)
        self.probe.codes = codes

    def close(self):
        Converted.probe = None
        try:
            self.m.close()
        except Exception:      # noqa
            pass

    # -- oracle
    def pure(self):
        key = tuple(sorted(self.refs.items()))
        if key not in self._pure:
            pu = Pure(self.spec, dict(self.refs))
            vals = [pu.query(q) for q in full_queries(self.spec)]
            self._pure[key] = (pu, vals)
        return self._pure[key]

    def pure_top(self):
        pu = Pure(self.spec, dict(self.refs))
        v = pu.cell(len(self.spec["cells"]) - 1, self.spec["x0"])
        return pu, v

    # -- live access
    def top(self):
        return self.m.A.cells[cname(len(self.spec["cells"]) - 1)]

    def top_el(self):
        return (SP_A, cname(len(self.spec["cells"]) - 1), (self.spec["x0"],))

    def call_top(self):
        return attempt(self.top(), self.spec["x0"])

    def live_query(self, q):
        """value or ["ERR", class name of the original exception]"""
        m = self.m
        if q[0] == "B":
            r = attempt(lambda: m.B(q[1]).bc(q[3]))
        elif q[0] == "Ch":
            r = attempt(m.A.Ch.d, q[2])
        else:
            r = attempt(m.A.cells[q[1]], q[2])
        if r[0] == "ok":
            return r[1]
        e = r[1]
        if isinstance(e, FormulaError):
            err = mx.get_error()
            return ["ERR", type(err).__name__]
        return ["ERR", "raw:" + type(e).__name__]

    def clear_element(self, el):
        """public-API clear of one element (only when it can exist)"""
        sp, name, key = el
        m = self.m
        if name == "<space>":
            if key[0] in m.B.itemspaces:
                m.B.clear_at(*key)
            return
        if sp == SP_A:
            c = m.A.cells[name]
        elif sp == SP_CH:
            c = m.A.Ch.d
        else:
            p = int(sp[sp.index("(") + 1:-1])
            if p not in m.B.itemspaces:
                return
            c = m.B.itemspaces[p].cells[name]
        if c.is_cached:
            c.clear_at(*key)


def el_type(S, el):
    sp, name, _ = el
    if name == "<space>":
        return "space-formula"
    pu = S.pure()[0]
    cached = "cached" if pu.cached(el) else "uncached"
    if sp == SP_A:
        return cached
    if sp == SP_CH:
        return "child-" + cached
    return "item-" + cached


def node_el(node):
    """element triple of a node returned by get_traceback()"""
    o = node.obj
    args = tuple(node.args)
    if hasattr(o, "cells") and hasattr(o, "spaces"):      # a space: its formula was executing
        return (o._evalrepr, "<space>", args)
    return (o.parent._evalrepr, o.name, args)


def jel(el):
    return [el[0], el[1], list(el[2])]


def uel(el):
    return (el[0], el[1], tuple(el[2]))


# ---------------------------------------------------------------------------------------------
# the fault runner
class FaultRunner:
    """executes the fault plan of one case against a live model; the judge decides"""

    def __init__(self, case, judge, profile):
        self.case = case
        self.judge = judge
        self.profile = profile
        self.vio = []
        self.cnt = {}
        self.matrix = {}
        self.shapes = []
        self.sample = None
        self.S = None
        self.nontrivial = 0

    # -- bookkeeping
    def count(self, k, n=1):
        self.cnt[k] = self.cnt.get(k, 0) + n

    def cell(self, mname, cellname, n=1):
        d = self.matrix.setdefault(mname, {})
        d[cellname] = d.get(cellname, 0) + n

    def V(self, vkind_, sig, **detail):
        self.vio.append({"kind": vkind_, "signature": sig, "detail": detail})

    # -- main
    def run(self):
        case = self.case
        spec = case["spec"]
        self.S = S = Session(spec)
        try:
            self.clean_checks()
            if self.vio:
                return self.result()
            events = self.clean_top()
            if self.vio:
                return self.result()
            if "ops" not in case:
                case["ops"] = plan_ops(case, spec, events, self.nlines, S)
            points_case = case.get("kinds_per_point", 2) > 0
            if points_case:
                self.count("failure_points_in_clean_runs", len(events))
            else:
                self.count("line_events_in_clean_runs", self.nlines)
            self.covered = set()
            for op in case["ops"]:
                if op.get("op") == "nop":
                    continue
                self.do_op(op)
                if self.vio:
                    break
            if points_case:
                pts = {(("pre" if e[0] == "E" else "post"), e[1], e[2]) for e in events}
                self.count("failure_points_taken", len(pts & self.covered))
            else:
                self.count("line_events_taken", len({c for c in self.covered if c[0] == "line"}))
        finally:
            mx.use_formula_error(True)
            S.close()
        return self.result()

    def result(self):
        spec = self.case["spec"]
        return {"violations": self.vio, "counters": self.cnt, "matrix": self.matrix,
                "nontrivial": self.nontrivial > 0, "shapes": self.shapes,
                "case": self.case if self.vio else None, "sample": self.sample or {"spec_cells": len(spec["cells"])}}

    # -- step 1: the model without any fault computes what the pure evaluator says
    def clean_checks(self):
        S = self.S
        pu, vals = S.pure()
        qs = full_queries(S.spec)
        handled = any(t["t"] in ("boom", "rboom") for c in S.spec["cells"] for t in c["terms"])
        for q, want in zip(qs, vals):
            got = S.live_query(q)
            self.count("clean_value_checks")
            if got != want:
                if (handled or q[1] in ("hcatch", "risky")) and self.judge.ID == "C05":
                    self.V("clean-handled", "evaluation in which a formula handled a callee's failure gives a wrong "
                           "result", query=q, got=got, expected=want)
                    return
                raise Inconclusive("clean model disagrees with the pure evaluator on %r: %r != %r" % (q, got, want))
        h = held_all(S.m)
        if h != pu.held():
            d = sorted(set(h.items()) ^ set(pu.held().items()), key=repr)[:4]
            if handled and self.judge.ID == "C05":
                self.V("clean-handled-held", "held values after evaluations with handled failures differ from the "
                       "elements that completed", diff=[repr(x) for x in d])
                return
            raise Inconclusive("held set of the clean model differs from the pure evaluator: %r" % (d,))
        p = sanity(S.m)
        if p and self.judge.ID != "C05":
            raise Inconclusive("library self-check fails on the clean model: %r" % (p[:2],))
        if p:
            self.V("clean-sanity", "library self-check fails after evaluations without an escaping failure",
                   probs=p[:3])

    # -- step 2: the clean evaluation of the top query: its events are the failure points
    def clean_top(self):
        S = self.S
        S.m.clear_all()
        S.probe.reset()
        self.nlines = 0
        li = None
        if self.case.get("lines"):
            li = LineInjector(S.probe)
            li.start()
        try:
            r = S.call_top()
        finally:
            if li is not None:
                li.stop()
                self.nlines = li.n
        want = S.pure_top()[1]
        if r[0] != "ok" or r[1] != want:
            raise Inconclusive("clean top evaluation gave %r, expected %r" % (r, want))
        occ = {}
        events = []
        for e in S.probe.log:
            k = (e[0], e[1:])
            occ[k] = occ.get(k, 0) + 1
            events.append((e[0], e[1:], occ[k]))
        self.clean_log = list(S.probe.log)
        return events

    def ancestors(self, when, el, occ):
        """cached elements that were executing when the occ-th ENTER/EXIT of el happened in the clean run"""
        stack = []
        seen = 0
        for e in self.clean_log:
            cur = e[1:]
            if e[0] == "E":
                stack.append(cur)
                if when == "pre" and cur == el:
                    seen += 1
                    if seen == occ:
                        return list(stack)
            else:
                if when == "post" and cur == el:
                    seen += 1
                    if seen == occ:
                        while stack and stack[-1] != cur:
                            stack.pop()
                        return list(stack)
                while stack and stack[-1] != cur:
                    stack.pop()
                if stack:
                    stack.pop()
        return [el]

    # -- one fault sequence
    def do_op(self, op):
        S = self.S
        m = S.m
        self.count("sequences")
        r = attempt(m.clear_all)
        if r[0] == "exc":
            self.V("clear-raised", "clear_all raised %s after a repaired failure" % type(r[1]).__name__,
                   msg=str(r[1])[:200])
            return
        # every sequence starts from the reference values the clean run was recorded with
        for n, v in S.spec["refs"].items():
            if S.refs[n] != v:
                self.apply_edit({"kind": "ref", "name": n, "value": v}, counted=False)
                if self.vio:
                    return
        S.probe.reset()
        seqname = op.get("seq", "retry")
        try:
            if op.get("raw"):
                mx.use_formula_error(False)
            for h in op.get("hist", []):
                self.count("history_steps")
                self.cell("history", h)
                if h == "unhandled":
                    attempt(m.A.boom, 0)
                elif h == "handled":
                    attempt(m.A.hcatch, 0)
                elif h == "handled_cleared":
                    attempt(m.A.hcatch, 0)
                    attempt(m.clear_all)
            if op.get("warm") is not None:
                for q in op["warm"]:
                    S.live_query(q)
                f0 = op["faults"][0]
                if "at" in f0:
                    when, el, occ = f0["at"][0], uel(f0["at"][1]), f0["at"][2]
                    for a in self.ancestors(when, el, occ) + [el]:
                        S.clear_element(a)
            for fi, fault in enumerate(op["faults"]):
                obs = self.inject(fault)
                if obs is None:
                    self.count("fault_not_reached")
                    continue
                obs["op"] = op
                obs["index"] = fi
                self.count("failures_injected")
                if "line" in fault:
                    self.count("line_failures")
                    self.covered.add(("line", fault["line"]))
                else:
                    self.covered.add((fault["at"][0], uel(fault["at"][1]), fault["at"][2]))
                self.cell("sequence", "%s%s%s" % (seqname, "+warm" if op.get("warm") is not None else "",
                                                  "+raw" if op.get("raw") else ""))
                self.cell("kind x when", "%s|%s" % (fault["kind"], obs["when"]))
                self.cell("element type x when", "%s|%s" % (obs["eltype"], obs["when"]))
                self.cell("chain depth", str(min(len(obs["chain"]), 9)))
                if len(obs["chain"]) >= 2 or obs["completed"]:
                    self.nontrivial += 1
                    self.shapes.append("%s:%s:%s:%s:%s:%d" % (self.sh, obs["when"], fault["kind"],
                                                               "/".join(map(str, obs["point"])), seqname, fi))
                self.judge.after_failure(self, obs)
                if self.sample is None and len(obs["chain"]) >= 2:
                    self.sample = self.describe(op, obs)
                if self.vio:
                    return
            mx.use_formula_error(True)
            if op.get("edit"):
                self.apply_edit(op["edit"])
                if self.vio:
                    return
            self.judge.after_sequence(self, op)
        finally:
            mx.use_formula_error(True)
            S.probe.disarm()

    @property
    def sh(self):
        if not hasattr(self, "_sh"):
            self._sh = spec_hash(self.case["spec"])
        return self._sh

    def describe(self, op, obs):
        S = self.S
        return {"formulas": {n: s for n, s in list(S.sources.items())[-3:]},
                "n_cells": len(S.spec["cells"]), "top": list(S.top_el()[1:2]) + [S.spec["x0"]],
                "sequence": {k: v for k, v in op.items() if k != "warm"},
                "observed": {"raised": type(obs["exc"]).__name__ if obs["exc"] is not None else None,
                             "original": repr(obs["err"])[:80],
                             "chain_at_raise": [jel(e) for e in obs["chain"]],
                             "lines": obs["lines"],
                             "traceback": [[jel(e), ln] for e, ln in obs["tb"]] if obs["tb"] is not None else None,
                             "completed_before": [jel(e) for e in obs["completed"]][:8],
                             "held_after": len(obs["after"])}}

    def inject(self, fault):
        """arm, evaluate the top query, disarm; returns the observation or None when the fault did not fire"""
        S = self.S
        p = S.probe
        before = held_all(S.m)
        n0 = len(p.log)
        p.last = None
        li = None
        if "line" in fault:
            li = LineInjector(p)
            li.start(fault["line"], fault["kind"])
            try:
                r = S.call_top()
            finally:
                li.stop()
            fired = li.fired is not None
            when = "line"
            point = ("line", fault["line"])
        else:
            when, el, occ = fault["at"][0], uel(fault["at"][1]), fault["at"][2]
            p.arm(when, el, fault["kind"], occ)
            try:
                r = S.call_top()
            finally:
                a = p.disarm()
            fired = a["fired"]
            point = (el[1], el[2][0], occ)
        if not fired:
            return None
        last = p.last
        if last is None or last["frames"] is None:
            raise Inconclusive("the probe did not record the raise")
        raw = bool(not mx.use_formula_error())
        exc = r[1] if r[0] == "exc" else None
        err = None
        if isinstance(exc, FormulaError):
            err = mx.get_error()
        elif raw:
            err = exc
        frames = last["frames"]
        chain = [f["el"] for f in frames]
        if when == "line" and not chain:
            raise Inconclusive("line failpoint fired outside a formula")
        # the frame walk must agree with the probe's own stack (stale entries of handled failures aside;
        # a line failpoint can fire before pre__ of the innermost formula ran)
        st = last["stack"]
        if not (is_subseq(chain, st) or (when == "line" and is_subseq(chain[:-1], st))):
            raise Inconclusive("frame walk %r is not a subsequence of the probe stack %r" % (chain, st))
        try:
            tb = [(node_el(n), ln) for n, ln in mx.get_traceback()]
        except Exception as e:     # noqa
            tb = None
            self.tb_error = repr(e)
        completed = [e[1:] for e in p.log[n0:] if e[0] == "X"]
        target = chain[-1]
        return {"fault": fault, "when": when, "point": point, "result": r, "exc": exc, "err": err, "raw": raw,
                "injected": last["obj"], "converted": last["converted"], "frames": frames, "chain": chain,
                "lines": [[f["line"]] + list(f["inner"]) for f in frames],
                "completed": completed, "entered": [e[1:] for e in p.log[n0:] if e[0] == "E"],
                "before": before, "after": held_all(S.m), "tb": tb, "idle": executor_idle(),
                "eltype": el_type(S, target), "kind": fault["kind"], "fired_line": last["line"],
                "get_error": attempt(mx.get_error)}

    def apply_edit(self, ed, counted=True):
        S = self.S
        m = S.m
        k = ed["kind"]
        if counted:
            self.count("edits_after_failure")
            self.cell("edit after failure", k if k != "ref" else "ref:" + ed["name"])

        def go():
            if k == "ref":
                n, v = ed["name"], ed["value"]
                if n == "k":
                    m.A.k = v
                elif n == "rate":
                    m.P.rate = v
                elif n == "bad":
                    m.P.bad = v
                elif n == "w":
                    m.A.Ch.w = v
                elif n == "g":
                    m.g = v
                S.refs[n] = v
            elif k == "clear_all":
                m.clear_all()
            elif k == "clear_cells":
                m.A.cells[cname(ed["cell"] % len(S.spec["cells"]))].clear_all()
            elif k == "reformula":
                n = cname(ed["cell"] % len(S.spec["cells"]))
                m.A.cells[n].formula = S.sources[n]
                S.register_codes()
            elif k == "clear_top":
                S.clear_element(S.top_el())
            else:
                raise ValueError(k)
        r = attempt(go)
        if r[0] == "exc":
            self.V("edit-raised", "a valid edit after a failed evaluation raised %s" % type(r[1]).__name__,
                   edit=ed, msg=str(r[1])[:200])

    def retry(self, op):
        """faults disarmed: the top query and then the full query set against the no-failure oracle"""
        S = self.S
        S.probe.disarm()
        pu, vals = S.pure()
        want_top = S.pure_top()[1]
        r = S.call_top()
        self.count("retry_checks")
        if r[0] == "exc":
            e = r[1]
            self.V("retry-raised", "evaluation after a failure raised %s" % type(e).__name__,
                   seq=_seqdesc(op), msg=str(e)[:200],
                   original=repr(mx.get_error())[:120] if isinstance(e, FormulaError) else None)
            return
        if r[1] != want_top:
            self.V("retry-value", "evaluation after a failure returns a value different from the no-failure value",
                   seq=_seqdesc(op), got=r[1], expected=want_top)
            return
        qs = full_queries(S.spec)
        for q, want in zip(qs, vals):
            got = S.live_query(q)
            self.count("later_value_checks")
            if got != want:
                self.V("later-value", "a later evaluation differs from the no-failure value"
                       if not (isinstance(got, list) and got[0] == "ERR") else
                       "a later evaluation raised %s" % got[1], seq=_seqdesc(op), query=q, got=got, expected=want)
                return
        h = held_all(S.m)
        self.count("held_after_retry_checks")
        if h != pu.held():
            d = sorted(set(h.items()) ^ set(pu.held().items()), key=repr)[:4]
            self.V("later-held", "held values after the retry differ from those of a run without failure",
                   seq=_seqdesc(op), diff=[repr(x) for x in d])
            return
        p = sanity(S.m)
        self.count("sanity_checks")
        if p:
            self.V("later-sanity", "library self-check fails after failure and retry", seq=_seqdesc(op), probs=p[:3])


def _seqdesc(op):
    return {k: v for k, v in op.items() if k not in ("warm",)}


# ---------------------------------------------------------------------------------------------
# planning the fault sequences of a case
def plan_ops(case, spec, events, nlines, S):
    """every ENTER / EXIT event of the clean run is a failure point; kinds, sequence shapes and
    histories are drawn per point"""
    rnd = random.Random(case["seed"] ^ 0xC05)
    profile = case.get("profile", "c05")
    kpp = case.get("kinds_per_point", 2)
    points = []
    for ev, el, occ in events:
        points.append(("pre" if ev == "E" else "post", el, occ))
    ops = []
    qs = full_queries(spec)
    pu = S.pure()[0]

    def kinds_for(when, el):
        pool = [k for k in EXC_KINDS if not (k == "IndexError" and el[1] in HANDLED_INSIDE)]
        ks = pool if kpp >= len(pool) else rnd.sample(pool, kpp)
        ks = list(ks)
        if when == "post" and el[1] != "<space>" and pu.cached(el) and not resolve_allow_none(spec, el)[0]:
            if kpp >= len(pool) or rnd.random() < 0.6:
                ks.append("none")
        return ks

    def edit():
        k = rnd.choice(["ref", "ref", "ref", "clear_all", "clear_cells", "reformula", "clear_top"])
        if k == "ref":
            n = rnd.choice(["k", "rate", "bad", "w", "g"])
            return {"kind": "ref", "name": n, "value": (rnd.random() < 0.5) if n == "bad" else rnd.randint(1, 9)}
        if k in ("clear_cells", "reformula"):
            return {"kind": k, "cell": rnd.randrange(len(spec["cells"]))}
        return {"kind": k}

    for when, el, occ in (points if kpp > 0 else []):
        for ki, kind in enumerate(kinds_for(when, el)):
            op = {"op": "seq", "faults": [{"at": [when, jel(el), occ], "kind": kind}]}
            r = rnd.random()
            if r < 0.45:
                op["seq"] = "retry"
            elif r < 0.7:
                op["seq"] = "double"
                w2, el2, occ2 = rnd.choice(points)
                k2 = rnd.choice(kinds_for(w2, el2))
                op["faults"].append({"at": [w2, jel(el2), occ2], "kind": k2})
            else:
                op["seq"] = "edit"
                op["edit"] = edit()
            # the first sequence of every point starts cold and without history, so that the point is reached
            if ki > 0 and occ == 1 and rnd.random() < 0.3:
                op["warm"] = rnd.sample(qs, rnd.randint(1, min(6, len(qs))))
            if rnd.random() < 0.12:
                op["raw"] = True
            hp = 0.5 if profile == "c17" else 0.15
            if ki > 0 and rnd.random() < hp:
                op["hist"] = [rnd.choice(["unhandled", "handled", "handled_cleared"])
                              for _ in range(rnd.randint(1, 3))]
            ops.append(op)
    if case.get("lines"):
        ks = list(range(1, nlines + 1))
        maxl = case.get("max_lines")
        if maxl and len(ks) > maxl:
            ks = sorted(rnd.sample(ks, maxl))
        for k in ks:
            for kind in rnd.sample([k for k in EXC_KINDS if k != "IndexError"], case.get("kinds_per_line", 1)):
                op = {"op": "seq", "seq": "line", "faults": [{"line": k, "kind": kind}]}
                if rnd.random() < 0.3:
                    op["seq"] = "line+edit"
                    op["edit"] = edit()
                if rnd.random() < (0.5 if profile == "c17" else 0.1):
                    op["hist"] = [rnd.choice(["unhandled", "handled", "handled_cleared"])]
                ops.append(op)
    return ops


def expand_case(case, profile):
    if "spec" in case:
        return case
    c = dict(case)
    c["profile"] = profile
    c["spec"] = gen_spec(random.Random(case["seed"]), profile)
    return c


# ---------------------------------------------------------------------------------------------
# shrinking: first the fault sequences, then the model
def shrink_case(case, run_case, violations, deadline):
    import copy
    import time
    from .shrink import shrink_ops
    from .mxutil import reset_session
    want = {v.get("signature") for v in violations}
    if "ops" not in case:
        return None
    best = shrink_ops(case, run_case, violations, deadline) or copy.deepcopy(case)
    # keep only the last live op, then try to simplify the spec
    def still(c):
        reset_session()
        try:
            r = run_case(c)
        except Exception:      # noqa
            return False
        return bool(want & {v.get("signature") for v in (r.get("violations") or [])})

    def used_cells(c):
        names = set()
        for op in c["ops"]:
            for f in op.get("faults", []):
                if "at" in f:
                    names.add(f["at"][1][1])
        return names

    changed = True
    while changed and time.time() < deadline:
        changed = False
        cells = best["spec"]["cells"]
        for i in range(len(cells) - 1, -1, -1):
            for ti in range(len(cells[i]["terms"]) - 1, -1, -1):
                if time.time() > deadline:
                    break
                c = copy.deepcopy(best)
                del c["spec"]["cells"][i]["terms"][ti]
                if still(c):
                    best = c
                    cells = best["spec"]["cells"]
                    changed = True
    best["shrunk"] = True
    return best


# ---------------------------------------------------------------------------------------------
# chain models for the recursion-limit cases
def chain_sources(style):
    """{space: {cells name: (source, cached)}}, top cells, line of the recursive call"""
    def body(name, call, cachedflag):
        return ("def %s(x):\n    pre__(_space, '%s', (x,))\n    if x > 0:\n        t0 = %s + 1\n    else:\n"
                "        t0 = 0\n    return post__(_space, '%s', (x,), t0)" % (name, name, call, name), cachedflag)
    if style == "cached":
        return {"A": {"f": body("f", "f(x - 1)", True)}}, "f"
    if style == "uncached":
        return {"A": {"f": body("f", "f(x - 1)", False)}}, "f"
    if style == "mixed":
        return {"A": {"f": ("def f(x):\n    pre__(_space, 'f', (x,))\n    t0 = u(x)\n"
                            "    return post__(_space, 'f', (x,), t0)", True),
                      "u": body("u", "f(x - 1)", False)}}, "f"
    if style == "item":
        return {"A": {"f": ("def f(x):\n    pre__(_space, 'f', (x,))\n    t0 = B_[x].h(x)\n"
                            "    return post__(_space, 'f', (x,), t0)", True)},
                "B": {"h": body("h", "A_.f(x - 1)", True)}}, "f"
    raise ValueError(style)


def build_chain(style, probe):
    m = mx.new_model(MODEL)
    m.pre__, m.post__, m.spre__, m.spost__ = probe.pre, probe.post, probe.spre, probe.spost
    src, top = chain_sources(style)
    A = m.new_space("A")
    B = m.new_space("B", formula=SPACE_FORMULA)
    A.absref(B_=B)
    B.absref(A_=A)
    for sp, cells in src.items():
        for n, (s, cached) in cells.items():
            getattr(m, sp).new_cells(n, formula=s, is_cached=cached)
    return m, A.cells[top]


def expected_held_chain(style, x):
    """elements a complete evaluation of f(x) holds, with values"""
    out = {}
    for i in range(x + 1):
        if style in ("cached", "mixed", "item"):
            out[(SP_A, "f", (i,))] = i
        if style == "item":
            out[(SP_B, "<space>", (i,))] = True
            out[(sp_item(i), "h", (i,))] = i
    return out
