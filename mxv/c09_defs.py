"""Function objects with real source for the defcells redefinition cases of C09 (`@defcells(is_cached=...)` needs a
function whose source inspect can find)."""


def define(mx, space, variant, flag):
    """(re)define S.f through the decorator; flag None = plain @defcells(space=...)"""
    kw = {"space": space}
    if flag is not None:
        kw["is_cached"] = flag
    if variant == 0:
        @mx.defcells(**kw)
        def f(x):
            log.append(x)      # noqa: F821  (a reference of the space)
            return 2 * x
    else:
        @mx.defcells(**kw)
        def f(x):
            log.append(x)      # noqa: F821
            return 3 * x
    return f


def define_caller(mx, space):
    @mx.defcells(space=space)
    def g(x):
        return f(x) + 1        # noqa: F821
    return g


MULT = {0: 2, 1: 3}
