"""known_findings.json: read-only at run time.

Records:
  {"status": "known", "property": "C14", "signature": "...", "what_fails": "...", "witness": "findings/..."}
  {"status": "fixed", "property": "C11", "signature": "...", "line": "fixed: property=C11 <commit> <what failed>"}
Only records with status "known" suppress anything, and only a violation whose
mechanism signature is equal to the listed one.
"""
import json
import os

from . import env

PATH = os.path.join(env.VERIF, "known_findings.json")


def load_all():
    try:
        with open(PATH) as f:
            return json.load(f)
    except OSError:
        return []


def load_known(pid):
    return [r for r in load_all() if r.get("status") == "known" and r.get("property") == pid]


def match(known, violation):
    sig = violation.get("signature")
    for k in known:
        if k["signature"] == sig:
            return k
    return None
