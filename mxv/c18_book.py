"""Pure-Python half of the C18 check (no modelx import): the sequential bookkeeping
model of "which value is bound to which defined reference / which value has a spec at
which file location", and the seeded history generator that is driven by it.

Vocabulary of a history
  two model slots (0, 1), each model built as
      A (cells foo(i), scalar cells sc, child space A.Ch), B(bases A), C (cells foo), D(bases B)
  owners      "m" (the model), "A", "B", "C", "D", "A.Ch"
  ref names   x y z w            (disjoint from cells / space names)
  values      identified by a *key*: the index of the op that created them (int), "p<i>" for a plain
              (never spec'd) value made by op i, "obj:<path>" for a modelx object of the same model
  paths       relative ones below iox/ (so that a saved model's iox/ tree is exactly the spec files),
              "@abs/..." = absolute path below the scratch directory of the case
"""
import posixpath

OWNERS = ["m", "A", "B", "C", "D", "A.Ch"]
TOPS = ["A", "B", "C", "D"]
REFNAMES = ["x", "y", "z", "w"]
XLSX = ["iox/f0.xlsx", "iox/f1.xlsx", "iox/sub/f2.xlsx"]
CSV = ["iox/c0.csv", "iox/sub/c1.csv"]
PY = ["iox/m0.py", "iox/sub/m1.py"]
ABS = ["@abs/g0.xlsx", "@abs/h0.csv"]
ALIAS = {"iox/sub/../f0.xlsx": "iox/f0.xlsx", "iox/../iox/c0.csv": "iox/c0.csv",
         "iox/sub/../sub/f2.xlsx": "iox/sub/f2.xlsx"}
SHEETS = ["s0", "s1", "s2", None]
VKINDS = ["dfi", "dff", "ser", "mi", "stridx"]
OBJS = ["A.foo", "C", "A.Ch", "C.foo"]
BADNAMES = [("A", "1bad"), ("A", "foo"), ("A", "Ch"), ("m", "A"), ("B", "foo"), ("C", "_x"),
            ("A.Ch", "a b"), ("D", "")]
FLAVOURS = ["del_space", "scalar", "xbind", "dotdot", "respec"]


def norm(path):
    return posixpath.normpath(path)


def ftype_of(path):
    if path.endswith(".xlsx"):
        return "excel"
    if path.endswith(".csv"):
        return "csv"
    return "module"


def owner_kind(owner):
    return {"m": "model", "A": "base", "B": "sub", "D": "subsub", "C": "free", "A.Ch": "child"}.get(owner, owner)


class SlotBook:
    def __init__(self, idx):
        self.idx = idx
        self.open = True
        self.defined = {}                                   # (owner, name) -> key
        self.bases = {"B": ["A"], "D": ["B"], "C": [], "A": []}
        self.owners = list(OWNERS)

    def ancestors(self, owner):
        out, st = [], list(self.bases.get(owner, []))
        while st:
            b = st.pop(0)
            if b not in out:
                out.append(b)
                st.extend(self.bases.get(b, []))
        return out

    def derived_names(self, owner):
        own = {n for (o, n) in self.defined if o == owner}
        anc = self.ancestors(owner)
        return sorted({n for (o, n) in self.defined if o in anc} - own)

    def bound(self):
        return set(self.defined.values())

    def has_name(self, owner, name):
        return (owner, name) in self.defined or name in self.derived_names(owner)

    def can_define(self, owner, name):
        """modelx refuses to create a reference in a space when a sub space already has the name"""
        if owner == "m" or self.has_name(owner, name):
            return True
        return not any(self.has_name(x, name) for x in self.owners if owner in self.ancestors(x))

    def refs_of(self, key):
        return [on for on, k in self.defined.items() if k == key]


class Book:
    def __init__(self):
        self.slots = [SlotBook(0), SlotBook(1)]
        self.spec = {}         # key -> {"key", "slot", "path", "ftype", "sheet"}
        self.extra = []        # further specs of a value that already has one (flavour "respec")
        self.vinfo = {}        # key -> {"kind": pandas|module|plain, "slot", "vk"/"src"}

    # ---- file locations
    @staticmethod
    def group(slot, path):
        return None if path.startswith("@abs") else slot

    def all_specs(self):
        return list(self.spec.values()) + self.extra

    def same_file(self, slot, path):
        g, p = self.group(slot, path), norm(path)
        return [s for s in self.all_specs() if self.group(s["slot"], s["path"]) == g and norm(s["path"]) == p]

    def loc_clash(self, slot, path, ftype, sheet, ignore=None):
        for s in self.same_file(slot, path):
            if s is ignore:
                continue
            if ftype != "excel" or s["ftype"] != "excel" or sheet is None or s["sheet"] is None \
                    or sheet == s["sheet"]:
                return s
        return None

    # ---- edits
    def create(self, slot, owner, name, key, path, ftype, sheet, vinfo):
        d = {"key": key, "slot": slot, "path": path, "ftype": ftype, "sheet": sheet}
        if key in self.spec:            # a second spec for a value that has one (flavour "respec")
            self.extra.append(d)
        else:
            self.vinfo[key] = dict(vinfo, slot=slot)
            self.spec[key] = d
        self.slots[slot].defined[(owner, name)] = key

    def bind(self, slot, owner, name, key):
        self.slots[slot].defined[(owner, name)] = key

    def unbind(self, slot, owner, name):
        self.slots[slot].defined.pop((owner, name), None)

    def update(self, slot, old, new, vinfo=None):
        sb = self.slots[slot]
        for on, k in list(sb.defined.items()):
            if k == old:
                sb.defined[on] = new
        if new != old:
            if vinfo is not None:
                self.vinfo[new] = dict(vinfo, slot=slot)
            if old in self.spec:
                d = self.spec.pop(old)
                d["key"] = new
                if new in self.spec:        # the new value has a spec of its own: now two specs, one value
                    self.extra.append(d)
                else:
                    self.spec[new] = d
            for e in self.extra:
                if e["key"] == old:
                    e["key"] = new

    def settle(self):
        """specs whose value is bound to no defined reference of their model die; returns the dead keys"""
        dead = []
        for k, s in list(self.spec.items()):
            sb = self.slots[s["slot"]]
            if not sb.open or k not in sb.bound():
                dead.append(k)
                del self.spec[k]
        for e in list(self.extra):
            sb = self.slots[e["slot"]]
            if not sb.open or e["key"] not in sb.bound():
                self.extra.remove(e)
        return dead

    def close(self, slot):
        self.slots[slot].open = False
        self.slots[slot].defined = {}

    def new_model(self, slot):
        self.slots[slot] = SlotBook(slot)

    def del_space(self, slot, owner):
        sb = self.slots[slot]
        gone = [o for o in sb.owners if o == owner or o.startswith(owner + ".")]
        for o in gone:
            sb.owners.remove(o)
            sb.bases.pop(o, None)
        for o, bs in sb.bases.items():
            sb.bases[o] = [b for b in bs if b not in gone]
        for (o, n) in list(sb.defined):
            if o in gone:
                del sb.defined[(o, n)]

    def reopen(self, slot):
        """the model was written, closed and read back: values not bound anywhere have no object any more"""
        keep = set()
        for sb in self.slots:
            if sb.open:
                keep |= sb.bound()
        for k in list(self.vinfo):
            if self.vinfo[k]["slot"] == slot and k not in keep:
                del self.vinfo[k]

    # ---- views used by the generator
    def spec_refs(self, slot):
        sb = self.slots[slot]
        return [(o, n, k) for (o, n), k in sorted(sb.defined.items(), key=repr) if k in self.spec]

    def live_keys(self, slot):
        return sorted((k for k, s in self.spec.items() if s["slot"] == slot), key=repr)

    def known_keys(self, slot, kinds=("pandas", "module", "plain")):
        return sorted((k for k, v in self.vinfo.items() if v["slot"] == slot and v["kind"] in kinds), key=repr)


# ---------------------------------------------------------------------------------- generator
CORE_WEIGHTS = [
    ("new_pandas", 16), ("new_module", 4), ("bind_further", 15), ("rebind", 11), ("override", 6),
    ("delete", 17), ("delete_derived", 2), ("update", 6), ("add_base", 3), ("remove_base", 2),
    ("close", 1.5), ("new_model", 3), ("write_read", 2.5), ("reopen", 1.2), ("del_spec", 1.5),
    ("set_sheet", 2), ("set_path", 1.5), ("badname", 4), ("clash", 3), ("bind_dead", 2),
    ("badtype", 2),
]


class Gen:
    def __init__(self, rnd, flavour="core"):
        self.r = rnd
        self.flavour = flavour
        self.b = Book()
        self.ops = []
        w = list(CORE_WEIGHTS)
        if flavour in FLAVOURS:
            w.append((flavour, 9))
        if flavour == "xbind":
            w = [(k, v) for k, v in w if k != "reopen"]
        self.kinds = [k for k, _ in w]
        self.weights = [v for _, v in w]

    # -- small choosers
    def slot(self, need_open=True):
        c = [s.idx for s in self.b.slots if s.open == need_open]
        if not c:
            return None
        # most of the action in model 0, enough in model 1 to make the shared paths matter
        return self.r.choice(c) if self.r.random() < 0.5 else c[0]

    def owner(self, s):
        ow = self.b.slots[s].owners
        return self.r.choices(ow, [{"m": 2, "A": 3, "B": 2, "C": 2, "D": 1, "A.Ch": 2}[o] for o in ow])[0]

    def path(self, kind, s):
        r = self.r
        used = [sp["path"] for sp in self.b.spec.values() if ftype_of(sp["path"]) == kind
                and not sp["path"].startswith("@abs")]
        if used and r.random() < 0.4:
            return r.choice(sorted(used))
        pabs = 0.5 if self.flavour == "xbind" else 0.08
        if kind == "excel":
            return "@abs/g0.xlsx" if r.random() < pabs else r.choice(XLSX)
        if kind == "csv":
            return "@abs/h0.csv" if r.random() < pabs else r.choice(CSV)
        return r.choice(PY)

    def build(self, n):
        tries = 0
        while len(self.ops) < n and tries < n * 8:
            tries += 1
            kind = self.r.choices(self.kinds, self.weights)[0]
            op = getattr(self, "g_" + kind)(len(self.ops))
            if op is not None:
                self.ops.append(op)
                self.b.settle()
        return self.ops

    # -- creations
    def _pandas_op(self, i, s, owner, name, path=None, sheet="?", data=None):
        r = self.r
        if path is None:
            path = self.path("excel" if r.random() < 0.7 else "csv", s)
        ft = ftype_of(norm(path))
        if sheet == "?":
            sheet = r.choice(SHEETS) if ft == "excel" else None
            if ft == "excel" and sheet is None and r.random() < 0.6:
                sheet = r.choice(SHEETS[:3])
        op = {"op": "new_pandas", "m": s, "owner": owner, "name": name, "path": path, "ftype": ft,
              "sheet": sheet, "vk": r.choice(VKINDS)}
        if data is not None:
            op["data"] = data
        return op

    def _predict_create(self, i, op, valid_name=True):
        b, s = self.b, op["m"]
        ft = op.get("ftype", "module")
        if valid_name and b.slots[s].can_define(op["owner"], op["name"]) \
                and b.loc_clash(s, op["path"], ft, op.get("sheet")) is None:
            key = op.get("data", i)
            b.create(s, op["owner"], op["name"], key, op["path"], ft, op.get("sheet"),
                     {"kind": "pandas" if ft != "module" else "module"})

    def g_new_pandas(self, i):
        s = self.slot()
        if s is None:
            return None
        op = self._pandas_op(i, s, self.owner(s), self.r.choice(REFNAMES))
        self._predict_create(i, op)
        return op

    def g_new_module(self, i):
        s = self.slot()
        if s is None:
            return None
        op = {"op": "new_module", "m": s, "owner": self.owner(s), "name": self.r.choice(REFNAMES),
              "path": self.path("module", s), "src": self.r.randrange(3), "asobj": self.r.random() < 0.4}
        self._predict_create(i, op)
        return op

    def g_clash(self, i):
        """creation at exactly the location of a live spec of the same file group"""
        s = self.slot()
        if s is None:
            return None
        c = [k for k, sp in self.b.spec.items() if sp["slot"] == s or sp["path"].startswith("@abs")]
        if not c:
            return None
        sp = self.b.spec[self.r.choice(sorted(c, key=repr))]
        if sp["ftype"] == "module":
            op = {"op": "new_module", "m": s, "owner": self.owner(s), "name": self.r.choice(REFNAMES),
                  "path": sp["path"], "src": self.r.randrange(3), "asobj": False}
        else:
            op = self._pandas_op(i, s, self.owner(s), self.r.choice(REFNAMES), path=sp["path"], sheet=sp["sheet"])
        self._predict_create(i, op)
        return op

    def g_badtype(self, i):
        """a creation the IO layer itself refuses (unsupported file type), mostly at a location nobody claims"""
        s = self.slot()
        if s is None:
            return None
        op = self._pandas_op(i, s, self.owner(s), self.r.choice(REFNAMES))
        if self.b.same_file(s, op["path"]):
            return None               # (a file already shared keeps its own type: the argument is not looked at)
        op["badtype"] = True          # nothing is predicted: the creation must be refused
        return op

    def g_badname(self, i):
        s = self.slot()
        if s is None:
            return None
        owner, name = self.r.choice(BADNAMES)
        if owner not in self.b.slots[s].owners:
            return None
        if self.r.random() < 0.75:
            op = self._pandas_op(i, s, owner, name)
        else:
            op = {"op": "new_module", "m": s, "owner": owner, "name": name, "path": self.path("module", s),
                  "src": self.r.randrange(3), "asobj": False}
        op["bad"] = True
        self._predict_create(i, op, valid_name=False)
        return op

    # -- bindings
    def _spelling(self, owner):
        if owner == "m":
            return "setattr"
        return self.r.choice(["setattr", "setattr", "set_ref:auto", "set_ref:absolute"])

    def g_bind_further(self, i):
        s = self.slot()
        if s is None:
            return None
        keys = self.b.live_keys(s)
        if not keys:
            return None
        key = self.r.choice(keys)
        owner = self.owner(s)
        sb = self.b.slots[s]
        free = [n for n in REFNAMES if (owner, n) not in sb.defined]
        name = self.r.choice(free) if free and self.r.random() < 0.65 else self.r.choice(REFNAMES)
        if not sb.can_define(owner, name):
            return None
        self.b.bind(s, owner, name, key)
        return {"op": "bind", "m": s, "owner": owner, "name": name, "val": key, "sp": self._spelling(owner),
                "why": "further"}

    def _other_value(self, i, s, cur):
        r, b = self.r, self.b
        x = r.random()
        if x < 0.28:
            return "int:%d" % i, "int"
        if x < 0.42:
            b.vinfo["p%d" % i] = {"kind": "plain", "slot": s}
            return "p%d" % i, "plain"
        if x < 0.64:
            o = r.choice(OBJS)
            if o.split(".")[0] in b.slots[s].owners and (o != "A.Ch" or "A.Ch" in b.slots[s].owners):
                return "obj:" + o, "obj"
            return "int:%d" % i, "int"
        if x < 0.84:
            c = [k for k in b.live_keys(s) if k != cur]
            if c:
                return r.choice(c), "spec"
            return "int:%d" % i, "int"
        if x < 0.94 and cur is not None:
            return cur, "same"
        c = [k for k in b.known_keys(s) if k not in b.spec]
        if c:
            return r.choice(c), "dead"
        return "int:%d" % i, "int"

    def g_rebind(self, i):
        s = self.slot()
        if s is None:
            return None
        sb = self.b.slots[s]
        c = self.b.spec_refs(s)
        if not c or self.r.random() < 0.15:
            c = [(o, n, k) for (o, n), k in sorted(sb.defined.items(), key=repr)]
        if not c:
            return None
        owner, name, cur = self.r.choice(c)
        val, why = self._other_value(i, s, cur)
        self.b.bind(s, owner, name, val)
        return {"op": "bind", "m": s, "owner": owner, "name": name, "val": val, "sp": self._spelling(owner),
                "why": "rebind-" + why}

    def g_override(self, i):
        s = self.slot()
        if s is None:
            return None
        sb = self.b.slots[s]
        c = [(o, n) for o in ("B", "C", "D") if o in sb.owners for n in sb.derived_names(o)]
        if not c:
            return None
        owner, name = self.r.choice(c)
        # the value the derived reference has now (first definer along the ancestors)
        cur = next((sb.defined[(a, name)] for a in sb.ancestors(owner) if (a, name) in sb.defined), None)
        val, why = self._other_value(i, s, cur)
        self.b.bind(s, owner, name, val)
        return {"op": "bind", "m": s, "owner": owner, "name": name, "val": val, "sp": self._spelling(owner),
                "why": "override-" + why}

    def g_bind_dead(self, i):
        s = self.slot()
        if s is None:
            return None
        c = [k for k in self.b.known_keys(s, ("pandas", "module")) if k not in self.b.spec]
        if not c:
            return None
        key = self.r.choice(c)
        owner, name = self.owner(s), self.r.choice(REFNAMES)
        if not self.b.slots[s].can_define(owner, name):
            return None
        self.b.bind(s, owner, name, key)
        return {"op": "bind", "m": s, "owner": owner, "name": name, "val": key, "sp": self._spelling(owner),
                "why": "dead"}

    def g_delete(self, i):
        s = self.slot()
        if s is None:
            return None
        sb = self.b.slots[s]
        c = self.b.spec_refs(s)
        if not c or self.r.random() < 0.2:
            c = [(o, n, k) for (o, n), k in sorted(sb.defined.items(), key=repr)]
        if not c:
            return None
        owner, name, _ = self.r.choice(c)
        self.b.unbind(s, owner, name)
        return {"op": "del", "m": s, "owner": owner, "name": name}

    def g_delete_derived(self, i):
        s = self.slot()
        if s is None:
            return None
        sb = self.b.slots[s]
        c = [(o, n) for o in ("B", "C", "D") if o in sb.owners for n in sb.derived_names(o)]
        if not c:
            return None
        owner, name = self.r.choice(c)
        return {"op": "del", "m": s, "owner": owner, "name": name, "derived": True}

    def g_update(self, i):
        s = self.slot()
        if s is None:
            return None
        b = self.b
        bound = b.slots[s].bound()
        c = [k for k in b.known_keys(s, ("pandas", "module")) if k in bound]
        if not c:
            return None
        live = [k for k in c if k in b.spec]
        old = self.r.choice(live) if live and self.r.random() < 0.85 else self.r.choice(c)
        kind = b.vinfo[old]["kind"]
        if kind == "module" and old not in b.spec:
            return None
        fresh = self.r.random() < 0.65
        if kind == "pandas" and self.r.random() < 0.15:
            # onto a plain value that is bound to references of its own already
            news = [k for k in b.known_keys(s, ("pandas", "plain")) if k in bound and k not in b.spec and k != old]
            if news:
                new = self.r.choice(news)
                b.update(s, old, new)
                return {"op": "update", "m": s, "old": old, "kind": "pandas", "new": new}
        op = {"op": "update", "m": s, "old": old, "kind": kind, "new": "fresh" if fresh else None}
        if kind == "pandas":
            op["vk"] = self.r.choice(VKINDS)
        else:
            op["src"] = self.r.randrange(3)
        if fresh or kind == "module":
            b.update(s, old, i, {"kind": kind})
        return op

    def g_upd_spec(self, i):
        """flavour respec: update_pandas of a spec'd value onto another value that has a spec of its own"""
        s = self.slot()
        if s is None:
            return None
        b = self.b
        bound = b.slots[s].bound()
        olds = [k for k in b.live_keys(s) if b.vinfo[k]["kind"] == "pandas"]
        news = [k for k in olds if k in bound]
        if not olds:
            return None
        old = self.r.choice(olds)
        news = [k for k in news if k != old]
        if not news:
            return None
        new = self.r.choice(news)
        b.update(s, old, new)
        return {"op": "update", "m": s, "old": old, "kind": "pandas", "new": new}

    # -- inheritance
    def g_add_base(self, i):
        s = self.slot()
        if s is None:
            return None
        sb = self.b.slots[s]
        sub = self.r.choice(["B", "C", "D"])
        base = self.r.choice(["A", "B", "C"])
        if sub not in sb.owners or base not in sb.owners or sub == base or base in sb.bases[sub] \
                or len(sb.bases[sub]) >= 2 or sub in sb.ancestors(base) or base in sb.ancestors(sub):
            return None
        sb.bases[sub].append(base)
        return {"op": "add_base", "m": s, "sub": sub, "base": base}

    def g_remove_base(self, i):
        s = self.slot()
        if s is None:
            return None
        sb = self.b.slots[s]
        c = [(o, x) for o, bs in sorted(sb.bases.items()) for x in bs]
        if not c:
            return None
        sub, base = self.r.choice(c)
        sb.bases[sub].remove(base)
        return {"op": "remove_base", "m": s, "sub": sub, "base": base}

    # -- models
    def g_close(self, i):
        if i < 5:
            return None
        s = self.slot()
        if s is None:
            return None
        self.b.close(s)
        return {"op": "close", "m": s}

    def g_new_model(self, i):
        s = self.slot(need_open=False)
        if s is None:
            return None
        self.b.new_model(s)
        return {"op": "new_model", "m": s}

    def g_write_read(self, i):
        s = self.slot()
        if s is None or not self.b.live_keys(s) and self.r.random() < 0.7:
            return None
        return {"op": "write_read", "m": s, "fmt": "zip" if self.r.random() < 0.3 else "dir"}

    def g_reopen(self, i):
        s = self.slot()
        if s is None or not self.b.live_keys(s):
            return None
        if any(sp["path"].startswith("@abs") for sp in self.b.spec.values()):
            return None
        self.b.reopen(s)
        return {"op": "reopen", "m": s}

    # -- spec level
    def g_del_spec(self, i):
        s = self.slot()
        if s is None:
            return None
        c = self.b.live_keys(s)
        if not c:
            return None
        k = self.r.choice(c)
        del self.b.spec[k]
        return {"op": "del_spec", "m": s, "key": k}

    def g_set_sheet(self, i):
        s = self.slot()
        if s is None:
            return None
        b = self.b
        c = [k for k in b.live_keys(s) if b.spec[k]["ftype"] == "excel" and b.spec[k]["sheet"] is not None]
        if not c:
            return None
        k = self.r.choice(c)
        sp = b.spec[k]
        sib = [d["sheet"] for d in b.same_file(sp["slot"], sp["path"]) if d is not sp]
        sheet = self.r.choice(sib) if sib and self.r.random() < 0.45 else self.r.choice(SHEETS[:3] + ["s3"])
        if b.loc_clash(s, sp["path"], "excel", sheet, ignore=sp) is None:
            sp["sheet"] = sheet
        return {"op": "set_sheet", "m": s, "key": k, "sheet": sheet}

    def g_set_path(self, i):
        s = self.slot()
        if s is None:
            return None
        b = self.b
        # (a file moves between the relative and the absolute locations only while every spec in it belongs to
        # this model: what a move of a file shared by two models means for the other model is not stated)
        c = [k for k in b.live_keys(s) if not b.spec[k]["path"].startswith("@abs")
             or all(d["slot"] == s for d in b.same_file(s, b.spec[k]["path"]))]
        if not c:
            return None
        k = self.r.choice(c)
        sp = b.spec[k]
        pool = {"excel": XLSX, "csv": CSV, "module": PY}[sp["ftype"]]
        single = all(d["slot"] == s for d in b.same_file(s, sp["path"]))
        if sp["path"].startswith("@abs"):
            # absolute stays absolute in generated histories (absolute -> relative is a listed defect of its own,
            # exercised by the directed histories of flavour abs2rel only)
            pool = [a for a in ABS if ftype_of(a) == sp["ftype"]]
            if not pool:
                return None
        elif single and self.r.random() < 0.35:
            pool = [a for a in ABS if ftype_of(a) == sp["ftype"]] or pool
        path = self.r.choice(pool)
        if norm(path) != norm(sp["path"]) and not b.same_file(s, path):
            for d in b.same_file(s, sp["path"]):
                d["path"] = path
        return {"op": "set_path", "m": s, "key": k, "path": path}

    # -- flavours: triggers outside the core vocabulary, each confined to its own cases
    def g_del_space(self, i):
        s = self.slot()
        if s is None:
            return None
        sb = self.b.slots[s]
        c = [o for o in ("C", "D", "A.Ch", "B") if o in sb.owners]
        holders = [o for o in c if any(ow == o and k in self.b.spec for (ow, n), k in sb.defined.items())]
        if holders and self.r.random() < 0.8:
            c = holders
        if not c:
            return None
        o = self.r.choice(c)
        self.b.del_space(s, o)
        return {"op": "del_space", "m": s, "space": o}

    def g_scalar(self, i):
        s = self.slot()
        if s is None or "A" not in self.b.slots[s].owners:
            return None
        op = self._pandas_op(i, s, "A", "sc")
        op["bad"] = True
        return op

    def g_xbind(self, i):
        s = self.slot()
        if s is None or not self.b.slots[1 - s].open:
            return None
        keys = self.b.live_keys(s)
        if not keys:
            return None
        key = self.r.choice(keys)
        owner, name = self.owner(1 - s), self.r.choice(REFNAMES)
        if not self.b.slots[1 - s].can_define(owner, name):
            return None
        self.b.bind(1 - s, owner, name, key)
        return {"op": "bind", "m": 1 - s, "owner": owner, "name": name, "val": key, "sp": "setattr",
                "why": "xmodel"}

    def g_dotdot(self, i):
        s = self.slot()
        if s is None:
            return None
        alias = self.r.choice(sorted(ALIAS))
        op = self._pandas_op(i, s, self.owner(s), self.r.choice(REFNAMES), path=alias)
        self._predict_create(i, op)
        return op

    def g_respec(self, i):
        if self.r.random() < 0.4:
            return self.g_upd_spec(i)
        s = self.slot()
        if s is None:
            return None
        c = [k for k in self.b.live_keys(s) if self.b.vinfo[k]["kind"] == "pandas"]
        if not c:
            return None
        op = self._pandas_op(i, s, self.owner(s), self.r.choice(REFNAMES), data=self.r.choice(c))
        self._predict_create(i, op)
        return op


def generate(rnd, n, flavour="core"):
    return Gen(rnd, flavour).build(n)
