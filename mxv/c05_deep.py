"""Child process of the C05 deep-chain cases: `python -X faulthandler -m mxv.c05_deep '<json case>'`.

Builds one chain-shaped model (no probe in the formulas: the chain itself is the workload), evaluates it
at the requested depth under the requested (or the default) recursion limit and prints one JSON line:
{"problems": [{kind, signature, detail}], "counters": {...}, "timings": {...}, "observed": {...}}.
The parent judges the exit status: a process killed by a signal / a fatal interpreter error is the
"crashed the interpreter" observation of the property.
"""
import json
import sys
import time

from . import env

mx = env.import_modelx()
from modelx.core.errors import FormulaError, DeepReferenceError     # noqa: E402


class Leaf:
    def __init__(self):
        self.armed = False
        self.obj = None
        self.calls = 0

    def __call__(self, x):
        self.calls += 1
        if self.armed:
            self.obj = ValueError("injected at the bottom of the chain")
            raise self.obj
        return x


def sources(style):
    rec = "def %s(x):\n    if x > 0:\n        return %s + 1\n    return leaf__(x)"
    if style == "cached":
        return {"A": {"f": (rec % ("f", "f(x - 1)"), True)}}
    if style == "uncached":
        return {"A": {"f": (rec % ("f", "f(x - 1)"), False)}}
    if style == "mixed":
        return {"A": {"f": ("def f(x):\n    return u(x)", True), "u": (rec % ("u", "f(x - 1)"), False)}}
    if style == "item":
        return {"A": {"f": ("def f(x):\n    return B_[x].h(x)", True)},
                "B": {"h": (rec % ("h", "A_.f(x - 1)"), True)}}
    raise ValueError(style)


def attempt(fn, *a):
    try:
        return ("ok", fn(*a))
    except BaseException as e:     # noqa
        return ("exc", e)


def idle():
    ex = mx.core.mxsys.executor
    out = []
    if ex.is_executing:
        out.append("is_executing")
    if len(ex.callstack):
        out.append("callstack=%d" % len(ex.callstack))
    if getattr(ex.callstack, "counter", 0):
        out.append("counter=%r" % ex.callstack.counter)
    if len(ex.refstack):
        out.append("refstack=%d" % len(ex.refstack))
    return out


def main(argv):
    case = json.loads(argv[0])
    style, depth, limit, fault = case["style"], case["depth"], case["limit"], case["fault"]
    problems, counters, timings, observed = [], {}, {}, {}

    def P(kind, sig, **d):
        problems.append({"kind": kind, "signature": sig, "detail": d})

    def count(k, n=1):
        counters[k] = counters.get(k, 0) + n

    leaf = Leaf()
    m = mx.new_model("M")
    m.leaf__ = leaf
    A = m.new_space("A")
    B = m.new_space("B", formula="lambda p: None")
    A.absref(B_=B)
    B.absref(A_=A)
    for sp, cells in sources(style).items():
        for n, (s, cached) in cells.items():
            getattr(m, sp).new_cells(n, formula=s, is_cached=cached)
    f = A.f
    if limit:
        mx.set_recursion(limit)
    eff = mx.get_recursion()
    observed["limit"] = eff
    per_level = {"cached": 1, "uncached": 1, "mixed": 2, "item": 2}[style]
    x = depth // per_level - 1                 # f(x) puts ~depth nodes on the stack
    nodes = (x + 1) * per_level
    over = nodes > eff + 1
    observed["nodes_on_stack"] = nodes

    def held_f():
        return len(f) if f.is_cached else 0

    if fault:
        leaf.armed = True
    t0 = time.time()
    r = attempt(f, x)
    timings["first_evaluation_s"] = round(time.time() - t0, 2)
    count("deep_evaluations")
    observed["first"] = "value" if r[0] == "ok" else type(r[1]).__name__
    guard = False
    if r[0] == "exc":
        e = r[1]
        orig = mx.get_error() if isinstance(e, FormulaError) else e
        if isinstance(orig, RecursionError) and not isinstance(orig, DeepReferenceError):
            # CPython's own guard against C-stack exhaustion (calls dispatched through type slots, e.g.
            # space[...]): an ordinary exception deep in the chain, not a crash - the state is judged below
            guard = True
            count("python_recursion_guard")
            observed["python_recursion_guard"] = True
        elif over or fault:
            pass
        elif isinstance(orig, DeepReferenceError):
            P("limit-early", "a chain shorter than the configured recursion limit failed with DeepReferenceError",
              msg=str(orig)[:200])
        else:
            P("within-limit-failed", "a chain shorter than the configured recursion limit failed with %s"
              % type(orig).__name__, msg=str(orig)[:200])
    if not over and not fault and r[0] == "ok":
        if r[1] != x:
            P("limit-value", "chain within the recursion limit returned a wrong value", got=r[1], expected=x)
        count("later_value_checks")
    elif over or fault or guard:
        count("failures_injected")
        if r[0] == "ok":
            if over and nodes >= eff + 2:
                P("limit-not-enforced", "a chain deeper than the configured recursion limit evaluated without "
                  "DeepReferenceError", value=r[1])
            if fault:
                P("no-raise", "armed failure did not surface: the call returned a value [exception]", value=r[1])
        else:
            e = r[1]
            if not isinstance(e, FormulaError):
                P("not-formula-error", "failed evaluation raised %s instead of FormulaError [deep chain]"
                  % type(e).__name__, raised=repr(e)[:200])
            else:
                err = mx.get_error()
                if guard:
                    pass
                elif fault and not over:
                    if err is not leaf.obj:
                        P("get-error", "get_error() after a failed evaluation is not the original exception "
                          "[deep chain]", got=repr(err)[:200])
                elif not isinstance(err, DeepReferenceError):
                    P("get-error", "get_error() after exceeding the recursion limit is not DeepReferenceError",
                      got=repr(err)[:200])
            count("chain_checks", nodes)
            n_held = held_f()
            if n_held:
                P("chain-holds", "an element on the failing chain holds a value after the failure [deep chain]",
                  held=n_held)
            if style == "item":
                hh = sum(len(isp.h) for isp in B.itemspaces.values())
                if hh:
                    P("chain-holds", "an element on the failing chain holds a value after the failure [deep chain]",
                      held_in_itemspaces=hh)
            count("idle_checks")
            st = idle()
            if st:
                P("not-idle", "after a failed evaluation the executor is not idle (%s) [deep chain]"
                  % ",".join(s.split("=")[0] for s in st), state=st)
            # a shorter evaluation right after the failure
            leaf.armed = False
            t0 = time.time()
            r2 = attempt(f, min(x, 100))
            count("retry_checks")
            if r2 != ("ok", min(x, 100)):
                P("retry-value" if r2[0] == "ok" else "retry-raised",
                  "evaluation after a failure returns a value different from the no-failure value" if r2[0] == "ok"
                  else "evaluation after a failure raised %s" % type(r2[1]).__name__, got=repr(r2)[:200])
            if fault and not over and not guard and not problems:
                r3 = attempt(f, x)
                count("retry_checks")
                if r3 != ("ok", x):
                    P("retry-value" if r3[0] == "ok" else "retry-raised",
                      "evaluation after a failure returns a value different from the no-failure value"
                      if r3[0] == "ok" else "evaluation after a failure raised %s" % type(r3[1]).__name__,
                      got=repr(r3)[:200])
            timings["retries_s"] = round(time.time() - t0, 2)
    st = idle()
    if st and not any(p["kind"] == "not-idle" for p in problems):
        P("not-idle", "after an evaluation the executor is not idle (%s) [deep chain]"
          % ",".join(s.split("=")[0] for s in st), state=st)
    print(json.dumps({"problems": problems, "counters": counters, "timings": timings, "observed": observed}))
    sys.stdout.flush()
    # skip the (slow) teardown of 100 000 nodes
    import os
    os._exit(0)


if __name__ == "__main__":
    main(sys.argv[1:])
