"""Runner: case generation, sharding over subprocesses, confirmation by replay,
known-finding matching, evidence, three-valued exit.

A property module (mxv/props/cNN.py) provides

  ID, LEVEL, RULE, ASSUMPTIONS
  gen_cases(tier, seed)      -> iterable of JSON-able case descriptors (each with "id")
  run_case(case)             -> result dict (see mxv.worker)
  MIN_COUNTERS (optional)    -> {counter: minimum} below which the run is inconclusive
  finalize(coverage, results) (optional) -> may add keys to the coverage dict

exit 0 held on what was observed / 1 violation (VIOLATION line) / 2 inconclusive
"""
import argparse
import collections
import concurrent.futures
import hashlib
import importlib
import json
import os
import shutil
import subprocess
import sys
import tempfile
import time

from . import env
from . import findings as findings_mod


def load_prop(pid):
    return importlib.import_module("mxv.props.%s" % pid.lower())


def _run_worker(pid, cases, timeout, workdir, idx):
    inp = os.path.join(workdir, "in_%d.json" % idx)
    out = os.path.join(workdir, "out_%d.jsonl" % idx)
    with open(inp, "w") as f:
        json.dump(cases, f)
    cmd = [env.PYTHON, "-X", "faulthandler", "-m", "mxv.worker", pid, inp, out]
    t0 = time.time()
    status = "ok"
    err = ""
    try:
        p = subprocess.run(cmd, cwd=env.VERIF, env=env.child_env(), timeout=timeout,
                           stdout=subprocess.PIPE, stderr=subprocess.PIPE)
        if p.returncode != 0:
            status = "died rc=%s" % p.returncode
            err = p.stderr.decode(errors="replace")[-2000:]
    except subprocess.TimeoutExpired:
        status = "timeout"
    results = []
    if os.path.exists(out):
        with open(out) as f:
            for line in f:
                line = line.strip()
                if line:
                    try:
                        results.append(json.loads(line))
                    except ValueError:
                        pass
    done = {r["id"] for r in results}
    missing = [c for c in cases if c["id"] not in done]
    return {"status": status, "err": err, "results": results, "missing": missing,
            "wall": time.time() - t0}


def run_cases(pid, cases, jobs, shard_timeout, chunk=None):
    """returns (results, lost) - lost = cases for which no result could be obtained"""
    if not cases:
        return [], []
    if chunk is None:
        chunk = max(1, min(400, len(cases) // (jobs * 4) + 1))
    shards = [cases[i:i + chunk] for i in range(0, len(cases), chunk)]
    workdir = tempfile.mkdtemp(prefix="mxv_%s_" % pid)
    results, retry, notes = [], [], []
    try:
        with concurrent.futures.ThreadPoolExecutor(max_workers=jobs) as ex:
            futs = [ex.submit(_run_worker, pid, sh, shard_timeout, workdir, i)
                    for i, sh in enumerate(shards)]
            for fu in futs:
                r = fu.result()
                results.extend(r["results"])
                if r["missing"]:
                    retry.extend(r["missing"])
                    notes.append((r["status"], r["err"]))
        lost = []
        if retry:
            # each unfinished case once more, alone, in a fresh process
            with concurrent.futures.ThreadPoolExecutor(max_workers=jobs) as ex:
                futs = [(c, ex.submit(_run_worker, pid, [c], shard_timeout, workdir, 100000 + i))
                        for i, c in enumerate(retry[:64])]
                for c, fu in futs:
                    r = fu.result()
                    if r["results"]:
                        results.extend(r["results"])
                    else:
                        lost.append({"case": c, "status": r["status"], "err": r["err"]})
            for c in retry[64:]:
                lost.append({"case": c, "status": "not retried", "err": ""})
    finally:
        shutil.rmtree(workdir, ignore_errors=True)
    return results, lost


def replay_file(pid, path, shrink=False, timeout=600):
    """run one stored case in a fresh process; returns its result dict or None"""
    out = path + ".out"
    cmd = [env.PYTHON, "-X", "faulthandler", "-m", "mxv.worker", pid, "--replay", path, out]
    if shrink:
        cmd.append("--shrink")
    try:
        subprocess.run(cmd, cwd=env.VERIF, env=env.child_env(), timeout=timeout,
                       stdout=subprocess.PIPE, stderr=subprocess.PIPE)
    except subprocess.TimeoutExpired:
        return None
    try:
        with open(out) as f:
            return json.loads(f.read())
    except (OSError, ValueError):
        return None
    finally:
        try:
            os.remove(out)
        except OSError:
            pass


def case_hash(obj):
    return hashlib.sha256(json.dumps(obj, sort_keys=True, default=repr).encode()).hexdigest()[:16]


def write_replay(pid, case, violation):
    d = os.path.join(env.VERIF, "replays", pid)
    os.makedirs(d, exist_ok=True)
    body = {"property": pid, "case": case, "violation": violation}
    path = os.path.join(d, case_hash(case) + ".json")
    with open(path, "w") as f:
        json.dump(body, f, indent=1, default=repr)
    return path


def main(argv=None):
    ap = argparse.ArgumentParser()
    ap.add_argument("prop")
    ap.add_argument("--tier", default=None)
    ap.add_argument("--seed", type=int, default=None)
    ap.add_argument("--replay", default=None)
    ap.add_argument("--jobs", type=int, default=None)
    ap.add_argument("--max-cases", type=int, default=None)
    ap.add_argument("--no-evidence", action="store_true")
    a = ap.parse_args(argv)
    pid = a.prop.upper()
    tier = a.tier or env.tier()
    seed = a.seed if a.seed is not None else env.seed()
    jobs = a.jobs or env.jobs()
    mod = load_prop(pid)
    known = findings_mod.load_known(pid)

    if a.replay:
        r = replay_file(pid, os.path.abspath(a.replay))
        if r is None:
            print("INCONCLUSIVE property=%s reason=replay did not finish" % pid)
            return 2
        vs = r.get("violations") or []
        for v in vs:
            print("  %s: %s" % (v.get("signature"), json.dumps(v.get("detail"), default=repr)[:600]))
        unknown = [v for v in vs if not findings_mod.match(known, v)]
        for v in vs:
            k = findings_mod.match(known, v)
            if k:
                print("KNOWN-FINDING: property=%s %s %s" % (pid, k["signature"], k["what_fails"]))
        if unknown:
            print("VIOLATION property=%s replay=%s" % (pid, os.path.abspath(a.replay)))
            return 1
        print("replay: property held on this case (status=%s)" % r.get("status"))
        return 0

    t0 = time.time()
    cases = list(mod.gen_cases(tier, seed))
    if a.max_cases:
        cases = cases[:a.max_cases]
    ids = set()
    for c in cases:
        assert c["id"] not in ids, "duplicate case id %s" % c["id"]
        ids.add(c["id"])
    shard_timeout = getattr(mod, "SHARD_TIMEOUT", {"quick": 600, "thorough": 3600})[tier]
    results, lost = run_cases(pid, cases, jobs, shard_timeout, getattr(mod, "CHUNK", {}).get(tier))

    counters = collections.Counter()
    matrices = collections.defaultdict(collections.Counter)
    shapes = set()
    statuses = collections.Counter()
    samples = []
    suspects = []
    for r in results:
        statuses[r.get("status", "?")] += 1
        for k, v in (r.get("counters") or {}).items():
            counters[k] += v
        for mname, cells in (r.get("matrix") or {}).items():
            for k, v in cells.items():
                matrices[mname][k] += v
        if r.get("status") in ("ok", "violation") and r.get("nontrivial", True):
            for s in (r.get("shapes") or [r.get("shape", r["id"])]):
                shapes.add(s)
        if r.get("sample") is not None and len(samples) < 4:
            samples.append(r["sample"])
        if r.get("violations"):
            suspects.append(r)

    # ---- confirm suspected violations from a replay file, in a fresh process
    confirmed, unreproduced, known_hits = [], 0, collections.OrderedDict()
    seen_sigs = collections.Counter()
    not_replayed = 0
    for r in suspects:
        if len(confirmed) >= 3:
            # three confirmed violations with replay files decide the run; the rest is only counted
            not_replayed += 1
            continue
        sigs = tuple(sorted({v.get("signature", v.get("kind", "?")) for v in r["violations"]}))
        if seen_sigs[sigs] >= 2:
            # this signature set was already replayed twice: count, do not replay again.  Every
            # distinct signature set is replayed at least once, however many there are.
            seen_sigs[sigs] += 1
            continue
        seen_sigs[sigs] += 1
        case = r.get("case")
        if case is None:
            case = next((c for c in cases if c["id"] == r["id"]), None)
        path = write_replay(pid, case, r["violations"])
        rr = replay_file(pid, path, shrink=hasattr(mod, "shrink"))
        if rr is None or not rr.get("violations"):
            unreproduced += 1
            continue
        if rr.get("case") is not None and rr["case"] != case:
            os.remove(path)
            path = write_replay(pid, rr["case"], rr["violations"])
        unknown = []
        for v in rr["violations"]:
            k = findings_mod.match(known, v)
            if k:
                known_hits.setdefault(k["signature"], k)
            else:
                unknown.append(v)
        if unknown:
            confirmed.append((path, unknown))
        else:
            os.remove(path)

    # regression probes of listed findings are ordinary directed cases of the module; a
    # listed finding that no longer fires is simply not printed.
    cov = {
        "evaluations": len(results),
        "distinct_nontrivial": len(shapes),
        "rule": mod.RULE,
        "samples": samples,
        "statuses": dict(statuses),
        "counters": dict(counters),
        "matrices": {k: dict(v) for k, v in matrices.items()},
        "cases_generated": len(cases),
        "cases_lost": len(lost),
        "unreproduced": unreproduced,
        "suspected_violations": len(suspects),
        "suspects_not_replayed_after_3_confirmed": not_replayed,
        "known_findings_seen": list(known_hits),
    }
    if hasattr(mod, "finalize"):
        try:
            mod.finalize(cov, results)
        except Exception as e:      # noqa
            cov["finalize_error"] = repr(e)
        for k, v in (cov.get("counters") or {}).items():     # finalize may add measured counters
            counters[k] = v

    reasons = []
    if lost:
        reasons.append("%d cases lost (%s)" % (len(lost), lost[0]["status"]))
    if unreproduced:
        reasons.append("%d suspected violations did not reproduce" % unreproduced)
    if statuses.get("error"):
        reasons.append("%d cases ended in a harness error" % statuses["error"])
    for k, mn in getattr(mod, "MIN_COUNTERS", {}).get(tier, {}).items():
        if counters.get(k, 0) < mn:
            reasons.append("monitor %s reached %d times (< %d)" % (k, counters.get(k, 0), mn))
    if len(shapes) < 2:
        reasons.append("fewer than 2 distinct non-trivial cases")

    wall = time.time() - t0
    ev = {
        "property_id": pid, "tier": tier, "seed": seed, "level": mod.LEVEL,
        "coverage": cov, "assumptions": list(getattr(mod, "ASSUMPTIONS", [])),
        "wall_s": round(wall, 2), "violations": len(confirmed),
        "verdict": "violated" if confirmed else ("inconclusive" if reasons else "held"),
        "inconclusive_reasons": reasons,
    }
    if not a.no_evidence:
        os.makedirs(os.path.join(env.VERIF, "evidence"), exist_ok=True)
        with open(os.path.join(env.VERIF, "evidence", pid + ".json"), "w") as f:
            json.dump(ev, f, indent=1, default=repr)

    print("%s tier=%s seed=%d cases=%d results=%d distinct_nontrivial=%d wall=%.1fs" % (
        pid, tier, seed, len(cases), len(results), len(shapes), wall))
    print("  statuses: %s" % dict(statuses))
    top = sorted(counters.items())
    print("  counters: %s" % ", ".join("%s=%d" % kv for kv in top[:40]))
    for k in known_hits.values():
        print("KNOWN-FINDING: property=%s %s %s" % (pid, k["signature"], k["what_fails"]))
    if confirmed:
        for path, vs in confirmed:
            for v in vs[:3]:
                print("  violated: %s %s" % (v.get("signature"), json.dumps(v.get("detail"), default=repr)[:500]))
            print("VIOLATION property=%s replay=%s" % (pid, path))
        return 1
    if reasons:
        for e in lost[:3]:
            print("  lost: %s %s" % (e["status"], e["err"][-500:]))
        for r in results:
            if r.get("status") == "error":
                print("  harness error in %s: %s" % (r["id"], str(r.get("error"))[-1500:]))
                break
        print("INCONCLUSIVE property=%s reason=%s" % (pid, "; ".join(reasons)))
        return 2
    print("HELD property=%s on everything observed" % pid)
    return 0


if __name__ == "__main__":
    sys.exit(main())
