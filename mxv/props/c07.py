"""C07 - ItemSpaces are parametrised, isolated, identity-stable instances of their base.

Per generated model with parametrised spaces (defaults, several parameters, formulas
returning extra references or another base, child spaces, nested parametrised spaces):
  * values of every cells in every instance against the reference evaluator in the
    instance namespace, and the set of formulas that ran for a query against the
    reference evaluator's call closure (calls to sibling cells stay inside the instance);
  * identity: all spellings that bind equally give the same object, different
    arguments give different objects, S[args] is S(args);
  * isolation: an assignment inside one instance leaves the other instances alone;
  * freshness: after every edit of anything an instance was built from (every C02 edit
    kind on the base, its children, its bases, model references) every instance -
    re-requested or through a handle taken earlier - serves the fresh-replay value;
  * handles taken earlier either raise the deleted-object error or are the re-created
    instance.
"""
import random

from .. import env
from ..mxutil import mx, reset_session, sanity, val
from ..live import World
from ..gen import ModelGen, EditGen
from .. import refmodel as R
from . import c02
from modelx.core.errors import DeletedObjectError

ID = "C07"
LEVEL = "exploration"
RULE = ("seeded random models with parametrised spaces (1-2 parameters, defaults, lambda/def formulas, returned refs, "
        "explicit base, child and nested parametrised spaces) x histories of 2-8 base edits (all C02 edit kinds) with "
        "evaluation rounds in between; handles to instances, dynamic children and dynamic cells taken at every round "
        "and poked after every edit; fresh-replay comparison of every instance query after every edit. Non-trivial = "
        "at least one edit after which an instance query changed its value; distinct = distinct (model seed, edit kinds)")
ASSUMPTIONS = ["instances are identified by parent path and argument values, never by name",
               "reference evaluator for instance namespaces (mxv/refmodel.py)"]
MIN_COUNTERS = {"quick": {"identity_checks": 3000, "handle_pokes": 5000, "item_values_vs_ref": 8000,
                          "item_queries_vs_fresh": 8000, "isolation_checks": 200, "closure_checks": 1500},
                "thorough": {"identity_checks": 100000, "handle_pokes": 150000, "item_values_vs_ref": 250000,
                             "item_queries_vs_fresh": 250000, "isolation_checks": 6000, "closure_checks": 50000}}
SHARD_TIMEOUT = {"quick": 900, "thorough": 5400}


DIRECTED = ["H", "W", "X", "Y", "DD", "HH", "KK"]      # regression probes (findings/witnesses.py)


def gen_cases(tier, seed):
    for j, name in enumerate(DIRECTED):
        yield {"id": "d%d" % j, "directed": j}
    n = 420 if tier == "quick" else 12000
    for i in range(n):
        yield {"id": "i%d" % i, "seed": env.derive_seed(seed, ID, i), "nedits": 2 + i % 7, "base": i % 4 == 1}
    # binding grid: every parameter signature (1-4 parameters, defaults on a suffix) x every way of writing the call
    from .. import bindgrid
    reps = 2 if tier == "quick" else 12
    for j, ps in enumerate(bindgrid.signatures()):
        for r in range(reps):
            yield {"id": "b%d_%d" % (j, r), "kind": "bind", "params": ps, "seed": env.derive_seed(seed, ID, "b", j, r),
                   "nested": r % 2 == 1}


def expand(case):
    if "ops" in case or "directed" in case or case.get("kind") == "bind":
        return case
    rnd = random.Random(case["seed"])
    g = None
    for attempt in range(20):
        g = ModelGen(random.Random(rnd.randrange(1 << 30)), itemspaces=True)
        g.f["inputs"] = False
        g.build()
        if any(s.formula is not None for s in g.rm.walk()):
            break
    ops = list(g.ops)
    if case.get("base"):
        # a parametrised space whose formula names another space as the base of its instances
        tops = [s for s in g.rm.children.values() if s.formula is None]
        if tops:
            t = rnd.choice(tops)
            fd = {"params": [["p", None]], "base": t.path()}
            if rnd.random() < 0.6:
                fd["refs"] = {"t2": "p * 10 + 1"}
                # a cells of the base that reads the returned reference (NameError in the base itself)
                free = [n for n in ("c6", "c5", "c4") if n not in R.members(t)["cells"] and n not in R.members(t)["refs"]
                        and not any(n in s.cells or n in s.refs or n in s.children for s in g.rm.subs_of(t))]
                if free and "t2" not in R.members(t)["refs"] and "t2" not in R.members(t)["cells"]:
                    oc = {"op": "new_cells", "space": t.path(), "name": free[0], "params": [["x", None]],
                          "body": "t2 + x", "lam": False, "cached": True}
                    g.emit(oc)
                    ops.append(oc)
            op = {"op": "new_space", "name": "PB", "formula": fd}
            g.emit(op)
            ops.append(op)
    eg = EditGen(g, allow_del_base=True)
    ops.append({"op": "evalall"})
    del_base_at = rnd.randrange(case["nedits"]) if case.get("base") and rnd.random() < 0.4 else -1
    for ei in range(case["nedits"]):
        if ei == del_base_at and "PB" in g.rm.children and g.rm.children["PB"].formula is not None \
                and g.rm.children["PB"].formula.base is not None and not g.rm.children["PB"].formula.base.deleted:
            # the space named as base by PB's formula is deleted while instances of PB are alive
            e = {"op": "del_space", "path": g.rm.children["PB"].formula.base.path()}
            if not eg._would_dangle(e):
                g.emit(e)
                ops.append(dict(e, tag="del_space"))
                ops.append({"op": "evalall"})
                continue
        e = None
        for _try in range(8):
            # edits of space formulas inside parametrised trees are rare among the general kinds: boosted
            e = eg.one(rnd.choice(["space_formula", "child_formula_new"]) if rnd.random() < 0.2 else None)
            if e is not None:
                break
        if e is None:
            continue
        ops.append(dict(e, tag=e["op"]))
        if rnd.random() < 0.7:
            ops.append({"op": "evalall"})
    c = dict(case)
    c["ops"] = ops
    return c


def item_queries(w):
    return [q for q in c02.all_queries(w) if any(s[0] == "i" for s in q["inst"])]


def param_spaces(rm):
    """(steps to the parametrised space, RSpace) for static parametrised spaces"""
    out = []
    for s in rm.walk():
        if s.formula is not None and not any(a.formula is not None for a in R._ancestors(s)):
            out.append(([["s", p] for p in s.path().split(".")], s))
    return out


def run_bind(case):
    """arguments that bind equally give the same instance, different arguments independent ones; the parameters
    are bound as names inside the instance (also in a child space of it)"""
    from .. import bindgrid as B
    from ..mxutil import val
    params = case["params"]
    rnd = random.Random(case["seed"])
    reset_session()
    vio = []
    cnt = {"identity_checks": 0, "bind_spellings": 0, "bind_value_checks": 0, "bind_in_formula": 0}

    def V(kind, sig, **d):
        if len(vio) < 4:
            vio.append({"kind": kind, "signature": sig, "detail": dict(d, signature=B.sig_text(params))})
    m = mx.new_model("M")
    P = m.new_space("P", formula="lambda %s: None" % B.sig_text(params))
    names = [p_ for p_, _ in params]
    expr = " + ".join("%s * %d" % (n, 10 ** i) for i, n in enumerate(names))
    P.new_cells("h", formula="lambda: %s" % expr)
    P.new_cells("acc", formula="lambda k: k + h()")
    if case.get("nested"):
        P.new_space("Ch").new_cells("hc", formula="lambda: 7 + %s" % expr)
        # a parametrised child whose parameter is named like the first parameter of its parent: inside its
        # instances the name denotes the child's argument, the other names the parent's
        P.new_space("In", formula="lambda %s=77: None" % names[0]).new_cells("hi", formula="lambda: %s" % expr)
    plainf = B.plain(params, expr)
    T = m.new_space("T")
    T.P = P
    plan = []
    for given in B.choices(params):
        vals = {n: rnd.randint(1, 4) for n in given}
        for args, kw in B.spellings(params, vals):
            text = ", ".join([repr(a) for a in args] + ["%s=%r" % (n, v) for n, v in kw])
            in_formula = rnd.random() < 0.3
            if in_formula:
                T.new_cells("g%d" % len(plan), formula="lambda: P(%s).h()" % text)
            plan.append((args, kw, text, in_formula))
    seen = {}
    for k, (args, kw, text, in_formula) in enumerate(plan):
        key = B.bound_tuple(params, args, kw)
        exp = plainf(*args, **dict(kw))
        cnt["bind_spellings"] += 1
        if in_formula:
            got = val(T.cells["g%d" % k])
            cnt["bind_in_formula"] += 1
            cnt["bind_value_checks"] += 1
            if got != exp:
                V("value", "a cells in an instance does not evaluate as in the base with the parameters bound",
                  call=text, got=got, expected=exp, in_formula=True)
            continue
        try:
            inst = P(*args, **dict(kw))
        except Exception as e:     # noqa
            V("call", "a valid call of a parametrised space raised", call=text, error=type(e).__name__)
            continue
        got = val(inst.h)
        cnt["bind_value_checks"] += 1
        if got != exp:
            V("value", "a cells in an instance does not evaluate as in the base with the parameters bound",
              call=text, got=got, expected=exp)
            continue
        if case.get("nested"):
            got = val(inst.Ch.hc)
            cnt["bind_value_checks"] += 1
            if got != exp + 7:
                V("value", "a cells in a child space of an instance does not see the parameters", call=text, got=got,
                  expected=exp + 7)
            for inner in (9, None):
                got = val(inst.In(9).hi) if inner is not None else val(inst.In().hi)
                want = plainf(*((77 if inner is None else inner,) + tuple(key[1:])))
                cnt["bind_value_checks"] += 1
                if got != want:
                    V("value", "a nested instance does not bind its own argument over its parent's of the same name",
                      call=text, inner=inner, got=got, expected=want)
        cnt["identity_checks"] += 1
        sub_ = P[key if len(key) != 1 else key[0]]
        if sub_ is not inst:
            V("identity", "arguments that bind equally give different instances", call=text, key=list(key))
        if key in seen:
            if seen[key][0] is not inst:
                V("identity", "arguments that bind equally give different instances", call=text, first=seen[key][1])
        else:
            for k2, (i2, t2) in seen.items():
                if i2 is inst:
                    V("identity", "different arguments give the same instance", call=text, other=t2)
            seen[key] = (inst, text)
            # independent values: an input in this instance only
            inst.acc[0] = 1000 + len(seen)
    for key, (inst, text) in seen.items():
        cnt["bind_value_checks"] += 1
        if val(inst.acc, 0) != 1000 + list(seen).index(key) + 1 or val(inst.acc, 1) != 1 + plainf(*key):
            V("isolation", "values of instances with different arguments are not independent", call=text,
              got=[val(inst.acc, 0), val(inst.acc, 1)])
    keys = {B.bound_tuple(params, a_, k_) for a_, k_, _t, _f in plan}
    got_keys = {(k_ if isinstance(k_, tuple) else (k_,)) for k_ in P.itemspaces}
    if got_keys != keys:
        V("count", "the instances of the space are not the distinct bound argument tuples",
          got=sorted(map(repr, got_keys))[:8], expected=sorted(map(repr, keys))[:8])
    return {"violations": vio, "counters": cnt, "nontrivial": True, "shape": "bind-" + B.sig_text(params),
            "matrix": {"binding grid: space signature": {B.sig_text(params): cnt["bind_spellings"]}}}


def run_case(case):
    if case.get("kind") == "bind":
        return run_bind(case)
    case = expand(case)
    if "directed" in case:
        from . import c12
        r = c12._directed(DIRECTED[case["directed"]])
        r["case"] = case
        return r
    reset_session()
    w = World("M")
    vio = []
    cnt = {"identity_checks": 0, "handle_pokes": 0, "handles_deleted": 0, "handles_reattached": 0,
           "item_values_vs_ref": 0, "item_queries_vs_fresh": 0, "isolation_checks": 0, "closure_checks": 0,
           "edits": 0, "effective_edits": 0, "ref_unknown": 0}
    handles = []          # (kind, steps, name, object)
    edits = []
    results = []
    last_item_vals = {}
    kinds = []

    def V(kind, sig, **d):
        vio.append({"kind": kind, "signature": sig, "detail": d})

    def identity_round():
        for steps, rs in param_spaces(w.rm):
            try:
                sp = w.live_inst(steps)
            except Exception:      # noqa
                continue
            f = rs.formula
            names = [p for p, _ in f.params]
            for a in (1, 2):
                full = list(f.bind((a,), {}))
                forms = [lambda: sp[a] if len(names) == 1 or f.params[1][1] is not None else sp[tuple(full)],
                         lambda: sp(a), lambda: sp(*full), lambda: sp(**dict(zip(names, full))),
                         lambda: sp[tuple(full)] if len(full) > 1 else sp[full[0]]]
                objs = []
                for fn in forms:
                    o = val(fn)
                    objs.append(o)
                if any(isinstance(o, tuple) and o and o[0] == "ERR" for o in objs):
                    if not all(isinstance(o, tuple) and o and o[0] == "ERR" for o in objs):
                        V("identity-err", "one spelling of the arguments raises while another gives an instance",
                          space=steps, args=full, results=[repr(o)[:60] for o in objs])
                    continue
                cnt["identity_checks"] += len(objs)
                if any(o is not objs[0] for o in objs):
                    V("identity", "arguments that bind equally give different instances", space=steps, args=full)
                try:
                    if tuple(objs[0].argvalues) != tuple(full):
                        V("argvalues", "instance reports other argument values than it was requested with",
                          space=steps, args=full, got=list(objs[0].argvalues))
                except AttributeError:
                    pass
            o1, o2 = val(lambda: sp(1)), val(lambda: sp(2))
            if not isinstance(o1, tuple) and not isinstance(o2, tuple):
                cnt["identity_checks"] += 1
                if o1 is o2:
                    V("identity-distinct", "different arguments give the same instance", space=steps)

    def take_handles():
        seen = set()
        for q in item_queries(w):
            key = repr(q["inst"])
            if key in seen:
                continue
            seen.add(key)
            o = val(lambda: w.live_inst(q["inst"]))
            if isinstance(o, tuple):
                continue
            handles.append(("space", q["inst"], None, o))
            c = val(lambda: o.cells[q["name"]])
            if not isinstance(c, tuple):
                handles.append(("cells", q["inst"], q["name"], c))

    def poke_handles(step, op):
        for kind, steps, name, obj in handles:
            cnt["handle_pokes"] += 1
            try:
                obj._evalrepr
                (obj.cells if kind == "space" else obj.formula)
                alive = True
            except DeletedObjectError:
                alive = False
                cnt["handles_deleted"] += 1
            except Exception as e:      # noqa
                V("handle-other-error", "an old handle neither works nor raises the deleted-object error",
                  handle=[kind, steps, name], error=type(e).__name__, step=step, op=op)
                continue
            if not alive:
                continue
            # "denotes the re-created instance": the object its own evaluable repr leads to (spaces may have
            # been renamed since the handle was taken, so the recorded path is not used)
            def rerequest(o):
                if o is w.m:
                    return o
                p = rerequest(o.parent)
                if hasattr(o, "argvalues"):
                    return p(*o.argvalues)
                return p.spaces[o.name]

            def request():
                cur_sp = rerequest(obj if kind == "space" else obj.parent)
                return cur_sp if kind == "space" else cur_sp.cells[obj.name]
            cur = val(request)
            if isinstance(cur, tuple) and cur and cur[0] == "ERR":
                V("handle-orphan", "an old handle still answers although the instance can no longer be requested",
                  handle=[kind, steps, name], request=list(cur), step=step, op=op)
            elif kind == "space" and cur is not obj:
                V("handle-stale", "an old handle answers but is not the re-created instance",
                  handle=[kind, steps, name], step=step, op=op)
            elif kind == "cells" and cur is not obj:
                # a cells handle must raise once its instance was discarded
                V("handle-stale-cells", "an old dynamic-cells handle answers but is not the cells of the re-created "
                  "instance", handle=[kind, steps, name], step=step, op=op)
            else:
                cnt["handles_reattached"] += 1

    def values_vs_ref(first):
        qs = item_queries(w)
        ev = w.evaluator()
        if first and len(qs) > 16:
            qs = random.Random(case["seed"]).sample(qs, 16)
        for q in qs:
            if first:
                # formulas that run for this query on a model holding nothing == the reference call closure
                w.m.clear_all()
                w.probe.reset()
            lv = w.live_value(q["inst"], q["name"], q["args"])
            w.evaluator().calls.clear()
            rv = w.ref_value(q["inst"], q["name"], q["args"])
            if rv is R.UNKNOWN:
                cnt["ref_unknown"] += 1
                continue
            cnt["item_values_vs_ref"] += 1
            if _n(lv) != _n(rv):
                if c02._is_err(lv) and c02._is_err(rv):
                    continue
                V("value", "a cells in an instance does not evaluate as in the base with the parameters bound",
                  query=q, live=lv, expected=rv)
                return
            if first and not c02._is_err(lv):
                entered = {e[1:4] for e in w.probe.log if e[0] == "E"}
                ev = w.evaluator()
                want = set()
                for el, callees in ev.calls.items():
                    want.add(el)
                    want.update(callees)
                want = {(a, b, tuple(c)) for a, b, c in want}
                cnt["closure_checks"] += 1
                if entered != want:
                    V("closure", "the formulas that ran for a query in an instance differ from the reference call "
                      "closure (a call left or entered the instance)", query=q,
                      only_live=sorted(map(repr, entered - want))[:4], only_ref=sorted(map(repr, want - entered))[:4])
                    return

    def isolation():
        for steps, rs in param_spaces(w.rm):
            try:
                sp = w.live_inst(steps)
                i1, i2 = sp(1), sp(2)
            except Exception:      # noqa
                continue
            base = rs.formula.base or rs
            for n, (d, cd) in R.members(base)["cells"].items():
                if not cd.cached or len(cd.params) != 1:
                    continue
                try:
                    c1, c2 = i1.cells[n], i2.cells[n]
                except Exception:     # noqa
                    continue
                before = val(c2, 0)
                try:
                    c1[0] = 4321
                except Exception:     # noqa
                    continue
                cnt["isolation_checks"] += 1
                if val(c1, 0) != 4321:
                    V("assign-in-instance", "a value assigned inside an instance is not returned", space=steps, cells=n)
                after = val(c2, 0)
                if _n(after) != _n(before) or dict(c2).get(0) == 4321:
                    V("isolation", "an assignment inside one instance changed another instance", space=steps,
                      cells=n, before=before, after=after)
                sb = val(lambda: dict(w.get_live(base.path()).cells[n]))
                if isinstance(sb, dict) and sb.get(0) == 4321:
                    V("isolation-base", "an assignment inside an instance changed the base space", space=steps, cells=n)
                c1.clear_at(0)
                break

    first = True
    for step, op in enumerate(case["ops"]):
        k = op["op"]
        if k == "nop":
            continue
        if k == "evalall":
            if first:
                values_vs_ref(True)
                first = False
                if vio:
                    break
            identity_round()
            vals = c02.run_queries(w, c02.all_queries(w))
            last_item_vals.update({q: v for q, v in vals.items() if "'i'" in q})
            take_handles()
            if vio:
                break
            continue
        op2 = {a: b for a, b in op.items() if a != "tag"}
        r = w.apply(op2)
        edits.append(op2)
        results.append(r)
        if "tag" not in op:
            continue
        cnt["edits"] += 1
        kinds.append(op["tag"])
        poke_handles(step, op2)
        if vio:
            break
        # freshness: every instance query against a fresh model that replayed only the edits
        fresh, fres = c02.build_fresh(edits)
        qs = [q for q in c02.all_queries(fresh) if any(s[0] == "i" for s in q["inst"])]
        lv = c02.run_queries(w, qs)
        fv = c02.run_queries(fresh, qs)
        eff = 0
        for q in qs:
            kq = c02.qkey(q)
            cnt["item_queries_vs_fresh"] += 1
            if _n(lv[kq]) != _n(fv[kq]):
                if c02._is_err(lv[kq]) and c02._is_err(fv[kq]):
                    continue
                V("stale-instance", "an instance serves a value that does not reflect the current definitions "
                  "(after %s)" % op["tag"], query=q, live=lv[kq], fresh=fv[kq], edits=kinds[-4:])
                break
            if kq in last_item_vals and _n(last_item_vals[kq]) != _n(fv[kq]):
                eff += 1
        if eff:
            cnt["effective_edits"] += 1
        last_item_vals.update(lv)
        fresh.m.close()
        if vio:
            break
    if not vio:
        values_vs_ref(False)
    if not vio:
        isolation()
    if not vio:
        s = sanity(w.m)
        if s:
            V("sanity", "library self-check failed", probs=s[:3])
    return {"violations": vio[:3], "counters": cnt, "nontrivial": cnt["effective_edits"] > 0,
            "shape": "%x|%s" % (case["seed"] & 0xFFFFFF, ",".join(kinds)), "case": case,
            "matrix": {"edit_kind": {k: kinds.count(k) for k in set(kinds)}},
            "sample": {"param_spaces": [s.path() + "(" + s.formula.sig() + ")" for _, s in param_spaces(w.rm)],
                       "edits": kinds, "handles": len(handles)}}


def _n(v):
    return list(v) if isinstance(v, tuple) else v


def shrink(case, violations, deadline):
    if "directed" in case or case.get("kind") == "bind":
        return None
    from ..shrink import shrink_ops
    return shrink_ops(expand(case), run_case, violations, deadline)
