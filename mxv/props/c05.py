"""C05 - a failed evaluation leaves a consistent, retryable state.

Workload (fault enumeration, shared with C17 in mxv/c05_faults.py):
* DAG cases: a generated DAG-shaped model; the clean evaluation of the top query is recorded; every
  ENTER and every EXIT event of that run is taken as a failure point (n-th entry / n-th exit of an
  element), with exception kinds drawn from {ValueError, ZeroDivisionError, KeyError, user Exception,
  StopIteration, RecursionError, IndexError, user BaseException, KeyboardInterrupt, SystemExit, GeneratorExit,
  return-None-where-not-allowed}, in sequences fail-retry / fail-fail-retry / fail-edit-retry, from cold
  and from warm (partly evaluated) states, with FormulaError wrapping on and off, optionally preceded by
  earlier handled / unhandled failures.  "lines" cases add sys.monitoring LINE failpoints: every line
  event of the clean run is a crash point.
* none-grid cases: every assignment of allow_none in {unset, True, False} to cells / space / parent
  space / model, for a cells in a top space, a child space and an ItemSpace.
* recursion cases (in process): set_recursion(L) for L around the measured depth D of chains of
  length ~5, ~50, ~1000 through cached, uncached, mixed and ItemSpace-crossing chains.
* deep cases (child process with faulthandler): default limit, chains of 1 000 / 50 000 / 99 990, one
  chain over the limit, one failure at the bottom of a deep chain.
Oracles: the probe log (completed elements), a walk over the Python frames at the instant of the raise
(the executing chain), a pure evaluator of the generated spec (no-failure values and reachable
elements), executor state, the library's self checks.
"""
import json
import os
import random
import subprocess
import sys

from .. import env
from ..mxutil import mx, Inconclusive, executor_idle, sanity
from .. import c05_faults as F
from modelx.core.errors import FormulaError, NoneReturnedError, DeepReferenceError

ID = "C05"
LEVEL = "fault_enumeration"
RULE = ("DAG cases: seeded random DAG-shaped models (2-7 generated cells + fixed helper cells; call spellings, "
        "try-wrappers, self recursion, child space, ItemSpace crossing with the space formula on the chain, "
        "references by name / attribute path, handled failures, cached/uncached, allow_none levels); for each, "
        "EVERY ENTER/EXIT event of the clean top evaluation is a failure point (failure_points_taken == "
        "failure_points_in_clean_runs), each with k exception kinds (quick 2 of 11, thorough all) + None where "
        "not allowed, in a fail-retry / fail-fail-retry / fail-edit-retry sequence; 'lines' cases use every "
        "LINE event of the clean run as crash point.  A fault is non-trivial when at least 2 formulas were "
        "executing or at least 1 element had completed before it; distinct = distinct (model hash, point, "
        "kind, sequence).  none-grid: all 3x3x3x2 allow_none assignments x 3 placements.  recursion: limits "
        "D-2..D+2 around measured depth D for 4 chain styles x 3 sizes.  deep: child processes.")
ASSUMPTIONS = [
    "the probe references pre__/post__ (and spre__/spost__ in the space formula) observe formula bodies running; "
    "the executing chain is read from the Python frames of the formulas at the instant of the raise",
    "no-failure values come from a pure evaluator of the generated spec (mxv/c05_faults.Pure), checked against "
    "the model before any fault is injected",
    "original exception: get_error() is the injected object, or (PEP 479) a RuntimeError whose __cause__ is the "
    "injected StopIteration, or the exception a formula's own handler raised in its place",
    "recursion limit: a chain whose depth D is below the limit L must evaluate; D >= L+2 must raise "
    "DeepReferenceError; D in {L, L+1} may do either",
    "executor idleness and cells.check_sanity read internals (callstack, refstack, tracegraph); every such "
    "failure is followed by public operations (retry, edits, clear) whose outcome is also judged",
]
MIN_COUNTERS = {
    "quick": {"failures_injected": 3000, "chain_checks": 3000, "completed_checks": 3000, "retry_checks": 1500,
              "later_value_checks": 20000, "idle_checks": 3000, "none_grid_checks": 100, "limit_checks": 40,
              "deep_children": 4, "line_failures": 150},
    "thorough": {"failures_injected": 100000, "chain_checks": 100000, "completed_checks": 100000,
                 "retry_checks": 50000, "later_value_checks": 500000, "idle_checks": 100000,
                 "none_grid_checks": 100, "limit_checks": 100, "deep_children": 8, "line_failures": 10000},
}
SHARD_TIMEOUT = {"quick": 900, "thorough": 5400}
CHUNK = {"quick": 4, "thorough": 12}


# ---------------------------------------------------------------------------------------------
def gen_cases(tier, seed):
    quick = tier == "quick"
    # deep children first: they are the long poles
    deep = [("cached", 50000, None, False), ("uncached", 50000, None, False), ("cached", 100010, None, False),
            ("cached", 30000, None, True), ("item", 400, None, False), ("item", 1500, None, False)]
    if not quick:
        deep += [("cached", 1000, None, False), ("cached", 99990, None, False), ("uncached", 99990, None, False),
                 ("mixed", 99990, None, False), ("mixed", 50000, None, True), ("item", 6000, None, False), ("item", 300, None, True),
                 ("uncached", 100010, None, False), ("item", 3000, None, True), ("uncached", 1000, None, False)]
    for i, (style, depth, limit, fault) in enumerate(deep):
        yield {"id": "deep%d" % i, "kind": "deep", "style": style, "depth": depth, "limit": limit, "fault": fault}
    for style in ("cached", "uncached", "mixed", "item"):
        for n in ((5, 50, 1000) if style != "item" else (5, 50, 300)):
            yield {"id": "rec-%s-%d" % (style, n), "kind": "rec", "style": style, "n": n}
    for place in ("top", "child", "item", "itemchild"):
        yield {"id": "nonegrid-%s" % place, "kind": "nonegrid", "place": place}
    n = 420 if quick else 1800
    nl = 24 if quick else 300
    for i in range(n):
        yield {"id": "g%d" % i, "kind": "dag", "seed": env.derive_seed(seed, ID, i),
               "kinds_per_point": 2 if quick else len(F.EXC_KINDS)}
    for i in range(nl):
        yield {"id": "l%d" % i, "kind": "dag", "seed": env.derive_seed(seed, ID, "line", i), "lines": True,
               "kinds_per_point": 0, "kinds_per_line": 1 if quick else 3, "max_lines": 12 if quick else None}


def run_case(case):
    k = case.get("kind", "dag")
    if k == "dag":
        case = F.expand_case(case, "c05")
        return F.FaultRunner(case, Judge(), "c05").run()
    if k == "rec":
        return run_rec(case)
    if k == "nonegrid":
        return run_nonegrid(case)
    if k == "deep":
        return run_deep(case)
    raise ValueError(k)


def shrink(case, violations, deadline):
    if case.get("kind", "dag") != "dag":
        return None
    return F.shrink_case(case, run_case, violations, deadline)


def finalize(cov, results):
    c = cov["counters"]
    cov["exhaustive"] = bool(c.get("failure_points_in_clean_runs")) and \
        c.get("failure_points_taken") == c.get("failure_points_in_clean_runs")
    cov["explanation"] = ("exhaustive refers to the failure points of each clean run: every ENTER/EXIT event of "
                          "every generated model's clean evaluation was used as a failure point (%s of %s)"
                          % (c.get("failure_points_taken"), c.get("failure_points_in_clean_runs")))


# ---------------------------------------------------------------------------------------------
class Judge:
    ID = "C05"

    def after_failure(self, R, obs):
        S = R.S
        kind = obs["kind"]
        cat = F.category(kind) if obs["when"] != "line" else "line:" + F.category(kind)
        where = {"point": list(obs["point"]), "kind": kind, "when": obs["when"],
                 "chain": [F.jel(e) for e in obs["chain"]], "seq": F._seqdesc(obs["op"]), "index": obs["index"]}
        exc = obs["exc"]
        inj = obs["injected"]
        # -- the call raises an error carrying the original exception
        R.count("raise_checks")
        if obs["result"][0] == "ok":
            R.V("no-raise", "armed failure did not surface: the call returned a value [%s]" % cat,
                value=repr(obs["result"][1])[:80], **where)
            return
        if obs["raw"]:
            ok = isinstance(exc, NoneReturnedError) if kind == "none" else F.is_original(exc, inj)
            if not ok:
                R.V("raw-exception", "with use_formula_error(False) the call raised %s, not the original exception "
                    "[%s]" % (type(exc).__name__, cat), raised=repr(exc)[:200], **where)
                return
        else:
            if not isinstance(exc, FormulaError):
                R.V("not-formula-error", "failed evaluation raised %s instead of FormulaError [%s]"
                    % (type(exc).__name__, cat), raised=repr(exc)[:200], **where)
                self.consequences(R, obs, where)
                return
            err = obs["err"]
            R.count("original_exception_checks")
            ok = isinstance(err, NoneReturnedError) if kind == "none" else F.is_original(err, inj)
            if not ok:
                R.V("get-error", "get_error() after a failed evaluation is not the original exception [%s]" % cat,
                    got=repr(err)[:200], injected=repr(inj)[:200], **where)
        # -- nothing on the failing chain holds a value; what completed keeps its correct value; nothing else
        self.held_checks(R, obs, where, cat)
        # -- nothing left marked as executing, library self checks
        R.count("idle_checks")
        if obs["idle"]:
            R.V("not-idle", "after a failed evaluation the executor is not idle (%s) [%s]"
                % (",".join(x.split("=")[0] for x in obs["idle"]), cat), state=obs["idle"], **where)
        R.count("sanity_checks")
        p = sanity(S.m)
        if p:
            R.V("sanity", "library self-check fails after a failed evaluation [%s]" % cat, probs=p[:3], **where)

    def held_checks(self, R, obs, where, cat):
        S = R.S
        pu = S.pure()[0]
        expected = dict(obs["before"])
        for el in obs["completed"]:
            if pu.cached(el):
                if el not in pu.memo:
                    raise Inconclusive("completed element %r unknown to the pure evaluator" % (el,))
                expected[el] = pu.memo[el]
        after = obs["after"]
        chain = set(obs["chain"])
        R.count("chain_checks", len(chain))
        R.count("completed_checks", len(expected))
        for el in after:
            if el not in expected:
                if el in chain:
                    R.V("chain-holds", "an element on the failing chain holds a value after the failure [%s]" % cat,
                        element=F.jel(el), value=repr(after[el])[:60], **where)
                else:
                    R.V("incomplete-holds", "an element that did not complete holds a value after the failure [%s]"
                        % cat, element=F.jel(el), value=repr(after[el])[:60], **where)
                return
        for el, v in expected.items():
            if el not in after:
                R.V("completed-lost", "an element completed before the failure lost its value [%s]" % cat,
                    element=F.jel(el), **where)
                return
            if after[el] != v:
                R.V("completed-wrong", "an element completed before the failure holds a wrong value [%s]" % cat,
                    element=F.jel(el), held=repr(after[el])[:60], expected=repr(v)[:60], **where)
                return

    def consequences(self, R, obs, where):
        """after a wrong exception type: record the public consequences too (state, next evaluation)"""
        S = R.S
        d = {"idle": obs["idle"]}
        r = S.call_top()
        d["next_evaluation"] = "returned %r" % (r[1],) if r[0] == "ok" else "raised %s" % type(r[1]).__name__
        R.vio[-1]["detail"]["consequences"] = d

    def after_sequence(self, R, op):
        R.retry(op)


# ---------------------------------------------------------------------------------------------
def run_rec(case):
    style, n = case["style"], case["n"]
    probe = F.Probe()
    probe.frames_on = False
    vio, cnt, matrix, shapes = [], {}, {}, []

    def count(k, v=1):
        cnt[k] = cnt.get(k, 0) + v

    def V(kind, sig, **d):
        vio.append({"kind": kind, "signature": sig, "detail": dict(d, style=style, n=n)})

    per_level = {"cached": 1, "uncached": 1, "mixed": 2, "item": 2}[style]
    x = max(1, n // per_level - 1)
    m, top = F.build_chain(style, probe)
    old = mx.get_recursion()
    try:
        mx.set_recursion(100000)
        r = F.attempt(top, x)
        if r != ("ok", x):
            raise Inconclusive("clean chain evaluation gave %r" % (r,))
        D = probe.maxdepth
        full = F.expected_held_chain(style, x)
        if F.held_all(m) != full:
            raise Inconclusive("held set of the clean chain differs from expectation")
        for L in range(D - 2, D + 3):
            if L < 1:
                continue
            for rounds in (1, 2):
                m.clear_all()
                probe.reset()
                mx.set_recursion(L)
                r = F.attempt(top, x)
                count("limit_checks")
                shapes.append("%s:%d:%+d:%d" % (style, n, L - D, rounds))
                where = {"depth": D, "limit": L, "x": x}
                raised = r[0] == "exc"
                cellname = "%s|D-L=%+d|%s" % (style, D - L, "raised" if raised else "evaluated")
                matrix.setdefault("limit: style x (depth - limit) x outcome", {})
                matrix["limit: style x (depth - limit) x outcome"][cellname] = \
                    matrix["limit: style x (depth - limit) x outcome"].get(cellname, 0) + 1
                if not raised:
                    if D >= L + 2:
                        V("limit-not-enforced", "a chain deeper than the configured recursion limit evaluated "
                          "without DeepReferenceError", **where)
                        break
                    if r[1] != x:
                        V("limit-value", "chain within the recursion limit returned a wrong value", got=r[1], **where)
                        break
                    continue
                e = r[1]
                if D < L:
                    V("limit-early", "a chain shorter than the configured recursion limit failed with %s"
                      % type(mx.get_error() if isinstance(e, FormulaError) else e).__name__, **where)
                    break
                count("failures_injected")
                if not isinstance(e, FormulaError):
                    V("not-formula-error", "failed evaluation raised %s instead of FormulaError [recursion limit]"
                      % type(e).__name__, raised=repr(e)[:200], **where)
                    break
                err = mx.get_error()
                if not isinstance(err, DeepReferenceError):
                    V("get-error", "get_error() after exceeding the recursion limit is not DeepReferenceError",
                      got=repr(err)[:200], **where)
                    break
                completed = {el for el in probe.completed() if el[1] != "u" and not (style == "uncached")}
                expected = {el: full[el] for el in completed}
                after = F.held_all(m)
                count("chain_checks", len(probe.stack))
                count("completed_checks", len(expected))
                if after != expected:
                    extra = [el for el in after if el not in expected]
                    if extra:
                        V("chain-holds", "an element on the failing chain holds a value after the failure "
                          "[recursion limit]", element=F.jel(extra[0]), **where)
                    else:
                        V("completed-lost", "an element completed before the failure lost its value "
                          "[recursion limit]", **where)
                    break
                count("idle_checks")
                idle = executor_idle()
                if idle:
                    V("not-idle", "after a failed evaluation the executor is not idle (%s) [recursion limit]"
                      % ",".join(i.split("=")[0] for i in idle), state=idle, **where)
                    break
                p = sanity(m)
                if p:
                    V("sanity", "library self-check fails after a failed evaluation [recursion limit]",
                      probs=p[:3], **where)
                    break
                if rounds == 2:
                    r2 = F.attempt(top, x)         # fail again without any repair
                    if r2[0] != "exc" or not isinstance(r2[1], FormulaError):
                        V("second-failure", "second evaluation beyond the recursion limit did not raise "
                          "FormulaError", got=repr(r2)[:200], **where)
                        break
                # repair: raise the limit, retry
                mx.set_recursion(D + 10)
                r3 = F.attempt(top, x)
                count("retry_checks")
                if r3 != ("ok", x):
                    V("retry-value" if r3[0] == "ok" else "retry-raised",
                      "evaluation after a failure returns a value different from the no-failure value"
                      if r3[0] == "ok" else "evaluation after a failure raised %s" % type(r3[1]).__name__,
                      got=repr(r3)[:200], **where)
                    break
                count("later_value_checks")
                if F.held_all(m) != full:
                    V("later-held", "held values after the retry differ from those of a run without failure",
                      **where)
                    break
            if vio:
                break
    finally:
        mx.set_recursion(old)
        try:
            m.close()
        except Exception:     # noqa
            pass
    r = {"violations": vio, "counters": cnt, "matrix": matrix, "nontrivial": True, "shapes": shapes, "case": case}
    if case["id"] == "rec-cached-5":
        r["sample"] = {"recursion_case": case, "measured_depth": D, "limits_tried": list(range(D - 2, D + 3)),
                       "outcomes": matrix.get("limit: style x (depth - limit) x outcome")}
    return r


# ---------------------------------------------------------------------------------------------
# allow_none resolution grid
NG_SRC_TOP = "def top(x):\n    pre__(_space, 'top', (x,))\n    t0 = %s\n    return post__(_space, 'top', (x,), t0 + 1)"
NG_SRC_TGT = "def tgt(x):\n    pre__(_space, 'tgt', (x,))\n    return post__(_space, 'tgt', (x,), x)"


def run_nonegrid(case):
    place = case["place"]
    vio, cnt, matrix, shapes = [], {}, {}, []

    def count(k, v=1):
        cnt[k] = cnt.get(k, 0) + v

    vals3 = [None, True, False]
    for an_cells in vals3:
        for an_space in vals3:
            for an_parent in (vals3 if place in ("child", "itemchild") else [None]):
                for an_model in (False, True):
                    for via_caller in (False, True):
                        from ..mxutil import reset_session
                        reset_session()
                        probe = F.Probe()
                        probe.frames_on = False
                        m = mx.new_model(F.MODEL)
                        m.pre__, m.post__, m.spre__, m.spost__ = probe.pre, probe.post, probe.spre, probe.spost
                        if an_model:
                            m.allow_none = True
                        A = m.new_space("A")
                        if place == "top":
                            host, call, sp = A, "tgt(x)", F.SP_A
                        elif place == "child":
                            host, call, sp = A.new_space("Ch"), "Ch.tgt(x)", F.SP_CH
                            if an_parent is not None:
                                A.allow_none = an_parent
                        elif place == "itemchild":
                            # a child space with its own setting inside an instance of a parametrised space
                            B = m.new_space("B", formula=F.SPACE_FORMULA)
                            host, call, sp = B.new_space("Ch"), "B_[x].Ch.tgt(x)", F.sp_item(1) + ".Ch"
                            A.absref(B_=B)
                            if an_parent is not None:
                                B.allow_none = an_parent
                        else:
                            host, call, sp = m.new_space("B", formula=F.SPACE_FORMULA), "B_[x].tgt(x)", F.sp_item(1)
                            A.absref(B_=host)
                        if an_space is not None:
                            host.allow_none = an_space
                        tgt = host.new_cells("tgt", formula=NG_SRC_TGT)
                        if an_cells is not None:
                            tgt.allow_none = an_cells
                        A.new_cells("top", formula=NG_SRC_TOP % call)
                        chain = [an_cells, an_space] + ([an_parent] if place in ("child", "itemchild") else [])
                        allowed = next((bool(v) for v in chain if v is not None), bool(an_model))
                        level = next((lv for lv, v in zip(["cells", "space", "parent-space"], chain)
                                      if v is not None), "model")
                        el = (sp, "tgt", (1,))
                        probe.arm("post", el, "none")
                        if via_caller:
                            r = F.attempt(A.top, 1)
                        elif place == "item":
                            r = F.attempt(lambda: host(1).tgt(1))
                        elif place == "itemchild":
                            r = F.attempt(lambda: B(1).Ch.tgt(1))
                        else:
                            r = F.attempt(host.tgt, 1)
                        a = probe.disarm()
                        if not a["fired"]:
                            raise Inconclusive("None was not returned by the armed element")
                        count("none_grid_checks")
                        key = "%s|%s|%s" % (place, level, "allowed" if allowed else "refused")
                        matrix.setdefault("none: placement x deciding level x outcome", {})
                        matrix["none: placement x deciding level x outcome"][key] = \
                            matrix["none: placement x deciding level x outcome"].get(key, 0) + 1
                        shapes.append("ng:%s:%r:%r:%r:%r:%d" % (place, an_cells, an_space, an_parent, an_model,
                                                                 via_caller))
                        where = {"place": place, "cells": an_cells, "space": an_space, "parent": an_parent,
                                 "model": an_model, "via_caller": via_caller}
                        held = F.held_all(m)
                        if allowed:
                            # None is a legal value: stored; the caller then fails on None + 1 (its own TypeError)
                            if via_caller:
                                ok = r[0] == "exc" and isinstance(r[1], FormulaError) and \
                                    isinstance(mx.get_error(), TypeError)
                                if not ok or held.get(el, 0) is not None or (F.SP_A, "top", (1,)) in held:
                                    vio.append({"kind": "none-allowed", "signature": "None returned where allow_none "
                                                "resolves true is not stored / caller state wrong",
                                                "detail": dict(where, result=repr(r)[:200],
                                                               held=[repr(x) for x in held.items()])})
                            else:
                                if r != ("ok", None) or held.get(el, 0) is not None:
                                    vio.append({"kind": "none-allowed", "signature": "None returned where allow_none "
                                                "resolves true is refused or not stored",
                                                "detail": dict(where, result=repr(r)[:200])})
                        else:
                            count("failures_injected")
                            ok = r[0] == "exc" and isinstance(r[1], FormulaError) and \
                                isinstance(mx.get_error(), NoneReturnedError)
                            if not ok:
                                vio.append({"kind": "none-refused", "signature": "None returned where allow_none "
                                            "resolves false does not raise FormulaError carrying NoneReturnedError",
                                            "detail": dict(where, result=repr(r)[:200],
                                                           error=repr(mx.get_error())[:100])})
                            else:
                                bad = [e for e in held if e[1] in ("tgt", "top")]
                                count("chain_checks", 2 if via_caller else 1)
                                if bad:
                                    vio.append({"kind": "chain-holds", "signature": "an element on the failing chain "
                                                "holds a value after the failure [none]",
                                                "detail": dict(where, element=F.jel(bad[0]))})
                        idle = executor_idle()
                        count("idle_checks")
                        if idle:
                            vio.append({"kind": "not-idle", "signature": "after a failed evaluation the executor is "
                                        "not idle (%s) [none]" % ",".join(i.split("=")[0] for i in idle),
                                        "detail": dict(where, state=idle)})
                        if not vio and not allowed:
                            r2 = F.attempt(A.top, 1)
                            count("retry_checks")
                            if r2 != ("ok", 2):
                                vio.append({"kind": "retry-value", "signature": "evaluation after a failure returns "
                                            "a value different from the no-failure value",
                                            "detail": dict(where, got=repr(r2)[:200])})
                        if not vio and place in ("item", "itemchild"):
                            # the setting of the space changes while the instance exists: another element of the
                            # same instance follows the new setting
                            host.allow_none = not allowed
                            allowed2 = bool(an_cells) if an_cells is not None else (not allowed)
                            el2 = (sp, "tgt", (2,))
                            probe.arm("post", el2, "none")
                            if place == "item":
                                r = F.attempt(lambda: host(1).tgt(2))
                            else:
                                r = F.attempt(lambda: B(1).Ch.tgt(2))
                            a = probe.disarm()
                            if not a["fired"]:
                                raise Inconclusive("None was not returned by the armed element (second phase)")
                            count("none_grid_checks")
                            key = "%s|space setting changed under a live instance|%s" % (
                                place, "allowed" if allowed2 else "refused")
                            matrix["none: placement x deciding level x outcome"][key] = \
                                matrix["none: placement x deciding level x outcome"].get(key, 0) + 1
                            if allowed2 and r != ("ok", None):
                                vio.append({"kind": "none-allowed", "signature": "None returned where allow_none "
                                            "resolves true is refused or not stored",
                                            "detail": dict(where, phase="setting changed under a live instance",
                                                           result=repr(r)[:200])})
                            elif not allowed2 and not (r[0] == "exc" and isinstance(r[1], FormulaError)
                                                       and isinstance(mx.get_error(), NoneReturnedError)):
                                vio.append({"kind": "none-refused", "signature": "None returned where allow_none "
                                            "resolves false does not raise FormulaError carrying NoneReturnedError",
                                            "detail": dict(where, phase="setting changed under a live instance",
                                                           result=repr(r)[:200])})
                        m.close()
                        if vio:
                            return {"violations": vio, "counters": cnt, "matrix": matrix, "shapes": shapes,
                                    "nontrivial": True, "case": case}
    r = {"violations": vio, "counters": cnt, "matrix": matrix, "shapes": shapes, "nontrivial": True, "case": case}
    if place == "top":
        r["sample"] = {"none_grid": place, "combinations": cnt.get("none_grid_checks", 0),
                       "outcomes": matrix.get("none: placement x deciding level x outcome")}
    return r


# ---------------------------------------------------------------------------------------------
# deep chains in a child process
def run_deep(case):
    cmd = [env.PYTHON, "-X", "faulthandler", "-m", "mxv.c05_deep", json.dumps(case)]
    cnt = {"deep_children": 1}
    vio = []
    try:
        p = subprocess.run(cmd, cwd=env.VERIF, env=env.child_env(), timeout=600,
                           stdout=subprocess.PIPE, stderr=subprocess.PIPE)
    except subprocess.TimeoutExpired:
        raise Inconclusive("deep-chain child timed out: %r" % (case,))
    out = p.stdout.decode(errors="replace").strip().splitlines()
    res = None
    for line in reversed(out):
        if line.startswith("{"):
            try:
                res = json.loads(line)
                break
            except ValueError:
                pass
    where = {"style": case["style"], "depth": case["depth"], "limit": case["limit"], "fault": case["fault"]}
    if p.returncode < 0 or (p.returncode != 0 and res is None and
                            ("Fatal Python error" in p.stderr.decode(errors="replace")
                             or "Segmentation fault" in p.stderr.decode(errors="replace"))):
        vio.append({"kind": "crash", "signature": "interpreter died evaluating a chain within the recursion limit"
                    if not _over(case) else "interpreter died on a chain over the recursion limit",
                    "detail": dict(where, returncode=p.returncode, stderr=p.stderr.decode(errors="replace")[-1500:])})
        return {"violations": vio, "counters": cnt, "nontrivial": True, "shape": "deep:%r" % sorted(where.items()),
                "case": case}
    if res is None or p.returncode != 0:
        raise Inconclusive("deep-chain child failed (rc=%s): %s" % (p.returncode,
                                                                    p.stderr.decode(errors="replace")[-800:]))
    if res.get("inconclusive"):
        raise Inconclusive("deep-chain child: %s" % res["inconclusive"])
    for pr in res.get("problems", []):
        vio.append({"kind": pr["kind"], "signature": pr["signature"], "detail": dict(where, **pr.get("detail", {}))})
    for k, v in res.get("counters", {}).items():
        cnt[k] = cnt.get(k, 0) + v
    key = "%s|%s|%s" % (case["style"], "over-limit" if _over(case) else "depth<=%d" % case["depth"],
                        "fault-at-bottom" if case["fault"] else "clean")
    r = {"violations": vio, "counters": cnt, "nontrivial": True, "shape": "deep:%r" % sorted(where.items()),
         "matrix": {"deep chains: style x depth x fault": {key: 1}}, "case": case}
    if case["id"] == "deep0":
        r["sample"] = {"deep_chain": where, "timings": res.get("timings"), "observed": res.get("observed")}
    return r


def _over(case):
    limit = case["limit"] or 100000
    return case["depth"] > limit + 1
