"""C14 - saving never loses the last good save; failed saves and loads leave no residue.

Workload (fault enumeration): a small corpus of models (plain / pickled data with
poison values / ItemSpace inputs / pandas IOSpecs / all of it) x formats {dir, zip} x
on-disk prefixes of 0-4 earlier generations x EVERY audited file operation of the
faulty save as failure point (persistent = deciding mode, one-shot judged when the call
raised), pickling faults by poison values, failures in the middle of a write to an
open file, the same for read_model (every operation, unpickling faults, damaged
member files), and fault sequences (1-5 consecutive failed saves then a good one,
failures during backup rotation, failed loads in between).

Oracle: generation markers (every save attempt writes a model whose literal reference
`gen` is the attempt number), file-tree hashes recorded when a generation was completely
written, read_model of every candidate copy (in-process, after the serialisation flags
were verified clear), registry listing, public snapshots.
"""
import collections
import functools
import os
import random
import shutil
import tempfile
import time
import zipfile

from .. import env
from .. import c14_fault as F
from ..mxutil import mx, reset_session, snap_model, dict_diff, val, canon, sanity, Inconclusive

ID = "C14"
LEVEL = "fault_enumeration"
RULE = ("corpus model kind x variant x format {dir,zip} x number of earlier generations on disk (0-4) x failure "
        "point: every audited file operation (open/mkdir/rename/remove/rmdir/scandir/move/rmtree/copyfile/mkdtemp/"
        "find_class ...) of the clean run of that very save or load, taken persistent (deciding) and one-shot, "
        "plus poison-value pickling/unpickling faults, plus failing write() calls on open files, plus damaged "
        "member files for loads; each failure point starts from an identical restored on-disk state and a "
        "freshly built model; fault sequences are seeded histories of save/load attempts (shrinkable). "
        "non-trivial = the injected fault fired; distinct = distinct (kind, variant, format, prefix, fault spec) "
        "or distinct sequence of (op, fault phase)")
ASSUMPTIONS = [
    "failure points are the audited file operations and pickling calls; failures inside a write to an open file "
    "are injected through a wrapped io.open (a few in quick, enumerated in thorough)",
    "one-shot faults that the standard library absorbs (zipfile retrying 'w+b', is_zipfile swallowing OSError, "
    "shutil.move falling back to copy) so that the save returns normally are counted as absorbed_by_stdlib and not "
    "judged for archive completeness",
    "a copy is 'complete' when read_model succeeds on it, its gen marker is an attempt number and its values and "
    "public snapshot equal those of a clean save of the same corpus model; 'intact' when its file-tree hash equals "
    "the one recorded when it was written",
    "after a clean save from a state without partial copies exactly min(3, available) earlier generations are "
    "expected at _BAK1.._BAK3 (reading of 'up to three earlier generations are kept in order')",
    "serialisation flags are read from modelx.core.mxsys (internal attribute names); a missing attribute is "
    "inconclusive",
    "the cross-device variant makes the rename out of the temporary directory fail with EXDEV so that shutil.move "
    "copies the archive (what happens when the temp dir is on another file system)",
]
MIN_COUNTERS = {
    "quick": {"save_fault_points": 600, "load_fault_points": 250, "copies_read": 1400, "layout_checks": 1800,
              "last_good_checks": 1700, "residue_checks": 2300, "sequence_attempts": 500, "pickle_fault_points": 12,
              "damaged_member_loads": 60, "followup_saves": 700, "write_fault_points": 30, "shift_checks": 250,
              "zip_destination_checks": 1000},
    "thorough": {"save_fault_points": 5000, "load_fault_points": 2500, "copies_read": 15000,
                 "layout_checks": 20000, "last_good_checks": 18000, "residue_checks": 25000,
                 "sequence_attempts": 7000, "pickle_fault_points": 150, "damaged_member_loads": 1000,
                 "write_fault_points": 2000, "followup_saves": 8000, "shift_checks": 3000,
                 "zip_destination_checks": 12000},
}
SHARD_TIMEOUT = {"quick": 900, "thorough": 3600}
CHUNK = {"quick": 2, "thorough": 4}
MAX_CONFIRM = 16

SIG_S = "C14-S consecutive failed saves push the last good copy down"
SIG_X = "C14-X zip copied into place across file systems: a fault during the copy leaves a truncated archive"

KINDS = ["plain", "pickled", "itemspace", "pandas", "mixed"]
SUFFIXES = ["", "_BAK1", "_BAK2", "_BAK3"]
POISON_TAGS = ["p0", "p1", "p2", "p3"]


# ===================================================================== corpus
def _has(kind, what):
    return kind == "mixed" or kind == what


def apply_gen(m, kind, var, gen):
    """(re)assign everything that depends on the generation marker"""
    A, B = m.A, m.B
    A.gen = gen
    B.g[5] = gen * 100
    A.f[1] = 7
    if _has(kind, "pickled"):
        A.data = [gen] * 3
        A.blob = {"k": {1, 2, 3}, "b": b"\x00\x01\xff", "t": (gen, None)}
        A.f[2] = (gen, [1, 2])
    if _has(kind, "pandas"):
        import pandas as pd
        df = pd.DataFrame({"a": [1, 2, gen], "b": [0.5, 1.5, 2.5]})
        ser = pd.Series([gen, 2, 3], name="ser")
        if "df" in m.refs:
            m.update_pandas(m.df, df)
            m.update_pandas(A.ser, ser)
        else:
            m.new_pandas("df", "files/df.xlsx", df, file_type="excel")
            A.new_pandas("ser", "files/ser.csv", ser, file_type="csv")
    if _has(kind, "itemspace"):
        # last: any later namespace change of A discards the instances
        A[1].f[2] = 70
        A[2].Ch.c[5] = 50 + gen


def build(kind, gen, var=0, name="G"):
    m = mx.new_model(name)
    m.doc = "corpus model %s/%d" % (kind, var)
    if _has(kind, "itemspace"):
        A = m.new_space("A", formula="lambda p: None")
    else:
        A = m.new_space("A")
    A.new_cells("f", formula="lambda x: x + gen")
    Ch = A.new_space("Ch")
    Ch.new_cells("c", formula="def c(x):\n    \"\"\"doubling\"\"\"\n    return x * 2")
    Ch.k = "lit"
    A.gen = 0
    B = m.new_space("B", bases=A)
    B.new_cells("g", formula="def g(x):\n    return f(x) + 1")
    m.top = A
    for i in range(var % 3):
        X = m.new_space("X%d" % i)
        X.new_cells("h", formula="lambda x=1: x + %d" % i)
        X.lit = (i, "t", 2.5)
        if (var + i) % 2:
            X.new_space("Deep").new_cells("d", formula="lambda: %d" % (i + 40))
    if _has(kind, "pickled"):
        Ch.p0 = F.Poison("p0")
        B.p1 = F.Poison("p1")
        m.p2 = F.Poison("p2")
        Ch.c[9] = F.Poison("p3")
    apply_gen(m, kind, var, gen)
    return m


def probe_values(m, kind, var):
    """values observed through the public API (each value or ('ERR', class))"""
    out = {}

    def put(k, fn, *a):
        out[k] = canon(val(fn, *a))

    put("A.gen", lambda: m.A.gen)
    put("B.gen", lambda: m.B.gen)
    put("A.f(1)", lambda: m.A.f(1))
    put("A.f(3)", lambda: m.A.f(3))
    put("Ch.c(3)", lambda: m.A.Ch.c(3))
    put("Ch.k", lambda: m.A.Ch.k)
    put("B.g(2)", lambda: m.B.g(2))
    put("B.g(5)", lambda: m.B.g(5))
    put("top", lambda: m.top.fullname.split(".", 1)[1])
    put("doc", lambda: m.doc)
    for i in range(var % 3):
        put("X%d.h()" % i, lambda i=i: m.spaces["X%d" % i].h())
        put("X%d.lit" % i, lambda i=i: m.spaces["X%d" % i].lit)
        if (var + i) % 2:
            put("X%d.Deep.d()" % i, lambda i=i: m.spaces["X%d" % i].Deep.d())
    if _has(kind, "pickled"):
        put("A.data", lambda: m.A.data)
        put("A.blob", lambda: m.A.blob)
        put("A.f(2)", lambda: m.A.f(2))
        put("p0", lambda: m.A.Ch.p0)
        put("p1", lambda: m.B.p1)
        put("p2", lambda: m.p2)
        put("Ch.c(9)", lambda: m.A.Ch.c(9))
    if _has(kind, "pandas"):
        put("df", lambda: m.df.to_dict("list"))
        put("ser", lambda: list(m.A.ser))
        put("B.ser", lambda: list(m.B.ser))
        put("specs", lambda: sorted(str(s.path).replace("\\", "/") for s in m.iospecs))
    if _has(kind, "itemspace"):
        put("A[1].f(2)", lambda: m.A[1].f(2))
        put("A[1].f(3)", lambda: m.A[1].f(3))
        put("A[2].Ch.c(5)", lambda: m.A[2].Ch.c(5))
        put("A[2].Ch.c(1)", lambda: m.A[2].Ch.c(1))
    return out


def snap(m):
    """public snapshot without the model name and without the reference mode of non-object values (the mode
    of plain values is not preserved by write/read - C04's subject, mechanism P - and is an arbitrary number
    for space-level IOSpec references)"""
    d = snap_model(m, with_name=False)

    def strip(node):
        for r in node.get("refs", {}).values():
            if isinstance(r, dict) and r.get("value", [None])[0] == "val":
                r.pop("mode", None)
        for ch in node.get("spaces", {}).values():
            strip(ch)
    strip(d)
    return d


def _tmpname(prefix):
    i = 0
    while "%s%d" % (prefix, i) in mx.get_models():
        i += 1
    return "%s%d" % (prefix, i)


@functools.lru_cache(maxsize=None)
def _expected_values(kind, gen, var):
    m = build(kind, gen, var, name=_tmpname("Exp"))
    try:
        return probe_values(m, kind, var)
    finally:
        m.close()


@functools.lru_cache(maxsize=None)
def _ref_snapshot(kind, gen, var, fmt):
    """public snapshot of a clean save of the corpus model, read back (no fault anywhere near)"""
    d = tempfile.mkdtemp(prefix="mxv_c14_ref_")
    m = build(kind, gen, var, name=_tmpname("Ref"))
    try:
        p = os.path.join(d, "m.zip" if fmt == "zip" else "m")
        (m.zip if fmt == "zip" else m.write)(p, backup=False)
        r = mx.read_model(p, name=_tmpname("RefR"))
        try:
            return snap(r)
        finally:
            r.close()
    finally:
        m.close()
        shutil.rmtree(d, ignore_errors=True)


def flags_set():
    try:
        s = mx.core.mxsys
        out = []
        if s.serializing:
            out.append("system.serializing")
        if s.iomanager.serializing:
            out.append("iomanager.serializing")
        return out
    except AttributeError as e:
        raise Inconclusive("serialisation flags not observable: %s" % e)


# ===================================================================== the sandbox of a case
def _scratch_parent():
    """a memory-backed directory when there is one (thousands of small trees are created and removed)"""
    if os.environ.get("TMPDIR"):
        return None
    d = "/dev/shm"
    return d if os.path.isdir(d) and os.access(d, os.W_OK | os.X_OK) else None


class Ctx:
    def __init__(self, case):
        self.case = case
        self.kind, self.var, self.fmt = case["kind"], case.get("var", 0), case["fmt"]
        self.base = os.path.realpath(tempfile.mkdtemp(prefix="mxv_c14_", dir=_scratch_parent()))
        self.work = os.path.join(self.base, "work")
        self.tmp = os.path.join(self.base, "tmp")
        self.pristine = os.path.join(self.base, "pristine")
        os.mkdir(self.work)
        os.mkdir(self.tmp)
        self.old_tempdir = tempfile.tempdir
        tempfile.tempdir = self.tmp
        self.tname = "m.zip" if self.fmt == "zip" else "m"
        self.target = os.path.join(self.work, self.tname)
        self.by_hash = {}           # tree hash -> classification obtained by reading such a copy
        self.hash_of = {}           # gen -> tree hash recorded when it was completely written
        self.L = 0                  # most recent completely written generation
        self.nfail = 0              # consecutive failed attempts
        self.dirty = False          # a partial copy may sit among the copies (some attempt failed)
        self.vio = []
        self.cnt = collections.Counter()
        self.matrix = collections.defaultdict(collections.Counter)
        self.shapes = []
        self.sample = None
        self.fired_any = False
        self.xdev = bool(case.get("xdev"))
        self.errno = case.get("errno", "ENOSPC")

    def close(self):
        tempfile.tempdir = self.old_tempdir
        shutil.rmtree(self.base, ignore_errors=True)

    def V(self, kind, sig, **detail):
        detail.setdefault("kind_", self.kind)
        detail.setdefault("fmt", self.fmt)
        self.vio.append({"kind": kind, "signature": sig, "detail": detail})

    def save(self, m, path=None):
        path = path or self.target
        return (m.zip if self.fmt == "zip" else m.write)(path)

    def path(self, suffix):
        return self.target + suffix

    def clean_tmp(self):
        for n in os.listdir(self.tmp):
            p = os.path.join(self.tmp, n)
            shutil.rmtree(p, ignore_errors=True) if os.path.isdir(p) else os.remove(p)

    def snapshot_disk(self, dst):
        shutil.rmtree(dst, ignore_errors=True)
        shutil.copytree(self.work, dst)

    def restore_disk(self, src):
        shutil.rmtree(self.work)
        shutil.copytree(src, self.work)
        self.clean_tmp()


def phases(log, tname):
    """phase label of every event of a save: rotate / write / move / cleanup"""
    out = []
    cur = "rotate"
    t = "work/" + tname
    for ev, first, second in log:
        first = first or ""
        rel = not (first.startswith("work/") or first.startswith("tmp/") or first in ("work", "tmp"))
        if ev == "pickle.find_class":
            ph = cur
        elif rel:
            ph = cur
        elif first.startswith(t + "_BAK") or (second and second.startswith(t + "_BAK")):
            ph = "rotate"
        elif ev == "shutil.move" or (second is not None and second in (t, t + ".part")) or first == t + ".part":
            ph = "move"
        elif cur in ("move", "cleanup"):
            ph = "cleanup" if (ev == "shutil.rmtree" or cur == "cleanup") else "move"
        else:
            ph = "write"
        cur = ph
        out.append(ph)
    return out


# ===================================================================== reading copies
def read_copy(ctx, path, why):
    """-> {'status': 'complete', 'gen': g} | {'status': 'incomplete', 'why': ...}; a failed read must leave
    no residue (that is the load half of the property: a partial copy is a damaged input)"""
    ctx.cnt["copies_read"] += 1
    before = set(mx.get_models())
    name = _tmpname("Rd")
    try:
        r = mx.read_model(path, name=name)
    except Exception as e:     # noqa
        ctx.cnt["copies_unreadable"] += 1
        ctx.cnt["residue_checks"] += 1
        left = sorted(set(mx.get_models()) - before)
        fl = flags_set()
        if left:
            ctx.V("load-residue", "failed load left a half-loaded model registered", models=left, copy=why,
                  error=type(e).__name__, files=F.listing(path))
            for n in left:
                try:
                    mx.get_models()[n].close()
                except Exception:    # noqa
                    pass
        if fl:
            ctx.V("load-flags", "serialisation flag left set after a failed load", flags=fl, copy=why,
                  error=type(e).__name__)
        return {"status": "incomplete", "why": "read raised %s" % type(e).__name__}
    try:
        g = val(lambda: r.A.gen)
        if not isinstance(g, int) or isinstance(g, bool) or g < 1:
            return {"status": "incomplete", "why": "no generation marker (%r)" % (g,)}
        vals = probe_values(r, ctx.kind, ctx.var)
        exp = _expected_values(ctx.kind, g, ctx.var)
        if vals != exp:
            return {"status": "incomplete", "gen_marker": g, "why": "values differ", "diff": dict_diff(exp, vals)[:3]}
        sn = snap(r)
        ref = _ref_snapshot(ctx.kind, g, ctx.var, ctx.fmt)
        if sn != ref:
            return {"status": "incomplete", "gen_marker": g, "why": "snapshot differs",
                    "diff": dict_diff(ref, sn)[:3]}
        return {"status": "complete", "gen": g}
    finally:
        try:
            r.close()
        except Exception:     # noqa
            pass


def disk_state(ctx, why):
    """state of <path>, _BAK1.._BAK3 (+ names of any further _BAK<n>)"""
    st = {}
    for suf in SUFFIXES:
        p = ctx.path(suf)
        if not os.path.lexists(p):
            continue
        h = F.tree_hash(p)
        ctx.cnt["copies_classified"] += 1
        if h in ctx.by_hash:
            # byte-identical to a copy that was already read in this case: same content, same classification
            d = dict(ctx.by_hash[h])
        else:
            d = read_copy(ctx, p, "%s %s" % (why, suf or "<path>"))
            ctx.by_hash[h] = dict(d)
        d["hash"] = h
        if d["status"] == "complete":
            rec = ctx.hash_of.get(d["gen"])
            d["intact"] = None if rec is None else (rec == h)
        st[suf] = d
    extra = sorted(n for n in os.listdir(ctx.work)
                   if n.startswith(ctx.tname + "_BAK") and n[len(ctx.tname):] not in SUFFIXES)
    return st, extra


def brief(st):
    return {(k or "<path>"): ("gen %d%s" % (v["gen"], "" if v.get("intact") in (None, True) else " MODIFIED")
                              if v["status"] == "complete" else "incomplete (%s)" % v.get("why"))
            for k, v in st.items()}


# ===================================================================== one save attempt + judgement
def attempt_save(ctx, m, gen, fault, step, pre=None):
    """run one save attempt of model `m` (whose gen marker is `gen`) under `fault`; judge the result.
    fault: None | {'type': 'audit', 'k', 'mode'} | {'type': 'pickle', 'tag'} | {'type': 'write', 'j'}
    returns dict(raised, fired, state)"""
    cnt = ctx.cnt
    cnt["executions"] += 1
    reg_before = sorted(mx.get_models())
    snap0 = snap_model(m)
    raised = None
    fired = 0
    ft = fault["type"] if fault else None
    info = {"step": step, "gen": gen, "fault": fault, "L_before": ctx.L, "nfail_before": ctx.nfail}
    if ctx.fmt == "zip" and os.path.lexists(ctx.target + ".part"):
        info["part_before"] = True       # left by an earlier attempt whose clean-up was made to fail
    if pre is not None:
        info["before"] = brief(pre)
    kw = {"errno": ctx.errno, "xdev": ctx.xdev}
    if ft == "audit":
        kw.update(k=fault["k"], persistent=fault["mode"] == "persistent")
    elif ft == "write":
        kw.update(wk=fault["j"], wpersistent=fault.get("persistent", True))
    with F.armed(ctx.base, **kw) as st:
        with F.poison(dump=fault["tag"] if ft == "pickle" else None):
            try:
                ctx.save(m)
            except Exception as e:      # noqa
                raised = e
        fired = st.fired
        log = list(st.log)
    if ft == "pickle" and raised is not None:
        fired = 1
    info["raised"] = type(raised).__name__ if raised is not None else None
    info["fired"] = fired
    if fault and ft == "audit" and 0 < fault["k"] <= len(log):
        ev = log[fault["k"] - 1]
        ph = phases(log, ctx.tname)[fault["k"] - 1]
        info["event"], info["phase"] = ev[0], ph
    elif ft == "pickle":
        info["event"], info["phase"] = "pickle.dump", "write"
    elif ft == "write":
        info["event"], info["phase"] = "write", "write"
        if st.wlog and fault["j"] <= len(st.wlog):
            info["file"] = st.wlog[fault["j"] - 1][0]
            if info["file"] in ("work/" + ctx.tname, "work/" + ctx.tname + ".part"):
                info["phase"] = "move"       # the destination (or its '.part' sibling) is being written: a copy
    else:
        info["event"], info["phase"] = None, None
    if fired:
        ctx.fired_any = True
    uninjected = raised is not None and not fired and not isinstance(raised, F.InjectedOSError)

    # ---- session: flags, registry, source model
    cnt["residue_checks"] += 1
    fl = flags_set()
    if fl:
        ctx.V("save-flags", "serialisation flag left set after a %s save" % ("failed" if raised else "completed"),
              flags=fl, **info)
    reg_after = sorted(mx.get_models())
    if reg_after != reg_before:
        ctx.V("save-registry", "a save changed the model registry", before=reg_before, after=reg_after, **info)
    if raised is not None:
        cnt["source_snapshot_checks"] += 1
        snap1 = snap_model(m)
        if snap1 != snap0:
            ctx.V("save-source", "a failed save changed the source model", diff=dict_diff(snap0, snap1)[:4], **info)

    # ---- disk
    state, extra = disk_state(ctx, "after attempt %d" % step)
    info["after"] = brief(state)
    judge_disk(ctx, state, extra, gen, raised, fault, info, pre)
    if uninjected and not ctx.vio:
        # the save failed although nothing was injected and the disk rules hold: an "error at a file operation"
        # of its own making is still covered by the statement (judged above), but the harness cannot use the
        # attempt as the fault case it planned
        raise Inconclusive("save raised %s: %s without an injected fault" % (type(raised).__name__, raised))
    return {"raised": raised, "fired": fired, "state": state, "info": info, "log": log}


def judge_disk(ctx, state, extra, gen, raised, fault, info, pre):
    cnt = ctx.cnt
    cnt["layout_checks"] += 1
    fmt = ctx.fmt
    ft = fault["type"] if fault else None
    oneshot = (ft == "audit" and fault["mode"] == "oneshot") or (ft == "write" and not fault.get("persistent", True))
    top = state.get("")
    new_complete = bool(top and top["status"] == "complete" and top["gen"] == gen)
    absorbed = raised is None and fault is not None
    where = "fmt=%s phase=%s event=%s" % (fmt, info.get("phase"), info.get("event"))
    if raised is None and not new_complete:
        if oneshot:
            cnt["absorbed_by_stdlib_damaged"] += 1      # stdlib reacted to a fault that un-happened: not judged
        else:
            ctx.V("save-silent", "save returned normally but the destination is not a complete copy: %s" % where,
                  **info)
    if absorbed:
        cnt["absorbed_by_stdlib" if oneshot else "fault_without_effect"] += 1

    # [3] a zip destination never holds a partially written archive
    if fmt == "zip" and top is not None and top["status"] != "complete" and not (oneshot and raised is None):
        cnt["zip_partial_seen"] += 1
        if ctx.xdev and info.get("phase") == "move":
            ctx.V("zip-partial", SIG_X, **info)
        else:
            ctx.V("zip-partial", "zip destination holds a partially written archive: %s" % where, **info)
    if fmt == "zip":
        cnt["zip_destination_checks"] += 1
        # the '<name>.part' sibling through which an archive is put in place belongs to the save: left behind
        # it is residue - unless the injected fault made the removal itself fail (persistent modes), in which
        # case the next successful save has to get rid of it
        cnt["part_residue_checks"] += 1
        if os.path.lexists(ctx.target + ".part"):
            if raised is None:
                ctx.V("part-residue", "a completed zip save left a '.part' file beside the destination", **info)
            elif ft in ("audit", "write") and not oneshot:
                cnt["part_left_while_removal_was_failing"] += 1
            elif info.get("part_before"):
                cnt["part_of_an_earlier_failure_still_there"] += 1     # this attempt did not create it
            else:
                ctx.V("part-residue", "a failed zip save left a '.part' file beside the destination: %s" % where,
                      **info)

    # [1] the most recent completely written copy is intact at <path> or <path>_BAK1
    newest = gen if new_complete else ctx.L
    if newest >= 1:
        cnt["last_good_checks"] += 1
        loc = [s for s in SUFFIXES if s in state and state[s]["status"] == "complete" and state[s]["gen"] == newest]
        ok = any(s in ("", "_BAK1") for s in loc)
        if ok:
            s = [s for s in loc if s in ("", "_BAK1")][0]
            if state[s].get("intact") is False:
                ctx.V("modified", "last good copy is readable but its files were modified: %s" % where,
                      at=s or "<path>", **info)
        else:
            n_consec = ctx.nfail + 1
            pos = SUFFIXES.index(loc[0]) if loc else None
            pre_loc = None
            if pre is not None:
                pl = [s for s in SUFFIXES if s in pre and pre[s]["status"] == "complete" and pre[s]["gen"] == newest]
                pre_loc = SUFFIXES.index(pl[0]) if pl else None
            pre_ok = pre is None or pre_loc in (0, 1) or new_complete
            pre_partial = pre is not None and "" in pre and pre[""]["status"] != "complete"
            if not pre_ok and pos == pre_loc:
                # the copy was already displaced before this attempt (reported then) and did not move
                cnt["last_good_still_displaced"] += 1
            elif (fmt == "dir" and not new_complete and n_consec >= 2 and pre_partial and pre_loc is not None
                    and (pos == pre_loc + 1 or (pos is None and pre_loc == len(SUFFIXES) - 1))):
                # the partial output of the previous failed save was rotated into _BAK1: listed mechanism S
                cnt["known_S_seen"] += 1
                ctx.V("last-good", SIG_S, found_at=loc, consecutive_failed=n_consec, **info)
            elif _readable_after_reset(ctx, newest):
                ctx.V("session", "after a failed save a good copy could not be loaded until the session was reset: "
                      "%s" % where, newest=newest, **info)
            else:
                ctx.V("last-good", "last good copy is neither at the path nor at its first backup: %s nfail=%d"
                      % (where, n_consec), found_at=loc, newest=newest, **info)

    # [2] complete copies in strictly decreasing generation order; not more than three earlier ones
    gens = [state[s]["gen"] for s in SUFFIXES if s in state and state[s]["status"] == "complete"]
    cnt["order_checks"] += 1
    if any(a <= b for a, b in zip(gens, gens[1:])):
        ctx.V("order", "generations out of order among the copies: %s" % where, gens=gens, **info)
    if extra:
        ctx.V("too-many", "more than three backups are kept", extra=extra, **info)
    for s in SUFFIXES[1:]:
        d = state.get(s)
        if d and d["status"] == "complete" and d.get("intact") is False:
            ctx.V("modified", "a backup copy was modified: %s" % where, at=s, **info)
    # exact shift after a successful save from a state without partial copies
    if raised is None and new_complete and pre is not None and not ctx.dirty and fault is None:
        cnt["shift_checks"] += 1
        want = {"": gen}
        for i, s in enumerate(SUFFIXES[:-1]):
            if s in pre and pre[s]["status"] == "complete":
                want[SUFFIXES[i + 1]] = pre[s]["gen"]
        got = {s: d["gen"] for s, d in state.items() if d["status"] == "complete"}
        if got != want:
            ctx.V("shift", "after a successful save the earlier generations are not kept as _BAK1.._BAK3",
                  want={k or "<path>": v for k, v in want.items()}, got={k or "<path>": v for k, v in got.items()},
                  **info)

    # ---- bookkeeping
    if new_complete:
        ctx.L = gen
        ctx.hash_of[gen] = top["hash"]
        ctx.nfail = 0
    else:
        ctx.nfail += 1
        ctx.dirty = True
    ctx.matrix["save fault: format|phase|event"]["%s|%s|%s" % (fmt, info.get("phase"), info.get("event"))] += 1
    ctx.matrix["save outcome: format|fault type|outcome"]["%s|%s|%s" % (
        fmt, (ft + ("-" + fault["mode"] if ft == "audit" else ("-transient" if oneshot else ""))) if ft else "none",
        "raised" if raised is not None else ("complete" if new_complete else "returned-damaged"))] += 1


def _readable_after_reset(ctx, newest):
    """second opinion before a copy is called lost: with the session reset (nothing a failed save may have left
    behind), is generation `newest` readable at <path> or <path>_BAK1 after all?  (ends the case: the source
    model is closed)"""
    reset_session()
    for suf in ("", "_BAK1"):
        p = ctx.path(suf)
        if os.path.lexists(p):
            d = read_copy(ctx, p, "re-read after session reset %s" % (suf or "<path>"))
            if d["status"] == "complete" and d["gen"] == newest:
                return True
    return False


def usable_after(ctx, m, gen, step, pre):
    """after a failed attempt: the source model still computes, and the same model saves cleanly"""
    ctx.cnt["followup_saves"] += 1
    r = attempt_save(ctx, m, gen, None, step, pre=pre)
    if r["raised"] is not None:
        ctx.V("next-save", "a clean save after a failed one raised %s" % type(r["raised"]).__name__,
              msg=str(r["raised"])[:200], step=step)
    return r


def count_clean(ctx, gen, name="Cnt", writes=False):
    """clean counting run of the save of a freshly built model from the current disk state;
    the disk state is restored afterwards.  -> (N, log, number of write() calls)"""
    snap = os.path.join(ctx.base, "wsnap")
    ctx.snapshot_disk(snap)
    m = build(ctx.kind, gen, ctx.var, name=name)
    try:
        with F.armed(ctx.base, k=None, xdev=ctx.xdev, errno=ctx.errno, wk=(10 ** 9 if writes else None)) as st:
            ctx.save(m)
            log, wl = list(st.log), list(st.wlog)
    except Exception as e:    # noqa
        raise Inconclusive("clean counting save raised %s: %s" % (type(e).__name__, e))
    finally:
        m.close()
    ctx.restore_disk(snap)
    shutil.rmtree(snap, ignore_errors=True)
    return len(log), log, wl


def _sample_writes(wl, cap):
    """stratified sample of write() calls: first and last write to every file, the rest evenly spread"""
    first, last = {}, {}
    for j, (name, _) in enumerate(wl, 1):
        first.setdefault(name, j)
        last[name] = j
    keep = set(first.values()) | set(last.values())
    rest = [j for j in range(1, len(wl) + 1) if j not in keep]
    room = max(0, cap - len(keep))
    if room and rest:
        step = max(1, len(rest) // room)
        keep.update(rest[::step][:room])
    return sorted(keep)


def make_prefix(ctx, prefix):
    """`prefix` clean generations on disk, each judged as a clean history"""
    pre, _ = disk_state(ctx, "empty")
    for g in range(1, prefix + 1):
        reset_session()
        m = build(ctx.kind, g, ctx.var)
        r = attempt_save(ctx, m, g, None, g, pre=pre)
        pre = r["state"]
        ctx.cnt["clean_saves"] += 1
        if ctx.vio:
            return None
        if ctx.L != g:
            raise Inconclusive("clean save of generation %d does not read back as a complete copy: %s" %
                               (g, brief(pre)))
    return pre


# ===================================================================== case type 1: every failure point of one save
def run_enum_save(case, ctx):
    prefix = case["prefix"]
    pre0 = make_prefix(ctx, prefix)
    if pre0 is None:
        return
    gen = prefix + 1
    reset_session()
    N, log, wl = count_clean(ctx, gen, name="G", writes=case["mode"] == "write")
    ctx.snapshot_disk(ctx.pristine)
    hashes0 = dict(ctx.hash_of)
    ph = phases(log, ctx.tname)
    mode = case["mode"]
    sampled = False
    if mode == "write":
        js = list(range(1, len(wl) + 1))
        cap = case.get("cap")
        if cap and len(js) > cap:
            js = _sample_writes(wl, cap)
            sampled = True
        points = [{"type": "write", "j": j} for j in js]
        # a write() into the destination directory (the archive being copied into place when the temp dir is on
        # another file system) is also taken as a transient fault: the clean-up of the save can then run
        dest = "work/" + ctx.tname
        points += [{"type": "write", "j": j, "persistent": False} for j in js if wl[j - 1][0].startswith(dest)]
    elif mode == "pickle":
        points = [{"type": "pickle", "tag": t} for t in POISON_TAGS] if _has(ctx.kind, "pickled") else []
    else:
        points = [{"type": "audit", "k": k, "mode": mode} for k in range(1, N + 1)]
    space = len(points)
    if case.get("only") is not None:
        points = [p for p in points if p == case["only"]]
    else:
        points = [p for i, p in enumerate(points) if i % case["nchunks"] == case["chunk"]]
    ctx.enum = {"group": "save|%s|%d|%s|%d|%s|%s%s" % (ctx.kind, ctx.var, ctx.fmt, prefix, mode, ctx.errno,
                                                         "|xdev" if ctx.xdev else ""),
                "space": space, "done": [], "sampled": sampled}
    for fp in points:
        ctx.restore_disk(ctx.pristine)
        ctx.hash_of = dict(hashes0)
        ctx.L, ctx.nfail, ctx.dirty = prefix, 0, False
        reset_session()
        m = build(ctx.kind, gen, ctx.var)
        r = attempt_save(ctx, m, gen, fp, gen, pre=pre0)
        key = "write_fault_points" if mode == "write" else ("pickle_fault_points" if mode == "pickle"
                                                            else "save_fault_points")
        ctx.cnt[key] += 1
        if mode == "pickle":
            ctx.cnt["save_fault_points"] += 1
        ctx.cnt["save_faults_%s" % mode] += 1
        ctx.matrix["rotation depth x format"]["%s|%d earlier" % (ctx.fmt, prefix)] += 1
        pid = "%s%s" % (fp.get("k", fp.get("j", fp.get("tag"))), "t" if fp.get("persistent") is False else "")
        ctx.enum["done"].append(pid)
        if r["fired"]:
            ctx.shapes.append("%s|%s" % (ctx.enum["group"], pid))
        if ctx.sample is None and r["raised"] is not None:
            ctx.sample = {"case": {k: case[k] for k in ("kind", "fmt", "prefix", "mode")}, "clean_run_events": N,
                          "first_events": [list(e) for e in log[:12]], "phases": ph[:12],
                          "failure_point": r["info"]}
        if ctx.vio and not all(v["signature"] == SIG_S for v in ctx.vio):
            return
        if r["raised"] is not None:
            # fail, then succeed: the session and the path are usable
            vals = probe_values(m, ctx.kind, ctx.var)
            ctx.cnt["source_value_checks"] += 1
            if vals != _expected_values(ctx.kind, gen, ctx.var):
                ctx.V("source-values", "after a failed save the source model computes other values",
                      diff=dict_diff(_expected_values(ctx.kind, gen, ctx.var), vals)[:3], **r["info"])
            apply_gen(m, ctx.kind, ctx.var, gen + 1)
            usable_after(ctx, m, gen + 1, gen + 1, r["state"])
            if sanity(m):
                ctx.V("sanity", "library self-check fails after a failed save", probs=sanity(m)[:3], **r["info"])
        if ctx.vio:
            return


# ===================================================================== case type 2: every failure point of one load
def other_model():
    o = mx.new_model("Other")
    s = o.new_space("S")
    s.new_cells("c", formula="lambda x: x + 1")
    s.k = 3
    return o


def judge_failed_load(ctx, before_names, other, snap_other, info, pristine_path):
    cnt = ctx.cnt
    cnt["residue_checks"] += 1
    left = sorted(set(mx.get_models()) - before_names)
    if left:
        ctx.V("load-residue", "failed load left a half-loaded model registered", models=left, **info)
        for n in left:
            try:
                mx.get_models()[n].close()
            except Exception:     # noqa
                pass
    gone = sorted(before_names - set(mx.get_models()))
    if gone:
        ctx.V("load-registry", "a failed load removed or renamed another model", missing=gone,
              now=sorted(mx.get_models()), **info)
    fl = flags_set()
    if fl:
        ctx.V("load-flags", "serialisation flag left set after a failed load", flags=fl, **info)
    if other is not None and not gone:
        if snap_model(other) != snap_other:
            ctx.V("load-other", "a failed load changed another open model", **info)
        if val(other.S.c, 1) != 2:
            ctx.V("load-other", "another open model stopped computing after a failed load", **info)
    if ctx.vio:
        return
    # later loads and saves behave normally
    cnt["followup_loads"] += 1
    try:
        r = mx.read_model(pristine_path)
    except Exception as e:     # noqa
        ctx.V("next-load", "a clean load after a failed one raised %s" % type(e).__name__, msg=str(e)[:200], **info)
        return
    try:
        if r.name != "Saved":
            ctx.V("next-load", "a clean load after a failed one did not get the saved name", name=r.name, **info)
        vals = probe_values(r, ctx.kind, ctx.var)
        if vals != _expected_values(ctx.kind, 1, ctx.var):
            ctx.V("next-load", "a clean load after a failed one gives other values",
                  diff=dict_diff(_expected_values(ctx.kind, 1, ctx.var), vals)[:3], **info)
        elif snap(r) != _ref_snapshot(ctx.kind, 1, ctx.var, ctx.fmt):
            ctx.V("next-load", "a clean load after a failed one gives another model", **info)
        elif info.get("resave"):
            cnt["followup_saves"] += 1
            p2 = os.path.join(ctx.work, "resaved" + (".zip" if ctx.fmt == "zip" else ""))
            try:
                ctx.save(r, p2)
                d = read_copy(ctx, p2, "re-saved after failed load")
                if d["status"] != "complete" or d["gen"] != 1:
                    ctx.V("next-save", "a save after a failed load does not read back", got=d, **info)
            except Exception as e:    # noqa
                ctx.V("next-save", "a save after a failed load raised %s" % type(e).__name__, msg=str(e)[:200], **info)
            finally:
                shutil.rmtree(p2, ignore_errors=True) if os.path.isdir(p2) else (os.path.exists(p2) and os.remove(p2))
                for n in os.listdir(ctx.work):
                    if n.startswith("resaved"):
                        q = os.path.join(ctx.work, n)
                        shutil.rmtree(q, ignore_errors=True) if os.path.isdir(q) else os.remove(q)
    finally:
        try:
            r.close()
        except Exception:     # noqa
            pass
    s = sanity()
    if s:
        ctx.V("sanity", "library self-check fails after a failed load", probs=s[:3], **info)


def saved_copy(ctx):
    reset_session()
    m = build(ctx.kind, 1, ctx.var, name="Saved")
    ctx.save(m)
    m.close()
    d = read_copy(ctx, ctx.target, "clean save")
    if d["status"] != "complete":
        raise Inconclusive("clean save does not read back: %s" % d)
    ctx.hash_of[1] = F.tree_hash(ctx.target)
    ctx.snapshot_disk(ctx.pristine)


def run_enum_load(case, ctx):
    saved_copy(ctx)
    reset_session()
    other_model()
    try:
        with F.armed(ctx.base, k=None, errno=ctx.errno) as st:
            r = mx.read_model(ctx.target)
            log = list(st.log)
        r.close()
    except Exception as e:    # noqa
        raise Inconclusive("clean counting load raised %s: %s" % (type(e).__name__, e))
    N = len(log)
    mode = case["mode"]
    if mode == "unpickle":
        points = [{"type": "unpickle", "tag": t} for t in POISON_TAGS] if _has(ctx.kind, "pickled") else []
    else:
        points = [{"type": "audit", "k": k, "mode": mode} for k in range(1, N + 1)]
    space = len(points)
    if case.get("only") is not None:
        points = [p for p in points if p == case["only"]]
    else:
        points = [p for i, p in enumerate(points) if i % case["nchunks"] == case["chunk"]]
    ctx.enum = {"group": "load|%s|%d|%s|%s|%s" % (ctx.kind, ctx.var, ctx.fmt, mode, ctx.errno),
                "space": space, "done": []}
    for i, fp in enumerate(points):
        reset_session()
        ctx.clean_tmp()
        other = other_model()
        snap_o = snap_model(other)
        before = set(mx.get_models())
        raised = None
        nm = "Loaded" if (fp.get("k", i) % 2) else None
        kw = {"errno": ctx.errno}
        if fp["type"] == "audit":
            kw.update(k=fp["k"], persistent=fp["mode"] == "persistent")
        r = None
        with F.armed(ctx.base, **kw) as st:
            with F.poison(load=fp.get("tag")):
                try:
                    r = mx.read_model(ctx.target, name=nm) if nm else mx.read_model(ctx.target)
                except Exception as e:     # noqa
                    raised = e
            fired = st.fired or (1 if fp["type"] == "unpickle" and raised is not None else 0)
            ev = st.log[fp["k"] - 1][0] if fp["type"] == "audit" and fp["k"] <= len(st.log) else "unpickle"
        ctx.cnt["load_fault_points"] += 1
        ctx.cnt["executions"] += 1
        if fp["type"] == "unpickle":
            ctx.cnt["pickle_fault_points"] += 1
        ctx.cnt["load_faults_%s" % mode] += 1
        ctx.enum["done"].append(fp.get("k", fp.get("tag")))
        if fired:
            ctx.shapes.append("%s|%s" % (ctx.enum["group"], fp.get("k", fp.get("tag"))))
        info = {"fault": fp, "event": ev, "raised": type(raised).__name__ if raised is not None else None,
                "name_arg": nm, "resave": (fp.get("k", 0) % 5 == 0)}
        ctx.matrix["load fault: format|event|outcome"]["%s|%s|%s" % (
            ctx.fmt, ev, "raised" if raised is not None else "returned")] += 1
        if fired:
            ctx.fired_any = True
        if raised is not None and not fired:
            raise Inconclusive("load raised %s without an injected fault: %s" % (type(raised).__name__, raised))
        if raised is None:
            ctx.cnt["absorbed_by_stdlib" if fired else "fault_without_effect"] += 1
            try:
                r.close()
            except Exception:    # noqa
                pass
            continue
        if F.tree_hash(ctx.target) != ctx.hash_of[1]:
            ctx.V("load-wrote", "a failed load modified the saved files", **info)
        judge_failed_load(ctx, before, other, snap_o, info, ctx.target)
        if ctx.sample is None:
            ctx.sample = {"case": {k: case[k] for k in ("kind", "fmt", "mode")}, "clean_run_events": N,
                          "first_events": [list(e) for e in log[:10]], "failure_point": info,
                          "registry_after": sorted(mx.get_models())}
        if ctx.vio:
            return


# ===================================================================== case type 3: damaged member files
DAMAGES = ["empty", "half", "minus1", "garbage", "missing"]


def _damage_bytes(b, how, rnd):
    if how == "empty":
        return b""
    if how == "half":
        return b[:len(b) // 2]
    if how == "minus1":
        return b[:-1]
    if how == "garbage":
        if not b:
            return b"\x80\x04garbage"
        i = rnd.randrange(len(b))
        return b[:i] + bytes((x * 7 + 13) % 256 for x in b[i:i + 9]) + b"\x00(((" + b[i + 9:]
    raise ValueError(how)


def run_corrupt_load(case, ctx):
    saved_copy(ctx)
    rnd = random.Random(case["seed"])
    members = F.listing(ctx.target)
    dam = os.path.join(ctx.work, "damaged" + (".zip" if ctx.fmt == "zip" else ""))
    todo = [(f, h) for f in members for h in DAMAGES]
    if ctx.fmt == "zip":
        todo += [("<archive>", h) for h in ("half", "minus1", "garbage", "tail", "empty")]
    todo = [t for i, t in enumerate(todo) if i % case["nchunks"] == case["chunk"]]
    for f, how in todo:
        reset_session()
        ctx.clean_tmp()
        shutil.rmtree(dam, ignore_errors=True) if os.path.isdir(dam) else (os.path.exists(dam) and os.remove(dam))
        if ctx.fmt == "dir":
            shutil.copytree(ctx.target, dam)
            p = os.path.join(dam, f)
            if how == "missing":
                os.remove(p)
            else:
                with open(p, "rb") as fh:
                    b = fh.read()
                with open(p, "wb") as fh:
                    fh.write(_damage_bytes(b, how, rnd))
        elif f == "<archive>":
            with open(ctx.target, "rb") as fh:
                b = fh.read()
            nb = b[:-40] if how == "tail" else _damage_bytes(b, how, rnd)
            with open(dam, "wb") as fh:
                fh.write(nb)
        else:
            with zipfile.ZipFile(ctx.target) as zi, zipfile.ZipFile(dam, "w", zipfile.ZIP_DEFLATED) as zo:
                for n in zi.namelist():
                    b = zi.read(n)
                    if n == f:
                        if how == "missing":
                            continue
                        b = _damage_bytes(b, how, rnd)
                    zo.writestr(n, b)
        other = other_model()
        snap_o = snap_model(other)
        before = set(mx.get_models())
        raised = None
        r = None
        try:
            r = mx.read_model(dam)
        except Exception as e:     # noqa
            raised = e
        ctx.cnt["damaged_member_loads"] += 1
        info = {"damaged_member": f, "damage": how, "raised": type(raised).__name__ if raised is not None else None,
                "resave": True}
        ctx.matrix["damaged load: format|damage|outcome"]["%s|%s|%s" % (
            ctx.fmt, how, "raised" if raised is not None else "tolerated")] += 1
        ctx.cnt["executions"] += 1
        if raised is not None:
            ctx.shapes.append("corrupt|%s|%d|%s|%s|%s" % (ctx.kind, ctx.var, ctx.fmt, f, how))
        if raised is None:
            ctx.cnt["damage_tolerated"] += 1
            try:
                r.close()
            except Exception:     # noqa
                pass
            continue
        ctx.fired_any = True
        ctx.cnt["load_fault_points"] += 1
        judge_failed_load(ctx, before, other, snap_o, info, ctx.target)
        if ctx.sample is None:
            ctx.sample = {"case": {k: case[k] for k in ("kind", "fmt")}, "members": members, "failure_point": info,
                          "registry_after": sorted(mx.get_models())}
        if ctx.vio:
            return


# ===================================================================== case type 4: fault sequences (histories)
def expand(case):
    if case.get("type") != "seq" or "ops" in case:
        return case
    rnd = random.Random(case["seed"])
    pat = case["pattern"]
    ops = [{"op": "save", "fault": None} for _ in range(case["prefix"])]
    kind = case["kind"]

    def fault():
        r = rnd.random()
        if pat == "rotation" and r < 0.8:
            return {"type": "audit", "phase": "rotate", "u": rnd.random(), "mode": "persistent"}
        if _has(kind, "pickled") and r < 0.2:
            return {"type": "pickle", "tag": rnd.choice(POISON_TAGS)}
        if r < 0.35:
            return {"type": "write", "u": rnd.random()}
        return {"type": "audit", "phase": rnd.choice(["rotate", "write", "write", "move", "cleanup"]),
                "u": rnd.random(), "mode": "persistent"}

    if pat.startswith("F"):
        n = int(pat[1:])
        ops += [{"op": "save", "fault": fault()} for _ in range(n)]
        ops.append({"op": "save", "fault": None})
        if rnd.random() < 0.5:
            ops.append({"op": "save", "fault": None})
    else:
        for _ in range(rnd.randint(4, 8)):
            r = rnd.random()
            if r < 0.5:
                ops.append({"op": "save", "fault": fault()})
            elif r < 0.8:
                ops.append({"op": "save", "fault": None})
            else:
                ops.append({"op": "load", "fault": {"u": rnd.random()}})
        ops.append({"op": "save", "fault": None})
    c = dict(case)
    c["ops"] = ops
    return c


def pick_k(log, ph, want_phase, u):
    idx = [i for i, p in enumerate(ph) if p == want_phase] or list(range(len(log)))
    return idx[min(len(idx) - 1, int(u * len(idx)))] + 1


def run_seq(case, ctx):
    ops = case["ops"]
    same = case.get("same_session", False)
    reset_session()
    m = None
    pre, _ = disk_state(ctx, "empty")
    sig = []
    for i, op in enumerate(ops):
        gen = i + 1
        if op["op"] == "nop":
            continue
        if op["op"] == "save":
            if m is None or not same:
                reset_session()
                m = build(ctx.kind, gen, ctx.var)
            else:
                apply_gen(m, ctx.kind, ctx.var, gen)
            f = op["fault"]
            fp = None
            if f is not None:
                if f["type"] == "pickle":
                    fp = f
                else:
                    N, log, wl = count_clean(ctx, gen, writes=f["type"] == "write")
                    if f["type"] == "write":
                        fp = {"type": "write", "j": 1 + min(len(wl) - 1, int(f["u"] * len(wl)))} if wl else None
                    else:
                        fp = {"type": "audit", "k": pick_k(log, phases(log, ctx.tname), f["phase"], f["u"]),
                              "mode": "persistent"}
            r = attempt_save(ctx, m, gen, fp, gen, pre=pre)
            pre = r["state"]
            ctx.cnt["sequence_attempts"] += 1
            if any(v["signature"] != SIG_S for v in ctx.vio):
                return
            if fp is not None:
                ctx.cnt["sequence_faulted_saves"] += 1
            sig.append("S" if r["raised"] is None else "F:%s" % r["info"].get("phase"))
            ctx.matrix["sequence: format|consecutive failed saves reached"]["%s|%d" % (ctx.fmt, ctx.nfail)] += 1
            if r["raised"] is not None:
                vals = probe_values(m, ctx.kind, ctx.var)
                if vals != _expected_values(ctx.kind, gen, ctx.var):
                    ctx.V("source-values", "after a failed save the source model computes other values",
                          diff=dict_diff(_expected_values(ctx.kind, gen, ctx.var), vals)[:3], **r["info"])
            if ctx.sample is None and i == len(ops) - 1:
                ctx.sample = {"case": {k: case.get(k) for k in ("kind", "fmt", "prefix", "pattern", "same_session")},
                              "attempts": sig, "final_state": brief(pre)}
        elif op["op"] == "load":
            # a failed load of the newest readable copy in the middle of the history
            src = next((ctx.path(s) for s in SUFFIXES if s in pre and pre[s]["status"] == "complete"), None)
            if src is None:
                continue
            before = set(mx.get_models())
            try:
                with F.armed(ctx.base, k=None) as st:
                    rr = mx.read_model(src, name="Cnt")
                    n = len(st.log)
                rr.close()
            except Exception as e:    # noqa
                raise Inconclusive("clean load in a sequence raised %s" % type(e).__name__)
            k = 1 + min(n - 1, int(op["fault"]["u"] * n))
            raised = None
            with F.armed(ctx.base, k=k, persistent=True, errno=ctx.errno):
                try:
                    rr = mx.read_model(src, name="Ld")
                except Exception as e:     # noqa
                    raised = e
            ctx.cnt["sequence_attempts"] += 1
            ctx.cnt["executions"] += 1
            sig.append("L" if raised is None else "FL")
            if raised is None:
                rr.close()
                continue
            ctx.cnt["load_fault_points"] += 1
            ctx.cnt["residue_checks"] += 1
            left = sorted(set(mx.get_models()) - before)
            if left:
                ctx.V("load-residue", "failed load left a half-loaded model registered", models=left, step=gen, k=k)
            if flags_set():
                ctx.V("load-flags", "serialisation flag left set after a failed load", flags=flags_set(), step=gen)
        if any(v["signature"] != SIG_S for v in ctx.vio):
            return
    if any(x.startswith("F") for x in sig):
        ctx.shapes.append("seq|%s|%s|%s|%d|%s" % (ctx.kind, ctx.fmt, "same" if same else "fresh",
                                                  case.get("prefix", 0), ",".join(sig)))
    ctx.matrix["sequence pattern x format"]["%s|%s" % (case.get("pattern"), ctx.fmt)] += 1
    if m is not None and sanity(m):
        ctx.V("sanity", "library self-check fails at the end of a save history", probs=sanity(m)[:3])


# ===================================================================== witnesses of repaired / listed mechanisms
def run_witness(case, ctx):
    """the listed mechanism S as a fixed regression probe (dir, two failing saves)"""
    c = expand({"type": "seq", "kind": "plain", "fmt": "dir", "prefix": 1, "pattern": "F2", "seed": 1})
    c["ops"] = [{"op": "save", "fault": None},
                {"op": "save", "fault": {"type": "audit", "phase": "write", "u": 0.5, "mode": "persistent"}},
                {"op": "save", "fault": {"type": "audit", "phase": "write", "u": 0.5, "mode": "persistent"}},
                {"op": "save", "fault": None}]
    run_seq(c, ctx)


def run_witness_x(case, ctx):
    """regression probe of the repaired mechanism X (findings/c14_witnesses.py:X): zip save with the temp dir on
    another file system, every write() into the destination directory fails"""
    import importlib.util
    spec = importlib.util.spec_from_file_location("c14_witnesses", os.path.join(env.VERIF, "findings",
                                                                                "c14_witnesses.py"))
    mod = importlib.util.module_from_spec(spec)
    spec.loader.exec_module(mod)
    ctx.cnt["witness_probes"] += 1
    r = mod.X()
    ctx.fired_any = True
    ctx.shapes.append("witness|X")
    if r:
        if r.startswith("witness broken"):
            raise Inconclusive("witness X: %s" % r)
        if "not a readable archive" in r:
            ctx.V("zip-partial", SIG_X, observed=r)
        elif "left beside the destination" in r:
            ctx.V("part-residue", "regression probe X (cross-device zip save, transient write error): files left "
                  "beside the destination", observed=r)
        else:
            ctx.V("last-good", "regression probe X (cross-device zip save, transient write error): last good copy "
                  "lost", observed=r)


# ===================================================================== runner interface
def gen_cases(tier, seed):
    quick = tier == "quick"
    rnd = random.Random(env.derive_seed(seed, ID, "plan"))
    cases = []

    def add(**kw):
        kw["id"] = "c%d" % len(cases)
        cases.append(kw)

    # quick: two corpus models (the one with everything + one drawn by the seed); thorough: the whole corpus
    if quick:
        kinds = [("mixed", rnd.randrange(3)), (rnd.choice(["plain", "pickled", "itemspace", "pandas"]),
                                                rnd.randrange(3))]
    else:
        kinds = [(k, v) for k in KINDS for v in range(3)]
    errs = ["ENOSPC", "EIO"]
    # ---- T1: every failure point of one save
    for ki, (kind, var) in enumerate(kinds):
        heavy = _has(kind, "pandas")
        for fmt in ("dir", "zip"):
            for prefix in range(0, 5):
                nch = (4 if fmt == "zip" else 3) if heavy else (2 if fmt == "zip" else 1)
                # persistent (deciding): every rotation depth for both models
                if True:
                    for ch in range(nch):
                        add(type="enum_save", kind=kind, var=var, fmt=fmt, prefix=prefix, mode="persistent",
                            errno=errs[(ki + prefix) % 2], nchunks=nch, chunk=ch)
                # one-shot
                if (quick and prefix == (1 if ki == 0 else 3)) or (not quick and var == 0):
                    for ch in range(nch):
                        add(type="enum_save", kind=kind, var=var, fmt=fmt, prefix=prefix, mode="oneshot",
                            errno=errs[(ki + prefix + 1) % 2], nchunks=nch, chunk=ch)
                if _has(kind, "pickled") and (not quick or prefix in (0, 2)):
                    add(type="enum_save", kind=kind, var=var, fmt=fmt, prefix=prefix, mode="pickle",
                        errno="ENOSPC", nchunks=1, chunk=0)
                # failing write() calls: enumerated for the light models, stratified sample for those with
                # spreadsheet files (hundreds of small writes inside openpyxl)
                if (not quick and var == 0 and prefix in (0, 1, 4)) or (quick and ki == 1 and prefix == 1):
                    nch_w = 1 if quick else (3 if heavy else 2)
                    for ch in range(nch_w):
                        add(type="enum_save", kind=kind, var=var, fmt=fmt, prefix=prefix, mode="write",
                            errno="ENOSPC", nchunks=nch_w, chunk=ch, cap=(24 if quick else (90 if heavy else None)))
        # cross-device variant of the zip save (temp dir on another file system than the destination)
        if (quick and ki == 1) or (not quick and var == 0):
            for prefix in ((1,) if quick else (0, 1, 3)):
                for ch in range(2):
                    add(type="enum_save", kind=kind, var=var, fmt="zip", prefix=prefix, mode="persistent",
                        errno="ENOSPC", nchunks=2, chunk=ch, xdev=True)
                    add(type="enum_save", kind=kind, var=var, fmt="zip", prefix=prefix, mode="oneshot",
                        errno="EIO", nchunks=2, chunk=ch, xdev=True)
                add(type="enum_save", kind=kind, var=var, fmt="zip", prefix=prefix, mode="write",
                    errno="ENOSPC", nchunks=1, chunk=0, xdev=True, cap=(24 if quick else 90))
    # other error numbers (PermissionError is retried by modelx with sleeps: kept small)
    for fmt in ("dir", "zip"):
        add(type="enum_save", kind="plain", var=0, fmt=fmt, prefix=1, mode="persistent", errno="ENOENT",
            nchunks=1, chunk=0)
        if not quick:
            add(type="enum_save", kind="plain", var=0, fmt=fmt, prefix=2, mode="persistent", errno="EACCES",
                nchunks=8, chunk=rnd.randrange(8))
    # ---- T2: every failure point of one load
    for ki, (kind, var) in enumerate(kinds):
        for fmt in ("dir", "zip"):
            for mode in ("persistent", "oneshot"):
                if mode == "oneshot" and ((quick and ki == 0) or (not quick and var != 0)):
                    continue
                nch = 4 if fmt == "zip" else 1
                for ch in range(nch):
                    add(type="enum_load", kind=kind, var=var, fmt=fmt, mode=mode, errno=["EIO", "ENOSPC"][ki % 2],
                        nchunks=nch, chunk=ch)
            if _has(kind, "pickled"):
                add(type="enum_load", kind=kind, var=var, fmt=fmt, mode="unpickle", errno="EIO", nchunks=1, chunk=0)
            if (quick and ki == 1) or (not quick and var == 0):
                add(type="enum_load", kind=kind, var=var, fmt=fmt, mode="persistent", errno="ENOENT",
                    nchunks=2, chunk=0)
                add(type="enum_load", kind=kind, var=var, fmt=fmt, mode="persistent", errno="ENOENT",
                    nchunks=2, chunk=1)
            # ---- T3: damaged member files
            if True:
                nch = 3 if quick else 2
                for ch in range(nch):
                    add(type="corrupt_load", kind=kind, var=var, fmt=fmt, nchunks=nch, chunk=ch,
                        seed=env.derive_seed(seed, ID, "corrupt", kind, var, fmt))
    # ---- T4: fault sequences
    pats = ["F1", "F2", "F3", "F4", "F5", "rotation", "random", "random"]
    n = 144 if quick else 1600
    for i in range(n):
        kind = KINDS[(i + (i // len(KINDS))) % len(KINDS)]
        fmt = "zip" if i % 2 else "dir"
        pat = pats[(i // 2) % len(pats)]
        add(type="seq", kind=kind, var=rnd.randrange(3), fmt=fmt, prefix=rnd.randrange(0, 5), pattern=pat,
            same_session=bool((i // 16) % 2), errno=errs[(i // 4) % 2], xdev=(fmt == "zip" and i % 16 == 5),
            seed=env.derive_seed(seed, ID, "seq", i))
    # mix cheap and expensive cases over the shards (ids stay tied to the plan position)
    random.Random(env.derive_seed(seed, ID, "order")).shuffle(cases)
    cases.sort(key=_weight, reverse=True)          # longest first: the tail of the run is made of short cases
    cases.insert(0, {"type": "witness_S", "kind": "plain", "var": 0, "fmt": "dir", "id": "witness_S"})
    cases.insert(1, {"type": "witness_X", "kind": "plain", "var": 0, "fmt": "zip", "id": "witness_X"})
    return cases


def _weight(case):
    w = {"enum_save": 6, "enum_load": 4, "corrupt_load": 4, "seq": 3}.get(case["type"], 1)
    if _has(case["kind"], "pandas"):
        w *= 2
    if case.get("mode") == "write" or case["fmt"] == "zip":
        w += 1
    return w


def run_case(case):
    case = expand(case)
    t_start = time.time()
    ctx = Ctx(case)
    F.install()
    try:
        t = case["type"]
        if t == "enum_save":
            run_enum_save(case, ctx)
        elif t == "enum_load":
            run_enum_load(case, ctx)
        elif t == "corrupt_load":
            run_corrupt_load(case, ctx)
        elif t == "seq":
            run_seq(case, ctx)
        elif t == "witness_S":
            run_witness(case, ctx)
        elif t == "witness_X":
            run_witness_x(case, ctx)
        else:
            raise Inconclusive("unknown case type %r" % t)
    finally:
        ctx.close()
        try:
            reset_session()
        except Exception:     # noqa
            pass
    res = {"wall_s": round(time.time() - t_start, 2), "violations": ctx.vio, "counters": dict(ctx.cnt), "nontrivial": ctx.fired_any,
           "shapes": ctx.shapes, "matrix": {k: dict(v) for k, v in ctx.matrix.items()},
           "case": case}
    if ctx.sample is not None:
        res["sample"] = ctx.sample
    if getattr(ctx, "enum", None):
        res["enum"] = ctx.enum
    return res


def finalize(cov, results):
    """were the failure points of every clean run enumerated completely?"""
    cov["harness_cases"] = cov.get("evaluations")
    cov["evaluations"] = int((cov.get("counters") or {}).get("executions", 0))     # judged save / load executions
    groups = {}
    sampled = set()
    for r in results:
        e = r.get("enum")
        if not e:
            continue
        if e.get("sampled"):
            sampled.add(e["group"])
            continue
        g = groups.setdefault(e["group"], {"space": e["space"], "done": set(), "spaces": set()})
        g["done"].update(map(str, e["done"]))
        g["spaces"].add(e["space"])
    complete = sum(1 for g in groups.values() if len(g["spaces"]) == 1 and len(g["done"]) == g["space"])
    cov["enumerated_groups"] = len(groups)
    cov["enumerated_groups_complete"] = complete
    cov["failure_points_enumerated"] = sum(len(g["done"]) for g in groups.values())
    cov["sampled_groups"] = len(sampled)
    cov["exhaustive"] = bool(groups) and complete == len(groups)
    cov["exhaustive_over"] = ("every audited operation / poison value / write() call of the clean run of each "
                              "(model, format, prefix, fault mode) group listed in enumerated_groups")


def shrink(case, violations, deadline):
    """histories: drop attempts; enumerations: keep the one failure point that violated"""
    case = expand(case)
    other = [v for v in violations if v.get("signature") != SIG_S]
    if not other:
        return None          # the listed mechanism S alone: its minimal witness is the fixed probe case
    vs = other
    if case.get("type") == "seq":
        from ..shrink import shrink_ops
        return shrink_ops(case, run_case, vs, deadline)
    if case.get("type") in ("enum_save", "enum_load") and case.get("only") is None:
        fp = (vs[0].get("detail") or {}).get("fault")
        if isinstance(fp, dict):
            c = dict(case)
            c["only"] = fp
            c["shrunk"] = True
            return c
    return None
