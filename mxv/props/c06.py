"""C06 - a value edit discards exactly its dependents; inputs persist (engine: mxv/dagcheck.py)."""
import random

from .. import env
from .. import dagcheck

ID = "C06"
LEVEL = "exploration"
RULE = ("seeded random dependency DAGs over two spaces (3-8 cells, fan-in <= 3, self recursion, cached and uncached "
        "cells, references read by name and by attribute path) x histories of 14 operations (evaluate, assign, "
        "overwrite, clear_at, clear, clear_all, reference change) under both settings of the recalculation option; "
        "after each value edit: held set == held-before minus ground-truth dependents, kept elements served without "
        "execution, inputs persist; recalc-on states compared with a lazy twin. Non-trivial = some value edit "
        "discarded at least one dependent; distinct = distinct (DAG size, op-kind sequence)")
ASSUMPTIONS = ["ground-truth dependencies come from the generator's call structure, cross-checked against probe nesting",
               "clearing with the recalculation option on is only required to behave like lazy clearing"]
MIN_COUNTERS = {"quick": {"value_edits": 2000, "dependents_discarded": 1000, "recalc_twin_checks": 200,
                          "enter_events": 10000},
                "thorough": {"value_edits": 60000, "dependents_discarded": 40000, "recalc_twin_checks": 6000,
                             "enter_events": 300000}}


def gen_cases(tier, seed):
    n = 1500 if tier == "quick" else 40000
    for i in range(n):
        yield {"id": "h%d" % i, "seed": env.derive_seed(seed, ID, i), "recalc": i % 4 == 0}


def expand(case):
    if "ops" in case:
        return case
    rnd = random.Random(case["seed"])
    spec = dagcheck.gen_spec(rnd)
    c = dict(case)
    c["spec"] = spec
    c["ops"] = dagcheck.gen_ops(rnd, spec, 14, recalc=case.get("recalc", False))
    return c


def run_case(case):
    return dagcheck.run(expand(case), {"C06"})


def shrink(case, violations, deadline):
    from ..shrink import shrink_ops
    return shrink_ops(expand(case), run_case, violations, deadline)
