"""C18 - an IOSpec lives exactly as long as a reference to its value.

Workload: seeded histories over two models (each A [cells foo, scalar cells sc, child A.Ch],
B(A), C, D(B)) of new_pandas (csv, excel with/without sheet, relative and absolute paths, clashing
locations, invalid / taken names), new_module (from a path, from a module object), binding the value
to further names (space, sub space, child space, model), rebinding names (to ints, plain frames,
modelx objects, other spec'd values, the same value), overriding derived references and deleting the
base/override in every order, update_pandas / update_module with and without a new value, del_spec,
sheet / path changes of a spec, add_bases / remove_bases, close / new model of the same name,
write + read back (directory and zip), write + close + read back and carrying on with the restored
model.

Oracle: a sequential bookkeeping model (mxv/c18_book.py: value key -> defined references, value key ->
spec location) next to a walk over the live references.  After every operation, for every open model:
  * every spec in model.iospecs has a value that a reference of the model is bound to (live walk);
  * every value the history created a spec for, whose spec has not been ended by the history (last
    reference gone, del_spec, close), is listed exactly once, and get_spec(value) is that spec;
  * get_spec of a value whose last reference is gone raises;
  * no two live specs (all open models) claim one file location;
  * a rejected creation left model.iospecs, the name's binding and get_spec(data) as they were;
  * a creation at a location no live spec claims, under a fresh valid name, is accepted;
  * on save: the files below iox/ are exactly the locations of the live specs, each file read directly
    with pandas equals the value, and read_model gives equal values and the same spec locations;
  * internal (marked so): the IOManager holds exactly the specs whose value is bound and no empty shared
    file; mxsys._check_sanity().  An internal-only deviation is turned into a verdict only through a
    public consequence (get_spec answering for an unbound value, save failing / writing a stray file /
    missing a file, a free location refusing a creation); otherwise the case is inconclusive.
"""
import hashlib
import importlib.util
import io as _io
import os
import random
import shutil
import tempfile
import zipfile

from .. import env
from ..mxutil import mx, sanity, Inconclusive
from .. import c18_book as BK

import pandas as pd

ID = "C18"
LEVEL = "exploration"
RULE = ("seeded random histories (14-44 ops) from the op kinds new_pandas/new_module (fresh, clashing location, "
        "invalid or taken name), bind-further/rebind (int, plain frame, modelx object, other spec'd value, same "
        "value, dead value)/override-derived, del (defined, derived), update_pandas/update_module (with/without new "
        "value), del_spec, set_sheet, set_path, add_base/remove_base, close/new_model, write_read (dir/zip), reopen, "
        "over 2 models x 6 owners x 4 names x 9 file locations, plus directed histories and five 'flavours' that add "
        "one trigger outside the core vocabulary (del_space, creation onto a scalar cells name, binding a value in "
        "the other model, '..' path aliases, second spec for one value); a case is "
        "non-trivial when at least one spec ended because its value lost its last reference and at least one value "
        "was bound to >= 2 references; distinct = distinct (op kind, subtype, outcome) sequence")
ASSUMPTIONS = [
    "bookkeeping model mxv/c18_book.py (value -> defined references; derived references exist iff a base's does)",
    "a reference is 'bound to the value' when getattr(owner, name) is that object (identity, as modelx documents)",
    "values that round-trip exactly through excel/csv: int/float/str columns, default/str/2-level index, named Series",
    "ExcelRange (new_excel_range) is not part of the generated vocabulary",
    "read_model of a saved copy is skipped while a spec with an absolute path is alive (the file is shared "
    "process-wide); the file itself is still read back directly",
    "internal observations (IOManager.ios, mxsys._check_sanity) never decide alone",
]
MIN_COUNTERS = {
    "quick": {"spec_set_checks": 35000, "get_spec_checks": 80000, "dead_get_spec_checks": 40000,
              "location_pairs": 35000, "spec_deaths": 3000, "rejected_creations": 2500, "rejected_state_checks": 2500,
              "multi_ref_values": 1500, "save_file_checks": 2000, "direct_file_reads": 1200,
              "readback_value_checks": 1500, "internal_spec_checks": 70000, "free_location_creations": 5000,
              "sanity_checks": 20000, "closed_model_checks": 400, "updates": 900, "base_changes": 800,
              "reopens": 100},
    "thorough": {"spec_set_checks": 700000, "get_spec_checks": 1600000, "dead_get_spec_checks": 800000,
                 "location_pairs": 700000, "spec_deaths": 60000, "rejected_creations": 50000,
                 "rejected_state_checks": 50000, "multi_ref_values": 30000, "save_file_checks": 40000,
                 "direct_file_reads": 24000, "readback_value_checks": 30000, "internal_spec_checks": 1400000,
                 "free_location_creations": 100000, "sanity_checks": 400000, "closed_model_checks": 8000,
                 "updates": 18000, "base_changes": 16000, "reopens": 2000},
}
SHARD_TIMEOUT = {"quick": 900, "thorough": 5400}

N_RANDOM = {"quick": 1500, "thorough": 30000}

SRC = ["K = 3\n\n\ndef f(x):\n    return x * K\n",
       "K = 4\n\n\ndef f(x):\n    return x + K\n",
       "K = 5\nNAME = 'third'\n\n\ndef f(x):\n    return x - K\n"]


# ------------------------------------------------------------------------------------ cases
def gen_cases(tier, seed):
    for j, d in enumerate(DIRECTED):
        yield {"id": "d%d" % j, "ops": d["ops"], "flavour": d.get("flavour", "core"), "seed": j, "final_save": True}
    n = N_RANDOM[tier]
    for i in range(n):
        fl = "core"
        if i % 7 == 6:
            fl = BK.FLAVOURS[(i // 7) % len(BK.FLAVOURS)]
        yield {"id": "h%d" % i, "seed": env.derive_seed(seed, ID, i), "len": 14 + (i % 4) * 10, "flavour": fl,
               "final_save": i % 3 == 0}


def expand(case):
    if "ops" in case:
        return case
    rnd = random.Random(case["seed"])
    d = dict(case)
    d["ops"] = BK.generate(rnd, case["len"], case.get("flavour", "core"))
    return d


def _np(i, m, owner, name, path, sheet=None, vk="dfi", **kw):
    return dict({"op": "new_pandas", "m": m, "owner": owner, "name": name, "path": path, "ftype": BK.ftype_of(path),
                 "sheet": sheet, "vk": vk}, **kw)


def _bind(m, owner, name, val, why="further", sp="setattr"):
    return {"op": "bind", "m": m, "owner": owner, "name": name, "val": val, "sp": sp, "why": why}


def _del(m, owner, name, **kw):
    return dict({"op": "del", "m": m, "owner": owner, "name": name}, **kw)


DIRECTED = [
    # rebind a derived reference, then delete the base one (the order named in the property record)
    {"ops": [_np(0, 0, "A", "x", "iox/f0.xlsx", "s0"), _bind(0, "B", "x", "int:1", "override-int"),
             _del(0, "A", "x"), _np(3, 0, "C", "y", "iox/f0.xlsx", "s0"), _del(0, "B", "x"),
             {"op": "write_read", "m": 0, "fmt": "dir"}]},
    # override with the same value, delete base first, then the override
    {"ops": [_np(0, 0, "A", "x", "iox/c0.csv", None, "ser"), _bind(0, "B", "x", 0, "override-same"),
             _bind(0, "D", "x", 0, "override-same", "set_ref:absolute"), _del(0, "A", "x"), _del(0, "D", "x"),
             {"op": "write_read", "m": 0, "fmt": "zip"}, _del(0, "B", "x"), _np(7, 0, "m", "y", "iox/c0.csv", None)]},
    # every kind of "other value" takes the last reference away, the location is reused each time
    {"ops": [_np(0, 0, "A", "x", "iox/f1.xlsx", "s1"), _bind(0, "A", "x", "obj:A.foo", "rebind-obj"),
             _np(2, 0, "A", "x", "iox/f1.xlsx", "s1"), _bind(0, "A", "x", "obj:C", "rebind-obj", "set_ref:auto"),
             _np(4, 0, "m", "x", "iox/f1.xlsx", "s1"), _bind(0, "m", "x", "obj:A.Ch", "rebind-obj"),
             _np(6, 0, "A.Ch", "x", "iox/f1.xlsx", "s1"), _bind(0, "A.Ch", "x", "p7", "rebind-plain"),
             _np(8, 0, "C", "x", "iox/f1.xlsx", "s1"), _np(9, 0, "C", "x", "iox/f1.xlsx", "s2"),
             _np(10, 0, "D", "z", "iox/f1.xlsx", "s1")]},
    # several references, one of them rebound to a modelx object, the others deleted afterwards
    {"ops": [_np(0, 0, "A", "x", "iox/sub/f2.xlsx", "s0", "mi"), _bind(0, "C", "y", 0), _bind(0, "m", "z", 0),
             _bind(0, "A", "x", "obj:A.foo", "rebind-obj"), _del(0, "C", "y"), _bind(0, "m", "z", "obj:C", "rebind-obj"),
             _np(6, 0, "C", "w", "iox/sub/f2.xlsx", "s0"), {"op": "write_read", "m": 0, "fmt": "dir"}]},
    # two models, same relative locations; the last spec of a file goes away in either model, in either order
    {"ops": [_np(0, 0, "A", "x", "iox/f0.xlsx", "s0"), _np(1, 1, "A", "x", "iox/f0.xlsx", "s0"),
             _np(2, 0, "C", "y", "iox/c0.csv", None, "ser"), _np(3, 1, "C", "y", "iox/c0.csv", None, "dff"),
             _del(1, "A", "x"), {"op": "write_read", "m": 0, "fmt": "dir"}, _del(0, "C", "y"),
             {"op": "write_read", "m": 1, "fmt": "dir"}, _np(8, 1, "m", "x", "iox/f0.xlsx", "s0"),
             _np(9, 0, "m", "y", "iox/c0.csv", None)]},
    {"ops": [_np(0, 0, "A", "x", "iox/f0.xlsx", "s0"), _np(1, 1, "A", "x", "iox/f0.xlsx", "s0"),
             {"op": "close", "m": 1}, {"op": "write_read", "m": 0, "fmt": "zip"}, {"op": "new_model", "m": 1},
             _np(5, 1, "B", "x", "iox/f0.xlsx", "s0"), {"op": "close", "m": 0}, {"op": "write_read", "m": 1, "fmt": "dir"},
             {"op": "new_model", "m": 0}, _np(9, 0, "A", "x", "iox/f0.xlsx", "s0"),
             _bind(1, "B", "x", "int:3", "rebind-int"), _bind(0, "A", "x", "int:4", "rebind-int")]},
    # rejected creations of every kind, around a live spec
    {"ops": [_np(0, 0, "A", "x", "iox/f0.xlsx", "s0"), _np(1, 0, "A", "1bad", "iox/f1.xlsx", "s0", bad=True),
             _np(2, 0, "A", "foo", "iox/f1.xlsx", "s0", bad=True), _np(3, 0, "A", "Ch", "iox/c0.csv", None, bad=True),
             _np(4, 0, "m", "A", "iox/c0.csv", None, bad=True), _np(5, 0, "B", "foo", "iox/f0.xlsx", "s1", bad=True),
             _np(6, 0, "C", "y", "iox/f0.xlsx", "s0"), _np(7, 0, "C", "y", "iox/f0.xlsx", None),
             {"op": "new_module", "m": 0, "owner": "A", "name": "1bad", "path": "iox/m0.py", "src": 0, "asobj": False,
              "bad": True},
             {"op": "new_module", "m": 0, "owner": "C", "name": "y", "path": "iox/m0.py", "src": 0, "asobj": True},
             {"op": "new_module", "m": 0, "owner": "C", "name": "z", "path": "iox/m0.py", "src": 1, "asobj": False},
             _np(11, 0, "C", "w", "iox/f1.xlsx", "s0"), _np(12, 0, "m", "1bad", "iox/c0.csv", None, bad=True),
             {"op": "write_read", "m": 0, "fmt": "dir"}]},
    # update with / without a new value over several references, then release one by one
    {"ops": [_np(0, 0, "A", "x", "iox/f0.xlsx", "s0"), _bind(0, "C", "y", 0), _bind(0, "m", "z", 0),
             {"op": "update", "m": 0, "old": 0, "kind": "pandas", "new": "fresh", "vk": "dff"},
             {"op": "update", "m": 0, "old": 3, "kind": "pandas", "new": None, "vk": "dff"},
             _del(0, "A", "x"), _del(0, "m", "z"), {"op": "write_read", "m": 0, "fmt": "dir"}, _del(0, "C", "y"),
             _np(9, 0, "A", "x", "iox/f0.xlsx", "s0")]},
    {"ops": [{"op": "new_module", "m": 0, "owner": "A", "name": "x", "path": "iox/m0.py", "src": 0, "asobj": False},
             _bind(0, "C", "y", 0), {"op": "update", "m": 0, "old": 0, "kind": "module", "new": "fresh", "src": 1},
             {"op": "update", "m": 0, "old": 2, "kind": "module", "new": None, "src": 1},
             {"op": "write_read", "m": 0, "fmt": "dir"}, _del(0, "A", "x"), _del(0, "C", "y"),
             {"op": "new_module", "m": 0, "owner": "m", "name": "x", "path": "iox/m0.py", "src": 2, "asobj": True}]},
    # restored model carries on
    {"ops": [_np(0, 0, "A", "x", "iox/f0.xlsx", "s0"), _np(1, 0, "A", "y", "iox/f0.xlsx", "s1", "ser"),
             _bind(0, "C", "z", 0), {"op": "reopen", "m": 0}, _del(0, "A", "x"), _del(0, "A", "y"),
             _np(6, 0, "m", "w", "iox/f0.xlsx", "s1"), _del(0, "C", "z"), _np(8, 0, "m", "x", "iox/f0.xlsx", "s0"),
             {"op": "write_read", "m": 0, "fmt": "dir"}]},
    # sheet / path changes
    {"ops": [_np(0, 0, "A", "x", "iox/f0.xlsx", "s0"), _np(1, 0, "A", "y", "iox/f0.xlsx", "s1"),
             _np(2, 0, "C", "z", "iox/f1.xlsx", "s1"), {"op": "set_sheet", "m": 0, "key": 0, "sheet": "s1"},
             {"op": "set_path", "m": 0, "key": 2, "path": "iox/f0.xlsx"}, {"op": "set_sheet", "m": 0, "key": 0, "sheet": "s2"},
             {"op": "set_path", "m": 0, "key": 2, "path": "iox/sub/f2.xlsx"}, _np(7, 0, "C", "w", "iox/f0.xlsx", "s0"),
             _np(8, 0, "m", "w", "iox/f1.xlsx", "s1"), {"op": "write_read", "m": 0, "fmt": "dir"}]},
    # base changes while specs are alive
    {"ops": [_np(0, 0, "A", "x", "iox/f0.xlsx", "s0"), {"op": "add_base", "m": 0, "sub": "C", "base": "A"},
             _bind(0, "C", "x", "int:1", "override-int"), {"op": "remove_base", "m": 0, "sub": "C", "base": "A"},
             {"op": "remove_base", "m": 0, "sub": "B", "base": "A"}, _del(0, "A", "x"),
             _np(6, 0, "B", "x", "iox/f0.xlsx", "s0"), {"op": "add_base", "m": 0, "sub": "B", "base": "A"},
             _del(0, "B", "x"), _np(9, 0, "A", "x", "iox/f0.xlsx", "s0")]},
    # regression probes of mechanisms repaired in /repo (findings/c18_witnesses.py SAME, SQUEEZE, UPDBOUND)
    {"ops": [_np(0, 0, "A", "x", "iox/f0.xlsx", "s0"), _bind(0, "A", "x", 0, "rebind-same"),
             _bind(0, "A", "x", 0, "rebind-same", "set_ref:absolute"), {"op": "write_read", "m": 0, "fmt": "dir"},
             _np(4, 0, "m", "y", "iox/c0.csv", None, "ser"), _bind(0, "m", "y", 4, "rebind-same"), _del(0, "A", "x"),
             _np(7, 0, "C", "x", "iox/f0.xlsx", "s0")]},
    {"ops": [_np(0, 0, "A", "x", "iox/f0.xlsx", "s0", "ser"),
             {"op": "update", "m": 0, "old": 0, "kind": "pandas", "new": "fresh", "vk": "stridx"},
             {"op": "write_read", "m": 0, "fmt": "dir"}, _np(3, 0, "C", "y", "iox/c0.csv", None, "ser"),
             {"op": "update", "m": 0, "old": 3, "kind": "pandas", "new": "fresh", "vk": "dfi"},
             {"op": "write_read", "m": 0, "fmt": "zip"}, {"op": "reopen", "m": 0}, _del(0, "A", "x"), _del(0, "C", "y")]},
    {"ops": [_np(0, 0, "A", "x", "iox/f0.xlsx", "s0"), _bind(0, "C", "y", "p1", "further"),
             _bind(0, "m", "z", "p1", "further"), {"op": "update", "m": 0, "old": 0, "kind": "pandas", "new": "p1"},
             _del(0, "A", "x"), {"op": "write_read", "m": 0, "fmt": "dir"}, _del(0, "C", "y"), _del(0, "m", "z"),
             _np(8, 0, "A", "x", "iox/f0.xlsx", "s0")]},
    # the flavours, one directed history each
    {"flavour": "del_space", "ops": [_np(0, 0, "C", "x", "iox/f0.xlsx", "s0"), {"op": "del_space", "m": 0, "space": "C"},
                                     _np(2, 0, "A", "y", "iox/f0.xlsx", "s0")]},
    # the deleted space holds the value under two of its own names
    {"flavour": "del_space", "ops": [_np(0, 0, "C", "x", "iox/c0.csv"), _bind(0, "C", "y", 0, "further"),
                                     {"op": "del_space", "m": 0, "space": "C"}, _np(3, 0, "A", "y", "iox/c0.csv")]},
    {"flavour": "scalar", "ops": [_np(0, 0, "A", "sc", "iox/f0.xlsx", "s0", bad=True),
                                  _np(1, 0, "A", "y", "iox/f0.xlsx", "s0")]},
    {"flavour": "respec", "ops": [_np(0, 0, "A", "x", "iox/f0.xlsx", "s0"), _np(1, 0, "C", "y", "iox/f1.xlsx", "s0"),
                                  {"op": "update", "m": 0, "old": 0, "kind": "pandas", "new": 1},
                                  _del(0, "A", "x"), _del(0, "C", "y"), _np(5, 0, "A", "z", "iox/f0.xlsx", "s0")]},
    {"flavour": "xbind", "ops": [_np(0, 0, "A", "x", "@abs/g0.xlsx", "s0"), _bind(1, "C", "y", 0, "xmodel"),
                                 _del(1, "C", "y")]},
    {"flavour": "abs2rel", "ops": [_np(0, 0, "m", "w", "iox/c0.csv"), _np(1, 0, "B", "y", "@abs/h0.csv"),
                                   {"op": "set_path", "m": 0, "key": 1, "path": "iox/c0.csv"}]},
    {"flavour": "dotdot", "ops": [_np(0, 0, "A", "x", "iox/f0.xlsx", "s0"), _np(1, 0, "C", "y", "iox/sub/../f0.xlsx", "s0"),
                                  {"op": "write_read", "m": 0, "fmt": "dir"}]},
    {"flavour": "respec", "ops": [_np(0, 0, "A", "x", "iox/f0.xlsx", "s0"), _np(1, 0, "C", "y", "iox/f1.xlsx", "s0", data=0),
                                  _del(0, "A", "x"), _del(0, "C", "y"), _np(4, 0, "A", "z", "iox/f1.xlsx", "s0")]},
]


# ------------------------------------------------------------------------------------ values
def make_value(vk, n):
    n = int(n) % 1000
    if vk == "dfi":
        return pd.DataFrame({"a": [n, n + 1], "b": [3, 4]})
    if vk == "dff":
        return pd.DataFrame({"a": [n + 0.5, 2.25], "s": ["u", "v%d" % n]})
    if vk == "ser":
        return pd.Series([n, 2, 3], name="nm")
    if vk == "mi":
        return pd.DataFrame({"a": [n, 2, 3, 4]},
                            index=pd.MultiIndex.from_product([[0, 1], [0, 1]], names=["i", "j"]))
    if vk == "stridx":
        return pd.DataFrame({"a": [n, 2]}, index=pd.Index(["r0", "r1"], name="k"))
    raise ValueError(vk)


def read_direct(src, ftype, sheet, orig):
    """what pandas reads from the spec's own file, shaped like the original"""
    idx = list(range(orig.index.nlevels)) if orig.index.nlevels > 1 else 0
    if ftype == "excel":
        v = pd.read_excel(src, sheet_name=sheet if sheet else 0, index_col=idx)
    else:
        v = pd.read_csv(src, index_col=idx)
    if isinstance(orig, pd.Series):
        v = v.squeeze("columns")
    return v


def same_value(a, b):
    if isinstance(a, (pd.DataFrame, pd.Series)):
        return type(a) is type(b) and bool(a.equals(b))
    # modules: same names, same behaviour on a probe
    try:
        return a.K == b.K and a.f(7) == b.f(7) and getattr(a, "NAME", None) == getattr(b, "NAME", None)
    except Exception:     # noqa
        return False


# ------------------------------------------------------------------------------------ world
class World:
    def __init__(self, tmp):
        self.tmp = tmp
        self.book = BK.Book()
        self.models = [None, None]
        self.objs = {}          # value key -> python object
        self.srcidx = {}        # module value key -> index into SRC
        self.freed = set()      # (group, normalised path) of specs that ended
        self.closed = []        # models closed by the history
        self.ever_multi = set()
        os.makedirs(os.path.join(tmp, "src"))
        for j, t in enumerate(SRC):
            with open(os.path.join(tmp, "src", "mod%d.py" % j), "w") as f:
                f.write(t)
        for s in (0, 1):
            self.build(s)

    def build(self, slot):
        m = mx.new_model("M%d" % slot)
        A = m.new_space("A")
        A.new_cells("foo", formula="lambda i: i")
        A.new_cells("sc", formula="lambda: 1")
        A.new_space("Ch")
        B = m.new_space("B", bases=A)
        C = m.new_space("C")
        C.new_cells("foo", formula="lambda i: i + 1")
        m.new_space("D", bases=B)
        self.models[slot] = m
        return m

    def owner(self, slot, name):
        o = self.models[slot]
        if name != "m":
            for p in name.split("."):
                o = getattr(o, p)
        return o

    def real(self, path):
        if path.startswith("@abs"):
            return os.path.join(self.tmp, "abs", path[5:])
        return path

    def group_obj(self, slot, path):
        return None if path.startswith("@abs") else self.models[slot]


def ref_names(owner_obj, is_model):
    try:
        if is_model:
            return [n for n in owner_obj.refs if n != "__builtins__"]
        return list(owner_obj._own_refs)
    except AttributeError as e:
        raise Inconclusive("references of %r not observable: %s" % (owner_obj, e))


def live_refs(w, slot):
    """{id(value): [(owner, name, derived)]} over every reference (defined and derived) of the model"""
    out = {}
    sb = w.book.slots[slot]
    for ow in sb.owners:
        o = w.owner(slot, ow)
        for n in ref_names(o, ow == "m"):
            v = getattr(o, n)
            der = False
            if ow != "m":
                try:
                    der = bool(o._get_object(n, as_proxy=True).is_derived())
                except Exception:     # noqa
                    der = None
            out.setdefault(id(v), []).append((ow, n, der))
    return out


def ref_state(w, slot, owner, name):
    """('absent',) or ('bound', id(value), derived) for one name of one owner"""
    o = w.owner(slot, owner)
    if name not in ref_names(o, owner == "m"):
        return ("absent",)
    der = False
    if owner != "m":
        try:
            der = bool(o._get_object(name, as_proxy=True).is_derived())
        except Exception:     # noqa
            der = None
    return ("bound", id(getattr(o, name)), der)


def ios_view(w):
    """internal: [(group object, path, io)] of the shared files that belong to this case"""
    try:
        iom = mx.core.mxsys.iomanager
        items = list(iom.ios.items())
    except AttributeError:
        return None
    out = []
    mine = [m for m in w.models if m is not None] + w.closed
    for (g, p), a_io in items:
        if g is None:
            if str(p).startswith(w.tmp):
                out.append((None, p, a_io))
        elif any(g is m for m in mine):
            out.append((g, p, a_io))
    return out


def ios_snapshot(w):
    v = ios_view(w)
    if v is None:
        return None
    return sorted((id(g), str(p), tuple(sorted(id(s) for s in a_io.specs.values()))) for g, p, a_io in v)


def scrub_iomanager():
    """spec files leaked by an earlier case of this worker process must not reach this case's self-checks"""
    try:
        iom = mx.core.mxsys.iomanager
        n = 0
        for k in list(iom.ios):
            a_io = iom.ios[k]
            try:
                a_io._specs.clear()
            except AttributeError:
                pass
            del iom.ios[k]
            n += 1
        return n
    except Exception:     # noqa
        return 0


def spec_loc(s):
    """public description of what a spec claims"""
    p = BK.norm(str(s.path.as_posix() if hasattr(s.path, "as_posix") else s.path))
    kind = type(s).__name__
    sheet = getattr(s, "sheet", None)
    ft = getattr(getattr(s, "io", None), "file_type", None) if kind == "PandasData" else "module"
    return p, kind, ft, sheet


def label(op):
    o = op["op"]
    if o == "bind":
        return "bind:" + op.get("why", "")
    if o == "del" and op.get("derived"):
        return "del:derived"
    if o in ("new_pandas", "new_module") and op.get("bad"):
        return o + ":badname"
    if o == "update":
        return "update:%s:%s" % (op["kind"], "same" if op["new"] is None else ("fresh" if op["new"] == "fresh" else "bound"))
    return o


# ------------------------------------------------------------------------------------ the case
class Vio:
    """collector of violations of one case"""
    def __init__(self):
        self.items = []
        self.state = {"step": -1, "op": None}
        self.taints = []        # triggers outside the core vocabulary that occurred earlier in this history

    def taint(self, what):
        if what not in self.taints:
            self.taints.append(what)

    def __call__(self, kind, sig, after=None, **detail):
        # mechanism signature: what was observed + the kind of the last operation; in a history that contains a
        # trigger from outside the core vocabulary that trigger is the mechanism
        if self.taints:
            sig += " [history has: %s]" % "; ".join(self.taints)
        elif after:
            sig += " after " + after
        self.items.append({"kind": kind, "signature": sig,
                           "detail": dict(detail, step=self.state["step"], op=self.state["op"])})

    def any(self):
        return bool(self.items)


def run_case(case):
    case = expand(case)
    ops = case["ops"]
    tmp = tempfile.mkdtemp(prefix="mxv_c18_")
    V = Vio()
    vio = V.items
    cnt = {k: 0 for k in (
        "ops", "skipped_ops", "spec_set_checks", "get_spec_checks", "dead_get_spec_checks", "location_pairs",
        "spec_deaths", "rejected_creations", "accepted_creations", "free_location_creations", "multi_ref_values",
        "save_file_checks", "direct_file_reads", "readback_value_checks", "readback_models", "read_skipped_abs",
        "internal_spec_checks", "sanity_checks", "closed_model_checks", "rejected_state_checks", "unexpected_rejections",
        "derived_delete_rejections", "base_changes", "base_change_rejections", "reopens", "leaked_ios_scrubbed",
        "bookkeeping_crosschecks", "updates", "sheet_path_changes", "sheet_path_rejections", "sub_name_rejections", "read_skipped_plain_module", "read_failed_elsewhere", "aborted_histories", "unaccounted_listed_specs",
        "unspecified_outcomes")}
    matrix = {"release": {}, "creation": {}, "rejection": {}, "order": {}}
    kinds = []
    state = V.state

    def M(name, cell):
        matrix[name][cell] = matrix[name].get(cell, 0) + 1

    cnt["leaked_ios_scrubbed"] = scrub_iomanager()
    w = None
    aborted = False
    try:
        w = World(tmp)
        for i, op in enumerate(ops):
            state["step"], state["op"] = i, op
            state.pop("label", None)
            if op.get("op") == "nop":
                continue
            cnt["ops"] += 1
            outcome = apply_op(w, i, op, V, M, cnt)
            kinds.append("%s%s" % (label(op), {"acc": "", "rej": "-", "skip": "~", "abort": "!"}.get(outcome, "?")))
            if outcome == "skip":
                cnt["skipped_ops"] += 1
                continue
            if outcome == "abort":
                aborted = True
                break
            for k in w.book.settle():
                cnt["spec_deaths"] += 1
                M("release", "%s|%s" % (label(op), BK.owner_kind(op.get("owner", op.get("space", "-")))))
            if not vio:
                observe(w, i, op, V, cnt)
            if vio:
                break
        if not vio and not aborted and case.get("final_save"):
            for slot in (0, 1):
                if w.book.slots[slot].open and w.book.live_keys(slot):
                    state["step"], state["op"] = len(ops), {"op": "write_read", "m": slot, "fmt": "dir", "final": True}
                    save_check(w, len(ops) + slot, state["op"], V, cnt)
                    if vio:
                        break
    finally:
        try:
            for m in list(mx.get_models().values()):
                m.close()
        except Exception:     # noqa
            pass
        shutil.rmtree(tmp, ignore_errors=True)
    nontrivial = cnt["spec_deaths"] > 0 and cnt["multi_ref_values"] > 0
    shape = hashlib.sha1(",".join(kinds).encode()).hexdigest()[:14]
    return {"violations": vio, "counters": cnt, "nontrivial": nontrivial, "shape": shape, "matrix": matrix,
            "case": case,
            "sample": {"flavour": case.get("flavour"), "ops": ops[:10], "n_ops": len(ops), "outcomes": kinds[:14],
                       "spec_deaths": cnt["spec_deaths"], "spec_set_checks": cnt["spec_set_checks"],
                       "notes": state.get("notes", [])[:4]}}


# ------------------------------------------------------------------------------------ operations
def resolve_value(w, i, slot, val):
    """python object for a value token, or None when it does not exist (any more)"""
    if isinstance(val, str):
        if val.startswith("int:"):
            return 1000 + int(val[4:])
        if val.startswith("obj:"):
            try:
                return w.owner(slot, val[4:])
            except Exception:     # noqa
                return None
        if val.startswith("p"):
            if val not in w.objs:
                w.objs[val] = make_value("dfi", 500 + int(val[1:]))
                w.book.vinfo.setdefault(val, {"kind": "plain", "slot": slot})
            return w.objs[val]
    return w.objs.get(val)


def apply_op(w, i, op, V, M, cnt):
    b = w.book
    o = op["op"]
    slot = op["m"]
    sb = b.slots[slot]
    m = w.models[slot]

    if o == "new_model":
        if sb.open:
            return "skip"
        b.new_model(slot)
        w.build(slot)
        return "acc"
    if not sb.open:
        return "skip"

    if o in ("new_pandas", "new_module"):
        return op_create(w, i, op, V, M, cnt)

    if o == "bind":
        if op["owner"] not in sb.owners:
            return "skip"
        v = resolve_value(w, i, slot, op["val"])
        if v is None:
            return "skip"
        owner = w.owner(slot, op["owner"])
        before = ref_state(w, slot, op["owner"], op["name"])
        if op["val"] in b.vinfo and b.vinfo[op["val"]]["slot"] != slot:
            V.taint("value bound in the other model")
        if sb.defined.get((op["owner"], op["name"]), "<none>") == op["val"] and not str(op["val"]).startswith("int:"):
            V.state["label"] = "bind:same-value"
        expect_ok = sb.can_define(op["owner"], op["name"])
        try:
            if op["sp"] == "setattr" or op["owner"] == "m":
                setattr(owner, op["name"], v)
            else:
                owner.set_ref(op["name"], v, op["sp"].split(":")[1])
        except Exception as e:      # noqa
            if not expect_ok:
                cnt["sub_name_rejections"] += 1
            return raised(w, op, e, before, ("bound", id(v), False), V, cnt,
                          lambda: b.bind(slot, op["owner"], op["name"], op["val"]))
        if op["why"].startswith("override"):
            M("order", op["why"])
        elif any((a, op["name"]) in sb.defined for a in sb.ancestors(op["owner"])) \
                and (op["owner"], op["name"]) not in sb.defined:
            M("order", "override-" + op["why"])
        b.bind(slot, op["owner"], op["name"], op["val"])
        key = op["val"]
        if key in b.spec and len(sb.refs_of(key)) >= 2 and key not in w.ever_multi:
            w.ever_multi.add(key)
            cnt["multi_ref_values"] += 1
        return "acc"

    if o == "del":
        if op["owner"] not in sb.owners:
            return "skip"
        owner = w.owner(slot, op["owner"])
        st = ref_state(w, slot, op["owner"], op["name"])
        if st[0] == "absent":
            return "skip"
        if st[2] or (op["owner"], op["name"]) not in sb.defined:
            # a derived reference: deletion is refused; whatever happens the specs are judged afterwards
            try:
                delattr(owner, op["name"])
            except Exception:      # noqa
                cnt["derived_delete_rejections"] += 1
                M("order", "derived-delete-rejected")
                return "rej"
            return "acc"
        subs = [x for x in sb.owners if op["owner"] in sb.ancestors(x) and (x, op["name"]) in sb.defined]
        anc = [a for a in sb.ancestors(op["owner"]) if (a, op["name"]) in sb.defined]
        try:
            delattr(owner, op["name"])
        except Exception as e:      # noqa
            return raised(w, op, e, st, ("gone",), V, cnt, lambda: b.unbind(slot, op["owner"], op["name"]))
        M("order", "base-deleted-while-overridden" if subs else ("override-deleted" if anc else "plain-delete"))
        b.unbind(slot, op["owner"], op["name"])
        return "acc"

    if o == "update":
        old = w.objs.get(op["old"])
        if old is None or op["old"] not in sb.bound():
            return "skip"
        new_tok = op["new"]
        try:
            if op["kind"] == "pandas":
                if new_tok is None:
                    m.update_pandas(old)
                    newkey, newobj = op["old"], old
                elif new_tok == "fresh":
                    newobj = make_value(op["vk"], 700 + i)
                    m.update_pandas(old, newobj)
                    newkey = i
                else:
                    newobj = w.objs.get(new_tok)
                    if newobj is None or newobj is old:
                        return "skip"
                    if new_tok in b.spec and op["old"] in b.spec:
                        V.taint("second spec for one value")
                        try:
                            m.update_pandas(old, newobj)
                        except ValueError:
                            cnt["unspecified_outcomes"] += 1
                            return "rej"
                    else:
                        m.update_pandas(old, newobj)
                    newkey = new_tok
            else:
                if op["old"] not in b.spec:
                    return "skip"
                if new_tok is None:
                    m.update_module(old)
                    src = w.srcidx.get(op["old"], 0)
                else:
                    src = op["src"]
                    m.update_module(old, os.path.join(w.tmp, "src", "mod%d.py" % src))
                on = sb.refs_of(op["old"])[0]
                newobj = getattr(w.owner(slot, on[0]), on[1])
                newkey = i
                w.srcidx[newkey] = src
        except Exception as e:      # noqa
            V("op-raised", "valid update of a referenced value raised %s" % type(e).__name__, msg=str(e)[:200])
            return "rej"
        cnt["updates"] += 1
        w.objs[newkey] = newobj
        b.update(slot, op["old"], newkey, {"kind": op["kind"]})
        return "acc"

    if o in ("add_base", "remove_base"):
        if op["sub"] not in sb.owners or op["base"] not in sb.owners:
            return "skip"
        has = op["base"] in sb.bases.get(op["sub"], [])
        if (o == "add_base") == has:
            return "skip"
        sub, base = w.owner(slot, op["sub"]), w.owner(slot, op["base"])
        try:
            (sub.add_bases if o == "add_base" else sub.remove_bases)(base)
        except Exception:      # noqa     inconsistent MRO etc.: another property's subject
            cnt["base_change_rejections"] += 1
            return "rej"
        cnt["base_changes"] += 1
        if o == "add_base":
            sb.bases[op["sub"]].append(op["base"])
        else:
            sb.bases[op["sub"]].remove(op["base"])
        return "acc"

    if o == "close":
        try:
            m.close()
        except Exception as e:      # noqa
            V("op-raised", "model.close raised %s" % type(e).__name__, msg=str(e)[:200])
            return "rej"
        b.close(slot)
        w.closed.append(m)
        cnt["closed_model_checks"] += 1
        try:
            left = m.iospecs
        except Exception:      # noqa    a closed model need not answer
            left = []
        if left:
            V("closed", "a closed model still lists specs", specs=[repr(s) for s in left][:4])
        return "acc"

    if o == "write_read":
        save_check(w, i, op, V, cnt)
        return "acc"

    if o == "reopen":
        if any(s["path"].startswith("@abs") for s in b.all_specs()) or plain_module_bound(w, slot):
            return "skip"
        return op_reopen(w, i, op, V, cnt)

    if o == "del_spec":
        v = w.objs.get(op["key"])
        if v is None or op["key"] not in b.spec or b.spec[op["key"]]["slot"] != slot:
            return "skip"
        try:
            m.del_spec(v)
        except Exception as e:      # noqa
            V("op-raised", "del_spec of a live spec raised %s" % type(e).__name__, msg=str(e)[:200])
            return "rej"
        d = b.spec.pop(op["key"])
        w.freed.add((b.group(d["slot"], d["path"]), BK.norm(d["path"])))
        return "acc"

    if o in ("set_sheet", "set_path"):
        v = w.objs.get(op["key"])
        d = b.spec.get(op["key"])
        if v is None or d is None or d["slot"] != slot:
            return "skip"
        if o == "set_sheet" and d["ftype"] != "excel":
            return "skip"
        if o == "set_path" and BK.ftype_of(op["path"]) != d["ftype"]:
            return "skip"
        if o == "set_path" and (d["path"].startswith("@abs") or op["path"].startswith("@abs")) \
                and any(e["slot"] != slot for e in b.same_file(slot, d["path"])):
            return "skip"       # a file shared with another model is not moved across the boundary
        try:
            spec = m.get_spec(v)
        except Exception:      # noqa   judged by observe()
            return "skip"
        try:
            if o == "set_sheet":
                spec.sheet = op["sheet"]
            else:
                spec.path = w.real(op["path"])
        except Exception:      # noqa
            cnt["sheet_path_rejections"] += 1
            return "rej"
        cnt["sheet_path_changes"] += 1
        if o == "set_path" and d["path"].startswith("@abs") and not op["path"].startswith("@abs"):
            V.taint("spec moved from an absolute to a relative path")
        if o == "set_sheet":
            d["sheet"] = op["sheet"]
        else:
            w.freed.add((b.group(slot, d["path"]), BK.norm(d["path"])))
            for e in b.same_file(slot, d["path"]):
                e["path"] = op["path"]
        return "acc"

    if o == "del_space":
        if op["space"] not in sb.owners:
            return "skip"
        parent, _, nm = op["space"].rpartition(".")
        V.taint("space deleted")
        try:
            delattr(w.owner(slot, parent or "m"), nm)
        except Exception as e:      # noqa
            V("op-raised", "deleting a space raised %s" % type(e).__name__, msg=str(e)[:200])
            return "rej"
        b.del_space(slot, op["space"])
        return "acc"

    raise Inconclusive("unknown op %r" % (op,))


def raised(w, op, e, before, after_if_applied, V, cnt, commit):
    """a bind / del the bookkeeping model considers valid raised.  An assertion of the library's own
    bookkeeping is reported; any other exception is a rejection, which is another property's subject: when it
    changed nothing the history carries on, when it left the edit done or half done the history ends here
    (nothing is asserted about states a failed operation produced)"""
    slot = op["m"]
    now = safe_ref_state(w, slot, op["owner"], op["name"])
    V.state.setdefault("notes", []).append("%s raised %s: %s" % (label(op), type(e).__name__, str(e)[:120]))
    if isinstance(e, (AssertionError, RuntimeError)):
        V("op-raised", "%s a reference raised %s from the library's own bookkeeping" % (
            "deleting" if op["op"] == "del" else "assigning", type(e).__name__), msg=str(e)[:200],
          state_before=list(before), state_after=list(now))
        return "rej"
    cnt["unexpected_rejections"] += 1
    if now == before:
        return "rej"
    cnt["aborted_histories"] += 1
    return "abort"


def op_create(w, i, op, V, M, cnt):
    b = w.book
    slot = op["m"]
    sb = b.slots[slot]
    m = w.models[slot]
    if op["owner"] not in sb.owners:
        return "skip"
    owner = w.owner(slot, op["owner"])
    pandas_kind = op["op"] == "new_pandas"
    ft = op["ftype"] if pandas_kind else "module"
    sheet = op.get("sheet")
    key = op.get("data", i)
    if pandas_kind:
        if "data" in op:
            data = w.objs.get(op["data"])
            if data is None or op["data"] not in b.spec:
                return "skip"
        else:
            data = make_value(op["vk"], i)
    else:
        path_src = os.path.join(w.tmp, "src", "mod%d.py" % op["src"])
        if op["asobj"]:
            sp = importlib.util.spec_from_file_location("c18mod_%d" % i, path_src)
            data = importlib.util.module_from_spec(sp)
            sp.loader.exec_module(data)
        else:
            data = path_src
    if op.get("badtype") and b.same_file(slot, op["path"]):
        return "skip"                 # only meaningful at a file nobody shares yet
    if "data" in op:
        V.taint("second spec for one value")
    if BK.norm(op["path"]) != op["path"]:
        V.taint("'..' path alias")
    if op["name"] == "sc":
        V.taint("creation under a scalar cells name")
    clash = b.loc_clash(slot, op["path"], ft, sheet)
    was_freed = (b.group(slot, op["path"]), BK.norm(op["path"])) in w.freed
    fresh_name = op["name"] in BK.REFNAMES and sb.can_define(op["owner"], op["name"])
    specs_before = [id(s) for s in observe_specs(m, V)]
    state_before = ref_state(w, slot, op["owner"], op["name"]) if fresh_name or op["owner"] == "m" \
        else safe_ref_state(w, slot, op["owner"], op["name"])
    ios_before = ios_snapshot(w)
    okind = BK.owner_kind(op["owner"])
    try:
        if pandas_kind:
            ret = owner.new_pandas(op["name"], w.real(op["path"]), data,
                                   file_type="parquet" if op.get("badtype") else ft, sheet=sheet)
        else:
            ret = owner.new_module(op["name"], w.real(op["path"]), data)
    except Exception as e:      # noqa
        cnt["rejected_creations"] += 1
        reason = ("name:" + name_kind(op, sb)) if not fresh_name else ("location" if clash is not None else "other")
        M("rejection", "%s|%s|%s" % (op["op"], reason, okind))
        M("creation", "%s|%s|%s|rejected" % (ft, "sheet" if sheet else "nosheet", "abs" if op["path"].startswith("@") else "rel"))
        # ---- a rejected creation leaves neither a spec nor a reference behind
        cnt["rejected_state_checks"] += 1
        specs_after = [id(s) for s in observe_specs(m, V)]
        if specs_after != specs_before:
            V("rejected", "a rejected creation changed model.iospecs (%s)" % reason, exc=type(e).__name__)
        state_after = safe_ref_state(w, slot, op["owner"], op["name"])
        if state_after != state_before:
            V("rejected", "a rejected creation %s (%s)" % (
                "left a reference behind" if state_before[0] == "absent" else "changed an existing reference", reason),
              exc=type(e).__name__, before=list(state_before), after=list(state_after))
        if pandas_kind and "data" not in op:
            try:
                left = m.get_spec(data)
            except Exception:      # noqa
                left = None
            if left is not None:
                V("rejected", "a rejected creation left a spec behind (%s)" % reason, exc=type(e).__name__,
                  spec=repr(left))
        ios_after = ios_snapshot(w)
        if not V.any() and ios_before is not None and ios_after != ios_before:
            demonstrate(w, slot, "rejected creation changed the manager's shared files (%s)" % reason, V, cnt,
                        probe=(op["path"], ft, sheet) if clash is None else None,
                        short="a rejected creation changed the manager's shared files (%s)" % reason)
        if "data" in op:
            cnt["unspecified_outcomes"] += 1     # whether a second spec for one value is allowed is left open
        elif op.get("badtype"):
            cnt["rejected_by_io_layer"] = cnt.get("rejected_by_io_layer", 0) + 1
        elif fresh_name and clash is None and not V.any():
            if was_freed:
                V("location", "a file location stays claimed after its spec ended", exc=type(e).__name__,
                  msg=str(e)[:200], path=op["path"], sheet=sheet)
            else:
                V("location", "a creation under a free name at an unclaimed location was rejected",
                  exc=type(e).__name__, msg=str(e)[:200], path=op["path"], sheet=sheet)
        return "rej"
    # ---- accepted
    if op.get("badtype"):
        raise Inconclusive("a file type taken to be unsupported was accepted")
    cnt["accepted_creations"] += 1
    if clash is None and fresh_name:
        cnt["free_location_creations"] += 1
    value = data if pandas_kind else ret
    M("creation", "%s|%s|%s|accepted" % (ft, "sheet" if sheet else "nosheet", "abs" if op["path"].startswith("@") else "rel"))
    st = safe_ref_state(w, slot, op["owner"], op["name"])
    if not (st[0] == "bound" and st[1] == id(value)):
        V("accepted", "an accepted creation bound no reference to the value (%s)" % (
            name_kind(op, sb) if not fresh_name else "free name"), state=list(st))
    if state_before[0] == "bound" and state_before[2]:
        M("order", "override-by-creation")
    w.objs[key] = value
    if not pandas_kind:
        w.srcidx[key] = op["src"]
    b.create(slot, op["owner"], op["name"], key, op["path"], ft, sheet,
             {"kind": "pandas" if pandas_kind else "module"})
    return "acc"


def name_kind(op, sb):
    n, ow = op["name"], op["owner"]
    if n in BK.REFNAMES and not sb.can_define(ow, n):
        return "name in use in a sub space"
    if n == "sc":
        return "scalar cells"
    if n == "foo":
        return "cells"
    if n in ("Ch", "A"):
        return "space"
    if ow == "m":
        return "model-level invalid identifier"
    return "invalid identifier"


def safe_ref_state(w, slot, owner, name):
    try:
        return ref_state(w, slot, owner, name)
    except Inconclusive:
        raise
    except Exception as e:      # noqa
        return ("unreadable", type(e).__name__)


def observe_specs(m, V):
    try:
        return list(m.iospecs)
    except Exception as e:      # noqa
        V("iospecs", "model.iospecs raised %s" % type(e).__name__, msg=str(e)[:200])
        return []


# ------------------------------------------------------------------------------------ monitors
def observe(w, i, op, V, cnt):
    b = w.book
    lab = V.state.get("label") or label(op)
    all_specs = {}
    bound_ids_all = set()
    per_slot = {}
    for slot in (0, 1):
        sb = b.slots[slot]
        if not sb.open:
            continue
        m = w.models[slot]
        other = "" if op["m"] == slot else " (operation on the other model)"
        lr = live_refs(w, slot)
        per_slot[slot] = lr
        bound_ids_all |= set(lr)
        specs = observe_specs(m, V)
        cnt["spec_set_checks"] += 1
        ids = [id(s.value) for s in specs]
        for s in specs:
            all_specs[id(s)] = (slot, s)
        if len(set(ids)) != len(ids) or len({id(s) for s in specs}) != len(specs):
            V("duplicate", "model.iospecs lists a value or a spec twice", after=lab,
              specs=[repr(s) for s in specs][:6])
        want = {}
        for k in b.live_keys(slot):
            v = w.objs.get(k)
            if v is None:
                raise Inconclusive("no object for live key %r" % (k,))
            want[id(v)] = k
        # -- a listed spec whose value no reference is bound to
        for s in specs:
            if id(s.value) not in lr:
                V("unbound", "model.iospecs lists a spec whose value no reference is bound to", after=lab + other,
                  spec=repr(s))
            elif id(s.value) not in want:
                # bound, but not a spec this model's history accounts for (another model's spec at an absolute
                # path): the statement is satisfied as it stands; counted, not judged
                cnt["unaccounted_listed_specs"] += 1
        # -- a spec that must be alive is not listed
        for vid, k in want.items():
            if vid not in lr:
                raise Inconclusive("bookkeeping says key %r is bound in model %d, the live model has no such "
                                   "reference (after %s)" % (k, slot, lab))
            if vid not in ids:
                V("lost", "a value still bound to a reference lost its spec", after=lab + other,
                  key=k, location=[b.spec[k]["path"], b.spec[k]["sheet"]], refs=[list(x) for x in lr[vid]][:4])
        # -- get_spec agrees
        for vid, k in want.items():
            cnt["get_spec_checks"] += 1
            try:
                s = m.get_spec(w.objs[k])
            except Exception as e:      # noqa
                if vid in ids:
                    V("get_spec", "get_spec raised for a value whose spec model.iospecs lists", after=lab,
                      exc=type(e).__name__)
                continue
            if s.value is not w.objs[k] or (vid in ids and not any(s is x for x in specs)):
                if not any(e["key"] == k for e in b.extra):
                    V("get_spec", "get_spec returns a spec that is not the listed one", after=lab, spec=repr(s))
        # -- get_spec of values whose last reference is gone
        dead = [k for k in b.known_keys(slot, ("pandas", "module")) if k not in b.spec and k in w.objs]
        for k in dead[-5:]:
            v = w.objs[k]
            if id(v) in lr:
                continue        # bound again as a plain value
            cnt["dead_get_spec_checks"] += 1
            cnt["get_spec_checks"] += 1
            try:
                s = m.get_spec(v)
            except Exception:      # noqa
                continue
            V("outlives", "get_spec still answers for a value no reference is bound to", after=lab + other,
              spec=repr(s), key=k)
        # -- bookkeeping cross-check (harness consistency, never a verdict)
        cnt["bookkeeping_crosschecks"] += 1
        live_defined = {(ow, n) for refs in lr.values() for (ow, n, der) in refs if der is False}
        if live_defined != set(sb.defined) and not V.any():
            raise Inconclusive("bookkeeping and live model disagree on the defined references of model %d after %s: "
                               "only live %s, only book %s; notes %s" % (
                                   slot, lab, sorted(live_defined - set(sb.defined)),
                                   sorted(set(sb.defined) - live_defined), V.state.get("notes")))
    # ---- two specs never claim the same file location (public attributes of the listed specs)
    locs = {}
    for sid, (slot, s) in all_specs.items():
        p, kind, ft, sheet = spec_loc(s)
        g = None if os.path.isabs(p) else slot
        locs.setdefault((g, p), []).append((kind, ft, sheet, repr(s)))
    for (g, p), lst in locs.items():
        cnt["location_pairs"] += len(lst) * (len(lst) - 1) // 2 + 1
        if len(lst) > 1:
            sheets = [x[2] for x in lst]
            if any(x[0] != "PandasData" or x[1] != "excel" for x in lst) or None in sheets \
                    or len(set(sheets)) != len(sheets):
                V("location", "two live specs claim the same file location", after=lab, specs=[x[3] for x in lst])
    if V.any():
        return
    # ---- internal: the manager holds exactly the specs whose value is bound; no empty shared file
    view = ios_view(w)
    if view is not None:
        disc = []
        for g, p, a_io in view:
            cnt["internal_spec_checks"] += 1
            if any(g is c for c in w.closed):
                disc.append(("a closed model keeps a shared file", None, str(p)))
                continue
            if not a_io.specs:
                disc.append(("an empty shared file stays registered", g, str(p)))
            for s in a_io.specs.values():
                cnt["internal_spec_checks"] += 1
                if g is None:
                    ok = id(s.value) in bound_ids_all
                else:
                    slot = next(k for k in (0, 1) if w.models[k] is g)
                    ok = b.slots[slot].open and id(s.value) in per_slot.get(slot, {})
                if not ok:
                    disc.append(("the manager keeps a spec whose value no reference is bound to", g, repr(s)))
                elif id(s) not in all_specs:
                    # bound, in the manager, but not listed: only legitimate for a second spec of one value
                    if not b.extra:
                        disc.append(("the manager keeps a spec that model.iospecs does not list", g, repr(s)))
        listed_not_managed = [repr(s) for sid, (slot, s) in all_specs.items()
                              if not any(sid == id(x) for g, p, a_io in view for x in a_io.specs.values())
                              and not os.path.isabs(spec_loc(s)[0])]
        for r in listed_not_managed:
            disc.append(("model.iospecs lists a spec the manager does not hold", None, r))
        if disc:
            slot = op["m"] if b.slots[op["m"]].open else next((k for k in (0, 1) if b.slots[k].open), None)
            for what, g, r in disc[:1]:
                if g is not None:
                    slot = next((k for k in (0, 1) if w.models[k] is g and b.slots[k].open), slot)
            demonstrate(w, slot, "%s after %s: %s" % (disc[0][0], lab, disc[0][2]), V, cnt, disc=disc,
                        short=disc[0][0], after=lab)
            return
    cnt["sanity_checks"] += 1
    s = sanity()
    if s:
        V("sanity", "library self-check failed", after=lab, probs=s[:3])


def demonstrate(w, slot, what, V, cnt, disc=None, probe=None, short=None, after=None):
    """an internal deviation was seen: look for a public consequence; without one the case is inconclusive"""
    b = w.book
    found = []
    if slot is not None and b.slots[slot].open:
        m = w.models[slot]
        lr = live_refs(w, slot)
        # 1. get_spec answering for a value no reference is bound to
        view = ios_view(w) or []
        for g, p, a_io in view:
            if g is m or g is None:
                for s in list(a_io.specs.values()):
                    if id(s.value) not in lr:
                        try:
                            got = m.get_spec(s.value)
                        except Exception:      # noqa
                            got = None
                        if got is not None and (g is m):
                            found.append(("get_spec answers for a value no reference is bound to", repr(got)))
        # 2. saving
        if not found:
            root = os.path.join(w.tmp, "demo_%d" % len(os.listdir(w.tmp)))
            try:
                m.write(root)
            except Exception as e:      # noqa
                found.append(("saving the model raises %s" % type(e).__name__, str(e)[:200]))
            else:
                want = {BK.norm(s["path"]) for s in b.all_specs() if s["slot"] == slot and not s["path"].startswith("@")}
                have = list_iox(root)
                if have - want:
                    found.append(("saving writes a file for a location no live spec claims", sorted(have - want)))
                if want - have:
                    found.append(("saving does not write the file of a live spec", sorted(want - have)))
        # 3. a free location refuses a creation
        if not found and probe is not None:
            path, ft, sheet = probe
            try:
                if ft == "module":
                    w.owner(slot, "m").new_module("probe__", w.real(path), os.path.join(w.tmp, "src", "mod0.py"))
                else:
                    w.owner(slot, "m").new_pandas("probe__", w.real(path), make_value("dfi", 1), file_type=ft, sheet=sheet)
            except Exception as e:      # noqa
                found.append(("an unclaimed location refuses a creation", "%s %s" % (type(e).__name__, e)))
    if not found:
        raise Inconclusive("internal IO bookkeeping deviates (%s) but no public consequence was found" % what)
    V("consequence", "%s [internal: %s]" % (found[0][0], short or what), after=after,
      consequence=list(found[0]), internal=what)


def io_related(e):
    """does the failure of read_model come out of the spec / shared file layer?"""
    import traceback
    for f in traceback.extract_tb(e.__traceback__):
        fn = f.filename.replace(os.sep, "/")
        if "/modelx/io/" in fn or "iospec" in f.name.lower() or "iospec" in (f.line or "").lower() \
                or "pandas/io" in fn:
            return True
    return False


def plain_module_bound(w, slot):
    """a module object without a spec is written as an import of '<unnamed module>': reading such a model back
    fails for reasons that have nothing to do with specs"""
    b = w.book
    return any(k in b.vinfo and b.vinfo[k]["kind"] == "module" and k not in b.spec
               for k in b.slots[slot].bound())


def list_iox(root):
    out = set()
    base = os.path.join(root, "iox")
    for r, d, files in os.walk(base):
        for f in files:
            out.add(os.path.relpath(os.path.join(r, f), root).replace(os.sep, "/"))
    return out


def save_check(w, i, op, V, cnt):
    """write (dir or zip), the files are exactly the live specs' locations, each read back equal"""
    b = w.book
    slot = op["m"]
    m = w.models[slot]
    fmt = op.get("fmt", "dir")
    root = os.path.join(w.tmp, "w%d%s" % (i, ".zip" if fmt == "zip" else ""))
    try:
        if fmt == "zip":
            m.zip(root)
        else:
            m.write(root)
    except Exception as e:      # noqa
        V("save", "saving a model raised %s" % type(e).__name__, msg=str(e)[:300], fmt=fmt)
        return
    mine = [s for s in b.all_specs() if s["slot"] == slot]
    want = {BK.norm(s["path"]) for s in mine if not s["path"].startswith("@")}
    if fmt == "zip":
        with zipfile.ZipFile(root) as z:
            names = z.namelist()
        have = {n for n in names if n.startswith("iox/") and not n.endswith("/")}
    else:
        have = list_iox(root)
    cnt["save_file_checks"] += len(want) + 1
    if want - have:
        V("save", "saving did not write the file of a live spec", missing=sorted(want - have), fmt=fmt)
    if have - want:
        V("save", "saving wrote a file for a location no live spec claims", extra=sorted(have - want), fmt=fmt)
    if V.any():
        return
    # ---- each live spec's own file, read directly
    zf = zipfile.ZipFile(root) if fmt == "zip" else None
    try:
        for s in mine:
            orig = w.objs[s["key"]]
            rel = not s["path"].startswith("@")
            p = BK.norm(s["path"]) if rel else w.real(s["path"])
            cnt["direct_file_reads"] += 1
            try:
                if rel and zf is not None:
                    src = _io.BytesIO(zf.read(p))
                elif rel:
                    src = os.path.join(root, p)
                else:
                    src = p
                    if not os.path.exists(p):
                        V("save", "saving did not write the file of a live spec", missing=[s["path"]], fmt=fmt)
                        continue
                if s["ftype"] == "module":
                    text = src.getvalue().decode() if isinstance(src, _io.BytesIO) else open(src).read()
                    good = text == SRC[w.srcidx[s["key"]]]
                else:
                    good = same_value(orig, read_direct(src, s["ftype"], s["sheet"], orig))
            except Exception as e:      # noqa
                V("save", "the file of a live spec cannot be read back (%s)" % type(e).__name__, path=s["path"],
                  sheet=s["sheet"], msg=str(e)[:200])
                continue
            if not good:
                V("save", "the file of a live spec does not hold its value", path=s["path"], sheet=s["sheet"])
    finally:
        if zf is not None:
            zf.close()
    if V.any():
        return
    # ---- read_model
    if any(s["path"].startswith("@") for s in b.all_specs()):
        cnt["read_skipped_abs"] += 1
        return
    if plain_module_bound(w, slot):
        cnt["read_skipped_plain_module"] += 1
        return
    try:
        m2 = mx.read_model(root, name="R%d" % i)
    except Exception as e:      # noqa
        if io_related(e):
            V("read", "read_model of a model saved without error raised %s in the spec layer" % type(e).__name__,
              msg=str(e)[:300])
        else:
            cnt["read_failed_elsewhere"] += 1       # another property's subject (C04)
        return
    cnt["readback_models"] += 1
    try:
        compare_restored(w, slot, m2, V, cnt)
    finally:
        try:
            m2.close()
        except Exception as e:      # noqa
            V("op-raised", "closing a restored model raised %s" % type(e).__name__)
    if not V.any():
        try:
            if m2.iospecs:
                V("closed", "a closed model still lists specs", specs=[repr(s) for s in m2.iospecs][:4])
        except Exception:      # noqa
            pass
        view = None
        try:
            view = [k for k in mx.core.mxsys.iomanager.ios if k[0] is m2]
        except Exception:      # noqa
            pass
        if view:
            # internal only; a closed model's claims have no public consequence: counted, not judged
            raise Inconclusive("a closed restored model keeps shared files registered: %r" % (view,))


def compare_restored(w, slot, m2, V, cnt):
    b = w.book
    sb = b.slots[slot]
    mine = [s for s in b.all_specs() if s["slot"] == slot]
    for (ow, n), k in sorted(sb.defined.items(), key=repr):
        if k not in b.spec:
            continue
        o = m2
        try:
            if ow != "m":
                for part in ow.split("."):
                    o = getattr(o, part)
            v2 = getattr(o, n)
        except Exception as e:      # noqa
            V("read", "a reference to a spec'd value is missing after read_model", ref=[ow, n], exc=type(e).__name__)
            continue
        cnt["readback_value_checks"] += 1
        if not same_value(w.objs[k], v2):
            t1, t2 = type(w.objs[k]).__name__, type(v2).__name__
            V("read", "a spec'd value read back by read_model differs (%s)" % (
                "%s content" % t1 if t1 == t2 else "%s read back as %s" % (t1, t2)), ref=[ow, n],
              location=[b.spec[k]["path"], b.spec[k]["sheet"]])
    try:
        specs2 = list(m2.iospecs)
    except Exception as e:      # noqa
        V("iospecs", "model.iospecs raised %s" % type(e).__name__, where="restored model")
        return
    got = sorted((spec_loc(s)[0], str(spec_loc(s)[3])) for s in specs2)
    exp = sorted((BK.norm(s["path"]), str(s["sheet"])) for s in mine)
    if got != exp:
        V("read", "the restored model's specs claim other locations than the saved model's", got=got, expected=exp)


def op_reopen(w, i, op, V, cnt):
    """write, close, read back under the same name; the history carries on with the restored model"""
    b = w.book
    slot = op["m"]
    sb = b.slots[slot]
    m = w.models[slot]
    root = os.path.join(w.tmp, "ro%d" % i)
    name = m.name
    try:
        m.write(root)
    except Exception as e:      # noqa
        V("save", "saving a model raised %s" % type(e).__name__, msg=str(e)[:300], fmt="dir")
        return "rej"
    want = {BK.norm(s["path"]) for s in b.all_specs() if s["slot"] == slot}
    have = list_iox(root)
    cnt["save_file_checks"] += len(want) + 1
    if want != have:
        V("save", "saving did not write the file of a live spec" if want - have else
          "saving wrote a file for a location no live spec claims", missing=sorted(want - have),
          extra=sorted(have - want), fmt="dir")
        return "rej"
    try:
        m2 = mx.read_model(root, name="RO%d" % i)
    except Exception as e:      # noqa
        if io_related(e):
            V("read", "read_model of a model saved without error raised %s in the spec layer" % type(e).__name__,
              msg=str(e)[:300])
        else:
            cnt["read_failed_elsewhere"] += 1       # another property's subject (C04); the history carries on
        return "rej"
    m.close()
    w.closed.append(m)
    cnt["closed_model_checks"] += 1
    try:
        left = m.iospecs
    except Exception:      # noqa    a closed model need not answer
        left = []
    if left:
        V("closed", "a closed model still lists specs", specs=[repr(x) for x in left][:4])
    m2.rename(name)
    cnt["reopens"] += 1
    cnt["readback_models"] += 1
    compare_restored(w, slot, m2, V, cnt)
    w.models[slot] = m2
    # the values are new objects now
    newobj = {}
    for (ow, n), k in sorted(sb.defined.items(), key=repr):
        if isinstance(k, str) and (k.startswith("int:") or k.startswith("obj:")):
            continue
        try:
            v2 = getattr(w.owner(slot, ow), n)
        except Exception:      # noqa
            if V.any():
                return "rej"
            raise Inconclusive("reference %s.%s missing after read_model" % (ow, n))
        if k in newobj and newobj[k] is not v2:
            if k in b.spec:
                # two references shared one spec'd value; they must still share the spec's value
                V("read", "references that shared a spec'd value are bound to different objects after read_model",
                  refs=[list(x) for x in sb.refs_of(k)])
                return "rej"
            # plain values: sharing is not this property's subject; give the second object its own key
            nk = "p%d_%s_%s" % (i, ow.replace(".", "_"), n)
            sb.defined[(ow, n)] = nk
            b.vinfo[nk] = {"kind": "plain", "slot": slot}
            newobj[nk] = v2
            continue
        newobj[k] = v2
    b.reopen(slot)
    for k in list(w.objs):
        info = b.vinfo.get(k)
        if info is None:
            del w.objs[k]
    w.objs.update(newobj)
    return "acc"


RELEASE_HOW = ["del", "bind:rebind-int", "bind:rebind-plain", "bind:rebind-obj", "bind:rebind-spec", "new_pandas",
               "new_module"]
RELEASE_OWNER = ["model", "base", "sub", "subsub", "free", "child"]
ORDER_CELLS = ["base-deleted-while-overridden", "override-deleted", "plain-delete", "derived-delete-rejected",
               "override-int", "override-obj", "override-spec", "override-same", "override-plain",
               "override-by-creation"]


def finalize(cov, results):
    """which cells of the coverage matrices the design names were reached (how the last reference went away x
    where it lived; order of deleting defined / derived / overriding references)"""
    rel = cov.get("matrices", {}).get("release", {})
    grid = ["%s|%s" % (h, o) for h in RELEASE_HOW for o in RELEASE_OWNER] + ["close|-"]
    cov["release_grid"] = {"cells": len(grid), "reached": sum(1 for g in grid if rel.get(g)),
                           "not_reached": [g for g in grid if not rel.get(g)]}
    order = cov.get("matrices", {}).get("order", {})
    cov["order_grid"] = {"cells": len(ORDER_CELLS), "reached": sum(1 for g in ORDER_CELLS if order.get(g)),
                         "not_reached": [g for g in ORDER_CELLS if not order.get(g)]}


def shrink(case, violations, deadline):
    from ..shrink import shrink_ops
    return shrink_ops(expand(case), run_case, violations, deadline)
