"""C01 - memoisation is transparent: values equal uncached evaluation, computed once,
all call spellings denote one element.

Workload: generated models (nesting, inheritance, parametrised spaces, references by
name / attribute path / model level, builtin-shadowing names, def and lambda forms,
defaults, uncached cells); for each, several random permutations of the full query
set, each on a freshly built model, every query through a random spelling followed
by all other spellings.
Oracles: reference evaluator (independent name resolution, no cache) for values;
probe log for "never run again while held"; len(cells) for element identity.
"""
import random

from .. import env
from ..mxutil import mx, reset_session, sanity, val
from ..live import World
from ..gen import ModelGen, spellings
from .. import refmodel as R

ID = "C01"
LEVEL = "exploration"
RULE = ("seeded random models from the formula grammar (1-3 top spaces, child/grandchild spaces, inheritance, "
        "ItemSpaces, literal and object references, def/lambda, defaults, cached and uncached cells); per model "
        "K random orders of the full query set (cells x arguments 0..2 x instances), each on a fresh build, each "
        "query through a random spelling then every other spelling; non-trivial = at least one query whose "
        "evaluation entered >= 2 formulas; distinct = distinct (model ops, order) hash")
ASSUMPTIONS = ["reference evaluator mxv/refmodel.py (C3, member derivation, lookup order, ItemSpace namespaces)",
               "probe references pre__/post__ observe formula bodies running",
               "argument domain {0,1,2}, <= 2 parameters"]
MIN_COUNTERS = {"quick": {"value_checks": 3000, "spelling_checks": 3000, "reexec_checks": 3000},
                "thorough": {"value_checks": 100000, "spelling_checks": 100000, "reexec_checks": 100000}}
SHARD_TIMEOUT = {"quick": 900, "thorough": 5400}


def gen_cases(tier, seed):
    n = 900 if tier == "quick" else 14000
    orders = 4 if tier == "quick" else 10
    for i in range(n):
        yield {"id": "m%d" % i, "seed": env.derive_seed(seed, ID, i), "orders": orders,
               "itemspaces": i % 3 == 0, "inheritance": i % 2 == 0}
    # binding grid: every signature of 1-4 parameters with defaults on a suffix x every way of writing a call
    from .. import bindgrid
    reps = 2 if tier == "quick" else 12
    for j, ps in enumerate(bindgrid.signatures()):
        for r in range(reps):
            yield {"id": "b%d_%d" % (j, r), "kind": "bind", "params": ps, "seed": env.derive_seed(seed, ID, "b", j, r),
                   "cached_caller": r % 2 == 0}


def expand(case):
    if "ops" in case or case.get("kind") == "bind":
        return case
    rnd = random.Random(case["seed"])
    g = ModelGen(rnd, itemspaces=case.get("itemspaces", False), inheritance=case.get("inheritance", True)).build()
    c = dict(case)
    c["ops"] = g.ops
    return c


def build(ops):
    reset_session()
    w = World()
    rejected = 0
    for op in ops:
        r = w.apply(op)
        if r[0] == "rej":
            rejected += 1
    return w, rejected


def run_bind(case):
    """calls that bind to the same arguments denote the same element; the value is that of the plain function"""
    from .. import bindgrid as B
    params = case["params"]
    rnd = random.Random(case["seed"])
    reset_session()
    vio = []
    cnt = {"value_checks": 0, "spelling_checks": 0, "reexec_checks": 0, "bind_spellings": 0, "bind_in_formula": 0}

    def V(kind, sig, **d):
        if len(vio) < 4:
            vio.append({"kind": kind, "signature": sig, "detail": dict(d, signature=B.sig_text(params))})
    m = mx.new_model("M")
    S = m.new_space("S")
    log = []
    S.log = log
    names = [p_ for p_, _ in params]
    expr = " + ".join("%s * %d" % (n, 10 ** i) for i, n in enumerate(names))
    tup = "(%s)" % "".join(n + ", " for n in names)
    S.new_cells("f", formula="def f(%s):\n    log.append(%s)\n    return %s\n" % (B.sig_text(params), tup, expr))
    plainf = B.plain(params, expr)
    seen = {}
    # plan every call first: the callers are created before anything is evaluated (a new cells changes the
    # namespace of its space and, legitimately, discards what that space holds)
    T = m.new_space("T")
    T.S = S
    plan = []
    for given in B.choices(params):
        vals = {n: rnd.randint(1, 4) for n in given}
        for args, kw in B.spellings(params, vals):
            text = ", ".join([repr(a) for a in args] + ["%s=%r" % (n, v) for n, v in kw])
            in_formula = rnd.random() < 0.4
            if in_formula:
                T.new_cells("g%d" % len(plan), formula="lambda: S.f(%s)" % text,
                            is_cached=case.get("cached_caller", True))
            plan.append((args, kw, text, in_formula))
    for k, (args, kw, text, in_formula) in enumerate(plan):
        if True:
            key = B.bound_tuple(params, args, kw)
            exp = plainf(*args, **dict(kw))
            n0 = len(log)
            if in_formula:
                got = val(T.cells["g%d" % k])
                cnt["bind_in_formula"] += 1
            else:
                got = val(S.f, *args, **dict(kw))
            ran = log[n0:]
            cnt["bind_spellings"] += 1
            cnt["value_checks"] += 1
            cnt["spelling_checks"] += 1
            if got != exp:
                V("value", "value differs from pure evaluation of the formula", call=text, got=got, expected=exp,
                  in_formula=in_formula)
                continue
            cnt["reexec_checks"] += 1
            if key in seen:
                if ran:
                    V("reexec", "a second spelling ran the formula again", call=text, first=seen[key], ran=ran,
                      in_formula=in_formula)
            elif ran != [key]:
                V("bind", "a call bound other arguments than the plain function binds", call=text, ran=ran,
                  expected=list(key), in_formula=in_formula)
            seen.setdefault(key, text)
            # subscription with the complete argument tuple denotes the same element
            n0 = len(log)
            got2 = valsub(S.f, key)
            cnt["spelling_checks"] += 1
            if got2 != exp or log[n0:]:
                V("sub", "subscription with the bound arguments is another element", call=text, key=list(key), got=got2,
                  expected=exp, ran=log[n0:])
    def norm(t):
        return t if isinstance(t, tuple) else (t,)
    held = {norm(h) for h in S.f}
    if held != set(seen):
        V("held", "the held elements are not the distinct bound argument tuples", held=sorted(map(repr, held))[:8],
          expected=sorted(map(repr, seen))[:8])
    return {"violations": vio, "counters": cnt, "nontrivial": True, "shape": "bind-" + B.sig_text(params),
            "matrix": {"binding grid: signature": {B.sig_text(params): cnt["bind_spellings"]}}}


def valsub(c, key):
    try:
        return c[key if len(key) != 1 else key[0]]
    except Exception as e:     # noqa
        return ("ERR", type(e).__name__)


def run_case(case):
    if case.get("kind") == "bind":
        return run_bind(case)
    case = expand(case)
    rnd = random.Random(case["seed"] ^ 0x5EED)
    vio = []
    cnt = {"value_checks": 0, "spelling_checks": 0, "reexec_checks": 0, "unknown": 0, "errors_expected": 0,
           "build_rejected": 0, "orders": 0, "enter_events": 0, "item_queries": 0, "derived_queries": 0}
    w, rej = build(case["ops"])
    cnt["build_rejected"] = rej
    g = ModelGen(random.Random(0))
    g.rm = w.rm
    queries = g.queries()
    if not queries:
        return {"status": "vacuous", "counters": cnt}
    expected = {}
    ev0 = None
    for qi, q in enumerate(queries):
        expected[qi] = w.ref_value(q["inst"], q["name"], q["args"])
    deep = 0
    shapes = []
    ev0 = w.evaluator()
    insts = {}
    for q in queries:
        i = ev0.inst_from_steps(q["inst"])
        insts[i.evalrepr("M")] = q["inst"]

    def V(kind, sig, **d):
        vio.append({"kind": kind, "signature": sig, "detail": d})

    for order in range(case.get("orders", 4)):
        if order:
            w, _ = build(case["ops"])
        cnt["orders"] += 1
        idx = list(range(len(queries)))
        rnd.shuffle(idx)
        held = set()             # cached elements that completed (probe EXIT) in this model
        ev = w.evaluator()
        for phase in ("first", "again"):
            seq = idx if phase == "first" else list(reversed(idx))
            for qi in seq:
                q = queries[qi]
                inst = ev.inst_from_steps(q["inst"])
                cdef = ev.cell_def(inst, q["name"])
                sps = spellings(cdef, q["args"])
                first = rnd.choice(sps)
                n0 = len(w.probe.log)
                lv = w.live_value(q["inst"], q["name"], first[1], first[2], first[0])
                evs = w.probe.log[n0:]
                entered = [e[1:4] for e in evs if e[0] == "E"]
                cnt["enter_events"] += len(entered)
                if len(entered) >= 2:
                    deep += 1
                if any(s[0] == "i" for s in q["inst"]):
                    cnt["item_queries"] += 1
                # -- never run again while held
                cnt["reexec_checks"] += 1
                for el in entered:
                    if el in held:
                        V("re-executed", "formula of a held element ran again", element=list(el), query=q,
                          order=order, phase=phase)
                seen = set()
                for e in evs:
                    if e[0] == "E" and e[1:4] in seen:
                        V("twice", "cached element executed twice in one evaluation", element=list(e[1:4]), query=q)
                    if e[0] == "X" and _cached(ev, w, e[1:4]):
                        if e[4] and not _none_allowed(ev, insts, e[1:4]):
                            continue        # returned None where it is not allowed: no value is stored
                        seen.add(e[1:4])
                        held.add(e[1:4])
                if phase == "again" and entered and not (isinstance(lv, tuple) and lv and lv[0] == "ERR"):
                    # everything was evaluated in the first pass: a successful query may only enter uncached cells
                    for el in entered:
                        if _cached(ev, w, el) and el in held and el not in seen:
                            pass
                # -- value against the reference evaluator
                exp = expected[qi]
                if exp is R.UNKNOWN:
                    cnt["unknown"] += 1
                else:
                    cnt["value_checks"] += 1
                    if isinstance(exp, tuple) and exp and exp[0] == "ERR":
                        cnt["errors_expected"] += 1
                    if _norm(lv) != _norm(exp):
                        V("value", "value differs from pure evaluation of the formula", query=q, spelling=list(first),
                          live=lv, expected=exp, order=order, phase=phase)
                # -- every other spelling: same element, same value, no execution of held elements
                if not (isinstance(lv, tuple) and lv and lv[0] == "ERR"):
                    try:
                        c = w.live_inst(q["inst"]).cells[q["name"]]
                        n1 = len(c)
                    except Exception:     # noqa
                        c = None
                    for sp in sps:
                        cnt["spelling_checks"] += 1
                        n2 = len(w.probe.log)
                        v2 = w.live_value(q["inst"], q["name"], sp[1], sp[2], sp[0])
                        if _norm(v2) != _norm(lv):
                            V("spelling-value", "two spellings of the same arguments give different values",
                              query=q, a=list(first), b=list(sp), va=lv, vb=v2)
                        if c is not None and cdef.cached and len(c) != n1:
                            V("spelling-element", "a second spelling created another element", query=q,
                              a=list(first), b=list(sp), before=n1, after=len(c))
                        if cdef.cached:
                            ent2 = [e for e in w.probe.log[n2:] if e[0] == "E"]
                            if ent2:
                                V("spelling-exec", "a second spelling ran the formula again", query=q,
                                  a=list(first), b=list(sp), entered=[list(e[1:]) for e in ent2[:3]])
                if vio:
                    break
            if vio:
                break
        s = sanity(w.m)
        if s:
            V("sanity", "library self-check failed after evaluations", probs=s[:3])
        if vio:
            break
        shapes.append("%x-%d" % (case["seed"] & 0xFFFFFFFF, order))
    return {"violations": vio, "counters": cnt, "nontrivial": deep > 0, "shapes": shapes, "case": case,
            "sample": {"ops": case["ops"][:8], "n_ops": len(case["ops"]), "queries": len(queries),
                       "example_query": queries[0], "expected": expected[0]}}


def _cached(ev, w, el):
    """is the element (space repr, name, key) one of a cached cells?  unknown -> False (asserts nothing)"""
    try:
        c = mx.get_object(el[0] + "." + el[1]) if "(" not in el[0] else None
        if c is not None:
            return bool(c.is_cached)
    except Exception:    # noqa
        return False
    # ItemSpace element: look the cells up through the evaluable repr
    try:
        sp = eval(el[0], {"M": w.m, "__builtins__": {}})     # noqa: S307  repr produced by modelx itself
        return bool(sp.cells[el[1]].is_cached)
    except Exception:    # noqa
        return False


def _none_allowed(ev, insts, el):
    """does allow_none resolve true for this element's cells?  unknown instance -> True (asserts nothing)"""
    steps = insts.get(el[0])
    if steps is None:
        return False
    try:
        return ev.allow_none(ev.inst_from_steps(steps), el[1])
    except Exception:     # noqa
        return False


def _norm(v):
    if isinstance(v, tuple):
        return list(v)
    return v


def shrink(case, violations, deadline):
    if case.get("kind") == "bind":
        return None
    from ..shrink import shrink_ops
    return shrink_ops(expand(case), run_case, violations, deadline)
