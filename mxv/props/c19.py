"""C19 - model registry: unique names, no model dropped, models isolated.

Workload: histories of new_model / read_model / rename (with and without
rename_old, free / taken / invalid names) / close / edits / evaluations over
several concurrently open models.  Oracle: a sequential registry model
(dict name -> model identity with the backup-suffix rule) plus a per-model
record of what each model must compute; snapshots of all *other* models before
and after every operation.
"""
import os
import random
import re
import shutil
import tempfile

from .. import env
from ..mxutil import mx, snap_model, dict_diff, val, sanity, Inconclusive

ID = "C19"
LEVEL = "exploration"
RULE = ("seeded random histories (length 10-30) over the op kinds new/new-colliding/read/read-colliding/"
        "rename/rename_old/rename-invalid/close/edit/eval/xref on up to 6 open models; a case is non-trivial "
        "when at least one name collision or rename happened; distinct = distinct op-kind sequence with "
        "collision pattern")
ASSUMPTIONS = ["the number chosen for a _BAK<n> suffix is not asserted, only that the old model survives "
               "under an unused name starting with <name>_BAK"]
MIN_COUNTERS = {"quick": {"registry_checks": 2000, "collisions": 150, "isolation_snapshots": 5000},
                "thorough": {"registry_checks": 5000, "collisions": 500, "isolation_snapshots": 5000}}

NAMES = ["X", "Y", "Z", "X_BAK1", "X_BAK2", "Y_BAK1", "Model1", "Model2", "Model3"]
BAD = ["1a", "_x", "", "a b", "for", "a.b"]


def gen_cases(tier, seed):
    n = 400 if tier == "quick" else 12000
    for i in range(n):
        yield {"id": "h%d" % i, "seed": env.derive_seed(seed, ID, i), "len": 12 + (i % 3) * 8}
    for j, ops in enumerate(DIRECTED):
        yield {"id": "d%d" % j, "ops": ops}


DIRECTED = [
    # collision with an already suffixed name
    [{"op": "new", "name": "X"}, {"op": "new", "name": "X_BAK1"}, {"op": "new", "name": "X"},
     {"op": "new", "name": "X"}, {"op": "eval"}],
    # rename onto taken name without / with rename_old
    [{"op": "new", "name": "X"}, {"op": "new", "name": "Y"}, {"op": "rename", "idx": 0, "dst": "Y", "rename_old": False},
     {"op": "rename", "idx": 0, "dst": "Y", "rename_old": True}, {"op": "eval"}],
    [{"op": "new", "name": "X"}, {"op": "write", "idx": 0}, {"op": "read", "name": None}, {"op": "read", "name": "X"},
     {"op": "close", "idx": 1}, {"op": "eval"}],
]


def expand(case):
    if "ops" in case:
        return case
    rnd = random.Random(case["seed"])
    ops = []
    nmodels = 0
    written = False
    for _ in range(case["len"]):
        k = rnd.choice(["new", "new", "new", "rename", "rename", "rename_old", "close", "edit", "edit",
                        "eval", "write", "read", "read", "badname", "xref", "newbad", "pandas", "shareval",
                        "unshare"])
        if k == "new":
            ops.append({"op": "new", "name": rnd.choice(NAMES + [None])})
            nmodels += 1
        elif k in ("rename", "rename_old") and nmodels:
            ops.append({"op": "rename", "idx": rnd.randrange(nmodels), "dst": rnd.choice(NAMES + ["W"]),
                        "rename_old": k == "rename_old"})
        elif k == "close" and nmodels:
            ops.append({"op": "close", "idx": rnd.randrange(nmodels)})
        elif k == "edit" and nmodels:
            ops.append({"op": "edit", "idx": rnd.randrange(nmodels), "k": rnd.randint(1, 50),
                        "kind": rnd.choice(["ref", "formula", "cells", "space", "input"])})
        elif k == "eval":
            ops.append({"op": "eval"})
        elif k == "write" and nmodels:
            ops.append({"op": "write", "idx": rnd.randrange(nmodels)})
            written = True
        elif k == "read" and written:
            ops.append({"op": "read", "name": rnd.choice([None, None] + NAMES[:4])})
            nmodels += 1
        elif k == "badname" and nmodels:
            ops.append({"op": "badname", "idx": rnd.randrange(nmodels), "name": rnd.choice(BAD),
                        "rename_old": rnd.random() < 0.5})
        elif k == "newbad":
            ops.append({"op": "newbad", "name": rnd.choice(BAD[:3])})
        elif k in ("pandas", "shareval", "unshare") and nmodels:
            # one value object known to several models: bound to an IOSpec in some, a plain reference in others
            ops.append({"op": k, "idx": rnd.randrange(nmodels), "how": rnd.choice(["rebind", "del"])})
        elif k == "xref" and nmodels > 1:
            a = rnd.randrange(nmodels)
            b = rnd.randrange(nmodels)
            if a != b:
                ops.append({"op": "xref", "idx": a, "target": b})
    d = dict(case)
    d["ops"] = ops
    return d


class Rec:
    """what the harness knows about one model it created"""
    def __init__(self, model):
        self.model = model
        self.open = True
        self.k = 1          # S.k reference
        self.add = 0        # constant in S.c's formula
        self.extra = []     # extra cells names
        self.inputs = {}
        self.xrefs = set()  # indices of models this one holds a reference into
        self.spaces = ["S"]
        self.has_spec = False   # S.pdf = the shared value, bound to an IOSpec (relative path)
        self.shv = False        # S.shv = the shared value as a plain reference


def populate(m):
    s = m.new_space("S")
    s.k = 1
    s.new_cells("c", formula="def c(x):\n    return x * 10 + k + 0")
    s.new_cells("d", formula="def d(x):\n    return c(x) + c(x + 1)")


def expected_values(rec):
    out = {}
    for x in (0, 1, 2):
        c = lambda y: rec.inputs[y] if y in rec.inputs else y * 10 + rec.k + rec.add    # noqa
        out["c(%d)" % x] = c(x)
        out["d(%d)" % x] = c(x) + c(x + 1)
    return out


def live_values(m):
    out = {}
    for x in (0, 1, 2):
        out["c(%d)" % x] = val(m.S.c, x)
        out["d(%d)" % x] = val(m.S.d, x)
    return out


def snap_other(m):
    d = snap_model(m, with_name=False)
    d["iospecs"] = sorted((type(s_).__name__, str(s_.path)) for s_ in m.iospecs)
    d["refs"] = {k: v for k, v in d["refs"].items() if not k.startswith("xref")}
    return d


def run_case(case):
    case = expand(case)
    ops = case["ops"]
    recs = []                 # creation order
    reg = {}                  # sequential registry model: name -> Rec
    vio = []
    counters = {"registry_checks": 0, "collisions": 0, "isolation_snapshots": 0, "value_checks": 0,
                "renames": 0, "rejected": 0, "ops": 0}
    kinds = []
    tmp = tempfile.mkdtemp(prefix="mxv_c19_")
    saved = None
    import pandas as pd
    shared = pd.DataFrame({"a": [1, 2, 3]})

    def V(kind, sig, **detail):
        vio.append({"kind": kind, "signature": sig, "detail": dict(detail, step=step, op=op)})

    def collide(name):
        """sequential model of the backup rule; returns the Rec pushed aside (or None)"""
        if name in reg:
            counters["collisions"] += 1
            old = reg.pop(name)
            nn = old.model.name
            if not re.fullmatch(re.escape(name) + r"_BAK\d+", nn):
                V("backup-name", "collision: existing model not renamed <name>_BAK<n>", old=name, now=nn)
            if nn in reg:
                V("backup-clobber", "collision: backup name was already in use", name=nn)
            reg[nn] = old
            return old
        return None

    try:
        for step, op in enumerate(ops):
            counters["ops"] += 1
            kinds.append(op["op"])
            before = {i: snap_other(r.model) for i, r in enumerate(recs) if r.open}
            counters["isolation_snapshots"] += len(before)
            touched = set()
            o = op["op"]
            if "idx" in op:
                if not recs:
                    continue
                op = dict(op, idx=op["idx"] % len(recs))
                if "target" in op:
                    op["target"] = op["target"] % len(recs)
                    if op["target"] == op["idx"]:
                        continue
            try:
                if o == "new":
                    n = op["name"]
                    m = mx.new_model(n) if n else mx.new_model()
                    populate(m)
                    r = Rec(m)
                    recs.append(r)
                    if n:
                        if m.name != n:
                            V("new-name", "new_model did not get the requested name", want=n, got=m.name)
                        collide(n)
                    if m.name in reg:
                        V("new-overwrite", "new_model reused a name in use", name=m.name)
                    reg[m.name] = r
                    touched.add(len(recs) - 1)
                elif o == "newbad":
                    names_before = sorted(mx.get_models())
                    try:
                        m = mx.new_model(op["name"])
                    except ValueError:
                        counters["rejected"] += 1
                        if sorted(mx.get_models()) != names_before:
                            V("rejected-changed", "rejected new_model changed the registry")
                    else:
                        # an empty name means "automatic name"; anything else invalid must be rejected
                        if op["name"] != "":
                            V("invalid-name", "new_model accepted an invalid name", name=op["name"])
                        populate(m)
                        r = Rec(m)
                        recs.append(r)
                        reg[m.name] = r
                        touched.add(len(recs) - 1)
                elif o == "rename":
                    r = recs[op["idx"]]
                    if not r.open:
                        continue
                    src, dst = r.model.name, op["dst"]
                    r.model.rename(dst, rename_old=op["rename_old"])
                    counters["renames"] += 1
                    if dst == src:
                        pass
                    elif dst in reg and not op["rename_old"]:
                        pass        # taken, no rename_old: nothing changes
                    else:
                        collide(dst)
                        reg.pop(src)
                        reg[dst] = r
                elif o == "badname":
                    r = recs[op["idx"]]
                    if not r.open:
                        continue
                    try:
                        r.model.rename(op["name"], rename_old=op["rename_old"])
                    except ValueError:
                        counters["rejected"] += 1
                    else:
                        V("invalid-name", "rename accepted an invalid model name", name=op["name"])
                        reg.pop(next(k for k, v in reg.items() if v is r))
                        reg[r.model.name] = r
                elif o == "close":
                    r = recs[op["idx"]]
                    if not r.open:
                        continue
                    name = r.model.name
                    r.model.close()
                    r.open = False
                    reg.pop(name)
                elif o == "edit":
                    r = recs[op["idx"]]
                    if not r.open:
                        continue
                    m = r.model
                    touched.add(op["idx"])
                    if op["kind"] == "ref":
                        m.S.k = op["k"]
                        r.k = op["k"]
                    elif op["kind"] == "formula":
                        m.S.c.formula = "def c(x):\n    return x * 10 + k + %d" % op["k"]
                        r.add = op["k"]
                        r.inputs = {}
                    elif op["kind"] == "cells":
                        n = "e%d" % step
                        m.S.new_cells(n, formula="lambda: %d" % op["k"])
                        r.extra.append(n)
                    elif op["kind"] == "space":
                        m.new_space("T%d" % step)
                    elif op["kind"] == "input":
                        m.S.c[1] = op["k"]
                        r.inputs[1] = op["k"]
                elif o == "pandas":
                    r = recs[op["idx"]]
                    if not r.open or r.has_spec or r.shv:
                        continue
                    r.model.S.new_pandas("pdf", "data/p.csv", shared, "csv")
                    r.has_spec = True
                    touched.add(op["idx"])
                elif o == "shareval":
                    r = recs[op["idx"]]
                    if not r.open or r.shv or r.has_spec:
                        continue
                    r.model.S.shv = shared
                    r.shv = True
                    touched.add(op["idx"])
                elif o == "unshare":
                    r = recs[op["idx"]]
                    if not r.open or not r.shv:
                        continue
                    if op["how"] == "del":
                        del r.model.S.shv
                    else:
                        r.model.S.shv = 0
                    r.shv = False
                    touched.add(op["idx"])
                elif o == "xref":
                    r, t = recs[op["idx"]], recs[op["target"]]
                    if not (r.open and t.open):
                        continue
                    setattr(r.model, "xref%d" % op["target"], t.model.S)
                    r.xrefs.add(op["target"])
                    touched.add(op["idx"])
                elif o == "write":
                    r = recs[op["idx"]]
                    if not r.open:
                        continue
                    if r.xrefs:
                        continue      # a saved reference into another model needs that model at load time
                    if saved:
                        shutil.rmtree(saved[0], ignore_errors=True)
                    p = os.path.join(tmp, "sv")
                    r.model.write(p, backup=False)
                    saved = (p, r.model.name, {"k": r.k, "add": r.add, "inputs": dict(r.inputs),
                                                "has_spec": r.has_spec, "shv": r.shv})
                elif o == "read":
                    if not saved:
                        continue
                    want = op["name"] or saved[1]
                    m = mx.read_model(saved[0], name=op["name"]) if op["name"] else mx.read_model(saved[0])
                    r = Rec(m)
                    r.k, r.add, r.inputs = saved[2]["k"], saved[2]["add"], dict(saved[2]["inputs"])
                    r.has_spec, r.shv = saved[2]["has_spec"], saved[2]["shv"]
                    recs.append(r)
                    if m.name != want:
                        V("read-name", "read_model did not get the requested name", want=want, got=m.name)
                    collide(want)
                    reg[m.name] = r
                    touched.add(len(recs) - 1)
                elif o == "eval":
                    pass
            except Exception as e:      # noqa
                V("op-raised", "valid registry operation raised %s" % type(e).__name__, msg=str(e)[:200])
                break

            # ---- registry against the sequential model
            counters["registry_checks"] += 1
            live = mx.get_models()
            if set(live) != set(reg):
                V("registry", "registry names differ from the sequential model",
                  live=sorted(live), model=sorted(reg))
                break
            for k, r in reg.items():
                if live[k] is not r.model:
                    V("registry", "name maps to another model", name=k)
                if live[k].name != k:
                    V("registry", "registered name differs from model.name", key=k, name=live[k].name)
            if len({id(v) for v in live.values()}) != len(live):
                V("registry", "two names map to one model")
            opened = [r for r in recs if r.open]
            if len(opened) != len(reg):
                V("dropped", "an open model is not registered (dropped)", open=len(opened), reg=len(reg))
            # ---- isolation: definitions of untouched models unchanged
            for i, b in before.items():
                r = recs[i]
                if r.open and i not in touched:
                    a = snap_other(r.model)
                    if a != b:
                        V("isolation", "operation on one model changed the definitions of another",
                          diff=dict_diff(b, a)[:4])
            # ---- values of every open model
            if o in ("eval", "edit", "close", "rename", "new", "read"):
                for i, r in enumerate(recs):
                    if not r.open:
                        continue
                    counters["value_checks"] += 1
                    ev, lv = expected_values(r), live_values(r.model)
                    if ev != lv:
                        V("values", "a model's values changed through operations on other models"
                          if i not in touched else "model computes wrong values", model=i,
                          diff=dict_diff(ev, lv)[:4])
            s = sanity()
            if s:
                V("sanity", "library self-check failed", probs=s[:3])
            if vio:
                break
    finally:
        shutil.rmtree(tmp, ignore_errors=True)
    nontrivial = counters["collisions"] + counters["renames"] > 0
    return {"violations": vio, "counters": counters, "nontrivial": nontrivial,
            "shape": ",".join(kinds) + "|c%d" % counters["collisions"],
            "case": case,
            "sample": {"ops": ops[:12], "final_registry": sorted(reg), "collisions": counters["collisions"]}}


def shrink(case, violations, deadline):
    from ..shrink import shrink_ops
    return shrink_ops(case, run_case, violations, deadline)
