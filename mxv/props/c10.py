"""C10 - object-valued references rebind relatively or stay absolute as their mode says.

Workload
  grid       every (definer depth 0-2) x (mode) x (target placement: the definer, its cells, child /
             grandchild spaces and their cells, outside space / cells, outside objects whose path has
             the definer's path as a string prefix, ancestor and its cells, another model's space /
             cells) x (deriver: sub, sub of sub, sub nested elsewhere, second base of a sub, sub inside
             an enclosing ItemSpace, ItemSpace of the definer, dynamic child of the top ItemSpace,
             nested ItemSpace, ItemSpace of a sub, ItemSpace built on the definer / the top space as
             explicit base) - enumerated completely, one fresh model each; once plain and once followed
             by write+read (directory / zip).
  histories  random trees (names that are string prefixes of one another, multiple inheritance,
             parametrised spaces with and without explicit base) with object-valued references of all
             modes, then edits: change / create / delete / override / un-override references, add and
             remove bases, rename and delete spaces and cells, re-create, set / delete space formulas,
             write+read and continue on the copy.  A directed family first builds D(X, Y) where X and Y
             define the same name with independently chosen target placements and then changes which of
             them D derives from.
Oracle: after every accepted operation every object-valued reference visible in every static space, in
the ItemSpace of every parametrised space and in its dynamic children and nested ItemSpaces is compared
(`is`) with the object the statement prescribes (mxv/c10_world.py; UNKNOWN = statement silent =
nothing asserted), and ReferenceProxy.refmode with the declared mode.
"""

from .. import env
from ..mxutil import sanity
from .. import c10_gen as G
from ..c10_world import World, Checker, Stop

ID = "C10"
LEVEL = "exploration"
RULE = ("grid: all existing combinations of definer depth {0,1,2} x mode {auto,relative,absolute} x 16 target "
        "placements x 11 derivers, each on a fresh model, each also followed by write+read (quick: directory "
        "for one third of the points rotating with the seed; thorough: directory and zip for all); histories: "
        "seeded random models "
        "(3-4 top spaces with children, multiple inheritance, prefix-related names, 3-6 object-valued "
        "references, parametrised spaces) + 8-20 random edits, one third of them started from a directed "
        "definer-switch construction; all bindings checked after every accepted op; the 7 minimal witnesses of "
        "findings/c10_witnesses.py run first as regression probes.  non-trivial = at least "
        "one reference seen through a deriver (sub space or dynamic tree) with a specified binding; distinct = "
        "distinct grid point / distinct op sequence hash")
ASSUMPTIONS = [
    "descendant targets under static derivation, and outside targets that are relatively reachable through "
    "related enclosing spaces, are outside the statement: nothing is asserted (counted as unspecified)",
    "a relative-mode reference whose target is out of scope is a documented rejection at derivation / "
    "instantiation (judged by C11): an ItemSpace that refuses to be built is accepted only when such a "
    "reference is visible in its base tree",
    "references to deleted objects are not judged (the original object is the live handle that was assigned)",
    "an edit modelx refuses is C11's subject: the history goes on only when definitions, self-check and all "
    "bindings are still what they were (else it stops, counted stopped_refused_edit_*); in the grid, whose "
    "constructions are valid by design, a refused step for an auto/absolute reference is a violation",
    "which instances exist is C07's subject: an ItemSpace kept from before an edit whose tree does not mirror "
    "its base, or whose bindings differ from a newly built instance that is right, is noted, not judged; an "
    "instantiation that fails is judged only when the base tree has object-valued references, every one of "
    "them has an object to be bound to, and a newly built instance fails too",
    "a model that was written but cannot be read back ends the history (C04's subject, counted)",
    "cells renames that collide with other definitions along a sub's MRO are skipped (C03's subject)",
    "modes are compared for object-valued references only",
    "C3 / member derivation as restated in mxv/refmodel.py (mro, members)",
]
MIN_COUNTERS = {
    "quick": {"static_derived_checks": 10000, "rebound_checks": 2500, "kept_checks": 8000, "item_checks": 10000,
              "dynamic_rebound_checks": 3000, "dynamic_kept_checks": 6000, "mode_checks": 50000,
              "namespace_checks": 2000, "reload_checks": 3000, "grid_points": 1700, "grid_acceptance_checks": 10000,
              "history_ops": 25000, "dynamic_prefix_named_outside_checks": 250, "definer_switches": 400,
              "witness_probes": 7},
    "thorough": {"static_derived_checks": 120000, "rebound_checks": 25000, "kept_checks": 90000,
                 "item_checks": 110000, "dynamic_rebound_checks": 35000, "dynamic_kept_checks": 75000,
                 "mode_checks": 500000, "namespace_checks": 7000, "reload_checks": 30000, "grid_points": 3900,
                 "grid_acceptance_checks": 35000, "history_ops": 300000,
                 "dynamic_prefix_named_outside_checks": 2500, "definer_switches": 4500, "witness_probes": 7},
}
SHARD_TIMEOUT = {"quick": 900, "thorough": 5400}
MAX_CONFIRM = 6


def gen_cases(tier, seed):
    # regression probes: the minimal witnesses of the mechanisms this check found (findings/c10_witnesses.py)
    for name in WITNESSES:
        yield {"kind": "witness", "id": "w-" + name, "name": name}
    pts = [p for p in G.grid_points() if not (p[0] == 0 and p[3] == "sub_in_tree")]
    vias = ("set_ref", "kw", "setattr")
    for i, (depth, mode, tgt, drv) in enumerate(pts):
        base = {"kind": "grid", "depth": depth, "mode": mode, "target": tgt, "deriver": drv}
        via = vias[(i + seed) % 3]
        if via == "setattr" and mode != "auto":
            via = "set_ref"
        yield dict(base, id="g%d" % i, finish="none", via=via)
        if tier == "thorough":
            yield dict(base, id="g%d-dir" % i, finish="dir", via="set_ref")
            yield dict(base, id="g%d-zip" % i, finish="zip", via="kw" if mode != "auto" else "setattr")
        elif (i + seed) % 3 == 0:
            yield dict(base, id="g%d-dir" % i, finish="dir", via="set_ref")
    n = 1500 if tier == "quick" else 16000
    for i in range(n):
        d = {"kind": "history", "id": "h%d" % i, "seed": env.derive_seed(seed, ID, i), "n_ops": 8 + (i % 4) * 4}
        if i % 3 == 0:
            d["directed"] = G.DIRECTED[(i // 3) % len(G.DIRECTED)]
        yield d


WITNESSES = ("prefix_named_outside_target", "prefix_named_outside_target_raises",
             "derived_reference_kept_static_in_dynamic_tree",
             "changed_reference_breaks_itemspace_of_enclosing_space",
             "derived_mode_stale_after_definer_switch",
             "child_reference_stale_after_parent_base_removed",
             "child_reference_stale_after_base_deleted",
             "nested_deriver_named_like_its_base",
             "mirrored_tree_related_at_top_and_depth2")


def run_witness(case):
    import importlib
    mod = importlib.import_module("findings.c10_witnesses")
    fn = getattr(mod, case["name"])
    r = fn()
    vio = []
    if r is not None:
        sig = (fn.__doc__ or "").split("signature:", 1)[-1].strip().split("\n\n")[0]
        sig = " ".join(sig.split()) or ("witness %s deviates" % case["name"])
        vio.append({"kind": "witness", "signature": sig, "detail": {"witness": case["name"], "observed": r}})
    return {"violations": vio, "counters": {"witness_probes": 1}, "nontrivial": True, "shape": "w|" + case["name"],
            "case": case, "sample": {"kind": "witness", "name": case["name"], "observed": r}}


def expand(case):
    if "ops" in case or case.get("kind") == "witness":
        return case
    c = dict(case)
    if case["kind"] == "grid":
        c["ops"] = G.grid_ops(case["depth"], case["mode"], case["target"], case["deriver"],
                              case.get("finish", "none"), case.get("via", "set_ref"))
    else:
        c["ops"] = G.history_ops(case["seed"], case["n_ops"], case.get("directed"))
    return c


def run_case(case):
    case = expand(case)
    if case.get("kind") == "witness":
        return run_witness(case)
    ops = case["ops"]
    grid = case.get("kind") == "grid"
    cnt, matrix, vio = {}, {}, []
    w = World()
    ck = Checker(w, cnt, matrix, vio)
    kinds = []
    status = []
    notes = []
    stopped = False

    def bump(k, n=1):
        cnt[k] = cnt.get(k, 0) + n

    try:
        live_ops = [i for i, op in enumerate(ops) if op["op"] != "nop"]
        last_edit = live_ops[-1] if live_ops else 0
        for step, op in enumerate(ops):
            try:
                st = w.apply(op)
            except Stop as e:
                status.append("stop:" + e.reason)
                bump(e.reason)
                notes.append("%s: %s" % (e.reason, str(w.last_error)[:160]))
                stopped = True
                break
            status.append(st)
            if st == "skip":
                continue
            kinds.append(op["op"] + ("!" if st != "ok" else ""))
            bump("grid_ops" if grid else "history_ops")
            if grid and case["mode"] != "relative" and st == "ok":
                bump("grid_acceptance_checks")
            ck.step, ck.opkind = step, op["op"]
            if st != "ok":
                bump("rejected_ops")
                if grid and case["mode"] != "relative":
                    # the grid constructions are valid by design (no name clashes, no cycles); only a
                    # relative-mode reference may be refused (target out of scope)
                    bump("grid_acceptance_checks")
                    vio.append({"kind": "refused", "signature": "grid: a valid construction step (%s) was refused "
                                "with %s for a %s-mode reference" % (op["op"], st[4:], case["mode"]),
                                "detail": {"op": op, "error": str(w.last_error)[:200], "step": step}})
                    break
                d = matrix.setdefault("refused edits (not judged here): op x exception class", {})
                key = "%s|%s" % (op["op"], st[4:])
                d[key] = d.get(key, 0) + 1
                # a refused edit must have changed nothing (C11 judges that); the history only goes on
                # when the definitions are still the ones the oracle knows
                diff = w.desync()
                if diff:
                    bump("stopped_refused_edit_changed_definitions")
                    notes.append("refused %s (%s) changed the definitions: %s" % (op["op"], st[4:], diff[:160]))
                    stopped = True
                    break
                # ... and the bindings derived from them: whatever differs now differs because of the
                # refused edit (the model was clean before it)
                probe = Checker(w, {}, {}, [])
                probe.prev_def = dict(ck.prev_def)
                try:
                    probe.check_all(final=False)
                except Stop:
                    probe.vio.append({"signature": "members differ"})
                if probe.vio:
                    bump("stopped_refused_edit_changed_bindings")
                    notes.append("refused %s (%s) changed bindings: %s" % (
                        op["op"], st[4:], probe.vio[0]["signature"][:160]))
                    stopped = True
                    break
            # in a grid case only the finished construction (and the reloaded copy) is looked at: the
            # peek cells must not hold values computed half way.  In a history the construction phase
            # (ops marked chk=False) is looked at once, at its end.
            if grid:
                look = op["op"] == "reload" or step == last_edit or \
                    (step + 1 < len(ops) and ops[step + 1]["op"] == "reload")
            else:
                look = op.get("chk", True) or step == last_edit
            if look:
                before = _total(cnt)
                try:
                    ck.check_all(final=grid)
                except Stop as e:
                    bump(e.reason)
                    notes.append("%s: %s" % (e.reason, str(w.last_error)[:160]))
                    stopped = True
                    break
                if op["op"] == "reload" and st == "ok":
                    bump("reload_checks", _total(cnt) - before)
                    bump("reloads")
            if vio:
                break
        if not vio and not stopped:
            s = sanity(w.m)
            if s:
                vio.append({"kind": "sanity", "signature": "library self-check failed after reference edits",
                            "detail": {"probs": s[:3]}})
        if grid:
            cnt["grid_points"] = 1
    finally:
        w.close()
    seen = cnt.get("static_derived_checks", 0) + cnt.get("item_checks", 0)
    shape = ("grid|%s|%s|%s|%s|%s" % (case["depth"], case["mode"], case["target"], case["deriver"],
                                      case.get("finish")) if grid else "h|" + ",".join(kinds))
    res = {"violations": vio, "counters": cnt, "matrix": matrix, "nontrivial": seen > 0, "shape": shape}
    if grid:
        res["grid_point"] = [case["depth"], case["mode"], case["target"], case["deriver"]]
    if vio:
        res["case"] = case
        res["op_status"] = status
    notes.extend(ck.notes[:3])
    if notes:
        res["notes"] = notes
    if vio or case["id"] in SAMPLE_IDS:
        res["sample"] = {"kind": case.get("kind"), "ops": [o for o in ops if o["op"] != "nop"][:40],
                         "n_ops": len(ops), "op_status": status[:40], "notes": notes,
                         "checks": {k: v for k, v in cnt.items() if k.endswith("checks")}}
    return res


SAMPLE_IDS = ("g5", "g700", "h0", "h1")


def _total(cnt):
    return sum(cnt.get(k, 0) for k in ("static_derived_checks", "static_defined_checks", "item_checks", "mode_checks"))


def finalize(cov, results):
    pts = {tuple(r["grid_point"]) for r in results
           if r.get("grid_point") and r.get("status") in ("ok", "violation")}
    want = {p for p in G.grid_points() if not (p[0] == 0 and p[3] == "sub_in_tree")}
    cov["grid_size"] = len(want)
    cov["grid_points_run"] = len(pts)
    cov["exhaustive"] = pts >= want
    cov["exhaustive_over"] = "definer depth x mode x target placement x deriver (grid)"
    notes = {}
    for r in results:
        for n in r.get("notes") or []:
            k = n.split(":")[0]
            notes.setdefault(k, [0, n, r["id"]])[0] += 1
    cov["not_judged_notes"] = [{"what": k, "count": v[0], "example": v[1], "case": v[2]} for k, v in notes.items()][:12]


def shrink(case, violations, deadline):
    if case.get("kind") == "witness":
        return None
    from ..shrink import shrink_ops
    return shrink_ops(expand(case), run_case, violations, deadline)
