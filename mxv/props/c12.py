"""C12 - names are unique per space and the visible namespace equals the containers.

After every operation of histories biased to *indirect* name clashes (a base added to
a space that already uses the name for another kind, a member created in a base of
such a space, renames towards used names, model-level references named like cells or
spaces, same names at different levels) an invariant walker inspects the live model
through its public accessors only:
  * cells / own references / child spaces of every space pairwise disjoint; spaces and
    references of the model disjoint;
  * dir(space) == cells + refs + child spaces; refs == own refs + special names +
    model-level refs (+ parameters and returned refs in ItemSpaces);
  * attribute access gives the member with the stated precedence (cells, then
    space-level references over model-level ones) and AttributeError for absent names;
  * formulas see exactly these names (probe cells evaluated at the end of a history);
  * the library's own self-checks pass.
"""
import random

from .. import env
from ..mxutil import mx, reset_session, sanity, walk_spaces, val
from ..live import World
from ..gen import ModelGen, EditGen, REF_NAMES, C_NAMES, D_NAMES, MODEL_REFS
from .. import refmodel as R
from . import c02, c11

ID = "C12"
LEVEL = "exploration"
RULE = ("seeded random models (grammar of C01) x histories of 10-20 operations: valid edits (all C02 kinds), clash "
        "attempts of 14 kinds instantiated on the model's names (direct and through bases / sub spaces / descendants), "
        "model-level references named like cells or child spaces, evaluation rounds; invariant walker after every "
        "operation, formula-visibility probes at the end. Non-trivial = at least one clash attempt or one model-level "
        "shadowing in the history; distinct = distinct (model seed, op-kind sequence)")
ASSUMPTIONS = ["precedence between a child space and a same-named model-level reference is not stated: only that the "
               "name denotes one of the two is checked"]
MIN_COUNTERS = {"quick": {"walks": 4000, "space_inspections": 20000, "getattr_checks": 200000, "clash_attempts": 1500,
                          "formula_probes": 1200, "absent_name_checks": 30000},
                "thorough": {"walks": 120000, "space_inspections": 600000, "getattr_checks": 6000000,
                             "clash_attempts": 45000, "formula_probes": 35000, "absent_name_checks": 900000}}
SHARD_TIMEOUT = {"quick": 900, "thorough": 5400}

CLASH_KINDS = ["new_cells_clash", "new_space_clash", "model_new_space_clash", "model_ref_clash_space",
               "rename_cells_clash", "rename_cells_clash_sub_cells", "rename_cells_clash_sub_member",
               "rename_space_clash", "ref_clash_cells", "ref_clash_sub_member",
               "cells_clash_sub_member", "add_bases_kind_conflict", "add_bases_kind_conflict_in_sub",
               "new_space_kind_conflict", "new_space_refs_conflict", "new_cells_funcname_clash",
               "new_cells_autoname_clash",
               "setattr_nonscalar_cells",
               "new_cells_badname", "rename_cells_badname", "rename_space_badname"]
ABSENT = ["qq1", "nothing_here", "zz9", "Xx"]
SYS = {"_self", "_space", "_model"}


def gen_cases(tier, seed):
    n = 600 if tier == "quick" else 18000
    for i in range(n):
        yield {"id": "h%d" % i, "seed": env.derive_seed(seed, ID, i), "nops": 10 + i % 11, "itemspaces": i % 3 == 0}
    for j, name in enumerate(DIRECTED):
        yield {"id": "d%d" % j, "directed": j}


DIRECTED = ["A", "F", "T", "Z", "LL", "MM", "VV"]


def expand(case):
    if "ops" in case or "directed" in case:
        return case
    rnd = random.Random(case["seed"])
    g = ModelGen(rnd, itemspaces=case.get("itemspaces", False)).build()
    eg = EditGen(g)
    ops = list(g.ops)
    ops.append({"op": "evalall"})
    for _ in range(case["nops"]):
        r = rnd.random()
        if r < 0.12:
            cands = [s for s in g.rm.children.values() if g.rm.subs_of(s)]
            if cands:
                sp = rnd.choice(cands)
                d = rnd.choice(g.rm.subs_of(sp))
                nm, xn = "kq%d" % len(ops), "KX%d" % len(ops)
                cell = {"op": "new_cells", "name": nm, "params": [["x", None]], "body": "x"}
                ref = {"op": "set_ref", "name": nm, "value": {"lit": 1}, "via": "setattr"}
                kid = {"op": "new_space", "name": nm}
                a, b = rnd.sample([cell, ref, kid], 2)
                first = dict(a, **({"parent": d.path()} if a is kid else {"space": d.path()}))
                prep = [first, {"op": "new_space", "name": xn},
                        dict(b, **({"parent": xn} if b is kid else {"space": xn}))]
                for p_ in prep:
                    g.emit(p_)
                    ops.append(dict(p_, tag=p_["op"]))
                if b is kid:
                    continue      # child spaces are not inherited: no conflict arises
                ops.append({"op": "invalid", "what": {"bad": "add_bases_kind_conflict", "space": sp.path(), "base": xn}})
        elif r < 0.5:
            o = None
            for _t in range(8):
                o = c11.gen_invalid(rnd, g.rm)
                if o and o["bad"] in CLASH_KINDS:
                    break
                o = None
            if o:
                ops.append({"op": "invalid", "what": o})
        elif r < 0.6:
            # model-level reference named like an existing cells or child space (accepted: shadowed by them)
            names = [n for s in g.rm.walk() for n in list(s.cells) + list(s.children)]
            names = [n for n in names if n not in g.rm.refs and n not in g.rm.children
                     and not any(n in s.refs for s in g.rm.walk())]
            if names:
                e = {"op": "set_ref", "space": "", "name": rnd.choice(names), "value": {"lit": 77}}
                g.emit(e)
                ops.append(dict(e, tag="model_ref_shadowed"))
        elif r < 0.9:
            e = eg.one()
            if e:
                ops.append(dict(e, tag=e["op"]))
        else:
            ops.append({"op": "evalsome", "seed": rnd.randrange(1 << 30)})
    c = dict(case)
    c["ops"] = ops
    return c


def walk(w, cnt, V, step, op):
    m = w.m
    cnt["walks"] += 1
    mrefs = set(m.refs)
    mspaces = set(m.spaces)
    if mrefs & mspaces:
        V("model-dup", "a name is both a space and a reference of the model", names=sorted(mrefs & mspaces),
          step=step, op=op)
    if set(dir(m)) != mrefs | mspaces:
        V("model-dir", "dir(model) differs from its spaces and references", step=step, op=op,
          diff=sorted(set(dir(m)) ^ (mrefs | mspaces))[:6])
    todo = list(m.spaces.values())
    # instances of parametrised spaces are inspected too (the ones that exist)
    while todo:
        s = todo.pop()
        cnt["space_inspections"] += 1
        try:
            C, Rf, K = set(s.cells), set(s._own_refs), set(s.named_spaces)
            allrefs = set(s.refs)
            d = set(dir(s))
        except Exception as e:     # noqa
            V("inspect", "a space cannot be inspected", space=repr(s)[:60], error=type(e).__name__, step=step, op=op)
            return
        dup = (C & Rf) | (C & K) | (Rf & K)
        if dup:
            V("dup", "a name denotes two kinds of thing in one space", space=s._evalrepr, names=sorted(dup),
              kinds={n: [k for k, st in (("cells", C), ("ref", Rf), ("space", K)) if n in st] for n in sorted(dup)},
              step=step, op=op)
            return
        if d != C | allrefs | K:
            V("dir", "dir(space) differs from cells + references + child spaces", space=s._evalrepr,
              diff=sorted(d ^ (C | allrefs | K))[:6], step=step, op=op)
        is_dyn = s._is_dynamic()
        if not is_dyn:
            want = Rf | SYS | mrefs
            if allrefs != want:
                V("refs", "space.refs differs from own references + special names + model-level references",
                  space=s._evalrepr, diff=sorted(allrefs ^ want)[:6], step=step, op=op)
        else:
            if not (Rf | SYS | mrefs) <= allrefs:
                V("refs-dyn", "references of a dynamic space miss own / special / model-level names",
                  space=s._evalrepr, missing=sorted((Rf | SYS | mrefs) - allrefs)[:6], step=step, op=op)
        # attribute access with the stated precedence
        for n in sorted(C | allrefs | K):
            if n.startswith("__"):
                continue
            cnt["getattr_checks"] += 1
            try:
                got = getattr(s, n)
            except Exception as e:     # noqa
                V("getattr", "a visible name cannot be read as an attribute", space=s._evalrepr, name=n,
                  error=type(e).__name__, step=step, op=op)
                continue
            if n in C:
                ok = got is s.cells[n]
                exp = "the cells"
            elif n in Rf:
                ok = _same(got, s._get_object(n, as_proxy=True).value)
                exp = "the space-level reference"
            elif is_dyn and n not in SYS:
                continue          # a dynamic space also sees its base's references (rebound): C07/C10
            elif n in SYS:
                ok = (got is m) if n == "_model" else (got is s)
                exp = "the special name"
            elif n in allrefs and n not in mrefs:
                continue          # parameters / references rebound in a dynamic tree: values checked by C07/C10
            elif n in mrefs and n in K:
                ok = _same(got, m._get_object(n, as_proxy=True).value) or got is s.named_spaces[n]
                exp = "the model-level reference or the child space"
            elif n in mrefs:
                ok = _same(got, m._get_object(n, as_proxy=True).value)
                exp = "the model-level reference"
            else:
                ok = got is s.named_spaces[n]
                exp = "the child space"
            if not ok:
                V("precedence", "attribute access does not give %s" % exp, space=s._evalrepr, name=n,
                  got=repr(got)[:60], step=step, op=op)
        for n in ABSENT:
            cnt["absent_name_checks"] += 1
            if n not in d and hasattr(s, n):
                V("phantom", "attribute access answers for a name that is not a member", space=s._evalrepr, name=n,
                  step=step, op=op)
        todo.extend(s.named_spaces.values())
        try:
            todo.extend(s._named_itemspaces.values())
        except Exception:      # noqa
            pass


def _same(a, b):
    if a is b:
        return True
    try:
        return bool(a == b) and type(a) is type(b)
    except Exception:      # noqa
        return False


def formula_probes(w, cnt, V):
    """formulas see exactly the visible names: a probe cells listing them, one naming an absent name"""
    for s in list(walk_spaces(w.m)):
        try:
            names = sorted(n for n in (set(s.cells) | set(s.refs) | set(s.named_spaces))
                           if not n.startswith("__") and n != "zzvis")
        except Exception:      # noqa
            continue
        if "zzvis" in dir(s) or s.formula is not None or _under_param(s):
            continue
        mrefs = set(w.m.refs)
        try:
            s.new_cells("zzvis", formula="lambda: [%s]" % ", ".join(names))
        except Exception as e:     # noqa
            continue
        cnt["formula_probes"] += 1
        try:
            got = s.zzvis()
            for n, g in zip(names, got):
                if n in s.cells:
                    ok = callable(g)
                elif n in s._own_refs:
                    v = s._get_object(n, as_proxy=True).value
                    # references to modelx objects are handed to formulas in callable form
                    ok = True if hasattr(v, "_impl") else _same(g, v)
                elif n in SYS:
                    ok = (g is w.m) if n == "_model" else (g is s)
                elif n in mrefs and n not in s.named_spaces:
                    v = w.m._get_object(n, as_proxy=True).value
                    ok = True if (hasattr(v, "_impl") or callable(v)) else _same(g, v)
                else:
                    ok = True
                if not ok:
                    V("formula-precedence", "a formula resolves a name to something else than the member with "
                      "precedence", space=s._evalrepr, name=n, got=repr(g)[:60])
        except Exception as e:     # noqa
            err = mx.get_error()
            V("formula-visible", "a formula cannot resolve a name that is a member of its space",
              space=s._evalrepr, error=repr(err)[:120])
        try:
            s.zzvis.formula = "lambda: nothing_here_at_all"
            r = val(s.zzvis)
            if r != ("ERR", "NameError"):
                V("formula-phantom", "a formula resolves a name that is not a member", space=s._evalrepr, got=r)
            del s.zzvis
        except Exception:      # noqa
            pass


def _under_param(s):
    p = s
    while hasattr(p, "formula"):
        if p.formula is not None:
            return True
        p = p.parent
    return False


def run_case(case):
    case = expand(case)
    if "directed" in case:
        c2 = dict(case)
        r = c11.run_directed({"directed": c11.DIRECTED.index(DIRECTED[case["directed"]])
                              if DIRECTED[case["directed"]] in c11.DIRECTED else 0, "id": case["id"]}) \
            if DIRECTED[case["directed"]] in c11.DIRECTED else _directed(DIRECTED[case["directed"]])
        r["case"] = c2
        return r
    reset_session()
    w = World("M")
    vio = []
    cnt = {"walks": 0, "space_inspections": 0, "getattr_checks": 0, "clash_attempts": 0, "clash_accepted": 0,
           "formula_probes": 0, "absent_name_checks": 0, "ops": 0, "model_shadowing": 0}
    kinds = []
    matrix = {}

    def V(kind, sig, **d):
        if len(vio) < 4:
            vio.append({"kind": kind, "signature": sig, "detail": d})

    for step, op in enumerate(case["ops"]):
        k = op["op"]
        if k == "nop":
            continue
        if k in ("evalall", "evalsome"):
            try:
                qs = c02.all_queries(w)
            except Exception:     # noqa  the reference definitions may have lost track after an accepted clash
                qs = []
            if k == "evalsome":
                r2 = random.Random(op["seed"])
                qs = [q for q in qs if r2.random() < 0.3]
            c02.run_queries(w, qs)
            continue
        cnt["ops"] += 1
        if k == "invalid":
            o = op["what"]
            cnt["clash_attempts"] += 1
            try:
                err = c11.apply_invalid(w, o)
            except Exception:      # noqa  (names no longer there)
                err = "n/a"
            tag = o["bad"]
            if err is None:
                cnt["clash_accepted"] += 1
            matrix[tag + (":accepted" if err is None else ":rejected")] = \
                matrix.get(tag + (":accepted" if err is None else ":rejected"), 0) + 1
        else:
            op2 = {a: b for a, b in op.items() if a != "tag"}
            try:
                w.apply(op2)
            except Exception:      # noqa
                pass
            tag = op.get("tag")
            if tag is None:
                continue           # construction: walked once at the first evaluation round
            if tag == "model_ref_shadowed":
                cnt["model_shadowing"] += 1
        kinds.append(tag)
        walk(w, cnt, V, step, {a: b for a, b in op.items() if a != "tag"})
        if not vio:
            s = sanity(w.m)
            if s:
                V("sanity", "library self-check failed after %s" % tag, probs=s[:3], step=step)
        if vio:
            break
    if not vio:
        walk(w, cnt, V, -1, None)
        formula_probes(w, cnt, V)
    return {"violations": vio[:3], "counters": cnt,
            "nontrivial": cnt["clash_attempts"] + cnt["model_shadowing"] > 0,
            "shape": "%x|%s" % (case["seed"] & 0xFFFFFF, ",".join(map(str, kinds))), "matrix": {"clash:outcome": matrix},
            "case": case, "sample": {"ops": [o for o in case["ops"] if o["op"] == "invalid" or o.get("tag")][:8]}}


def _directed(name):
    import importlib
    import sys
    import os
    sys.path.insert(0, os.path.join(env.VERIF, "findings"))
    wit = importlib.import_module("witnesses")
    r = getattr(wit, name)()
    vio = []
    if r:
        vio.append({"kind": "witness", "signature": "regression of repaired mechanism %s" % name, "detail": {"what": r}})
    return {"violations": vio, "counters": {"directed_probes": 1}, "nontrivial": True, "shape": "directed-" + name}


def shrink(case, violations, deadline):
    if "directed" in case:
        return None
    from ..shrink import shrink_ops
    return shrink_ops(expand(case), run_case, violations, deadline)
