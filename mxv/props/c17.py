"""C17 - the error traceback is exactly the chain that was executing.

Workload: the fault workload of C05 (mxv/c05_faults.py) with the C17 profile: chains of depth 1-8,
branching (a callee completed, then a sibling fails), uncached cells, a child space, into and out of
ItemSpaces (the space formula on the chain), lambdas / comprehensions / generator expressions / nested
functions, the failing call inside try/finally, try/except-nonmatching, except-with-bare-re-raise and
handlers that raise a different exception; every ENTER/EXIT event of the clean run as failure position
(entry: the raiser is the entered element at its pre__ line; exit: the raiser is the exiting element
at its return line; None where not allowed: no formula frame for the last node); LINE failpoints at
every line event; histories: 0-3 earlier unhandled failures, 0-3 failures handled by formulas in
earlier top-level evaluations, handled failures inside the failing evaluation (boom / risky terms),
a first armed failure followed by a second one without clearing, FormulaError wrapping on and off.
Oracle: the chain of formula frames at the instant of the raise, read from the Python frames (element
and the line each frame is executing), cross-checked against the generator's line map.
"""
import random

from .. import env
from ..mxutil import mx, Inconclusive
from .. import c05_faults as F
from modelx.core.errors import FormulaError, NoneReturnedError, DeepReferenceError

ID = "C17"
LEVEL = "fault_enumeration"
RULE = ("seeded random DAG-shaped models (1-8 generated cells, chain-biased, try-wrappers around 45% of the plain "
        "calls); EVERY ENTER/EXIT event of the clean top evaluation is a failure position with k exception kinds "
        "(quick 2 of 11, thorough 6) + None where not allowed; half of the sequences are preceded by 1-3 earlier "
        "handled/unhandled failures, a quarter inject a second failure right after the first; 'lines' cases use "
        "every LINE event of the clean run; directed: recursion-limit chains, witness N.  A failure is "
        "non-trivial when at least 2 formulas were executing or at least 1 element had completed; distinct = "
        "distinct (model hash, point, kind, sequence)")
ASSUMPTIONS = [
    "the executing chain and the line each formula is executing are read from the Python frames of the formulas "
    "at the instant of the raise (frames whose code object is a registered formula); frames of lambdas, generator "
    "expressions and nested functions belong to the enclosing formula",
    "for a formula whose pending call sits in a nested function the line of the formula's own frame is expected; "
    "the line inside the nested function is accepted as well (counted as line_inner_accepted)",
    "the line of the last node is not asserted when the failure is NoneReturnedError (no formula frame exists)",
    "when Python itself replaces the exception (PEP 479: StopIteration inside a generator expression) the chain is "
    "not asserted, only get_error()",
    "every frame line is cross-checked against the generator's own line map; disagreement is a harness error",
]
MIN_COUNTERS = {
    "quick": {"traceback_checks": 3000, "line_checks": 6000, "get_error_checks": 3000, "history_steps": 1500,
              "wrapped_frames_on_chain": 300, "line_failures": 150},
    "thorough": {"traceback_checks": 100000, "line_checks": 200000, "get_error_checks": 100000,
                 "history_steps": 50000, "wrapped_frames_on_chain": 10000, "line_failures": 10000},
}
SHARD_TIMEOUT = {"quick": 900, "thorough": 5400}
CHUNK = {"quick": 4, "thorough": 12}


def gen_cases(tier, seed):
    quick = tier == "quick"
    yield {"id": "witnessN", "kind": "witness", "name": "N"}
    for style in ("cached", "uncached", "mixed", "item"):
        for n in (5, 40):
            yield {"id": "rec-%s-%d" % (style, n), "kind": "rec", "style": style, "n": n}
    # an exception object that outlives its evaluation: handled and stored by a formula, raised again later
    j = 0
    for depth in (1, 2, 3):
        for target in ("b", "c", "d"):
            for cached in (True, False):
                for earlier in ("handled", "unhandled"):
                    yield {"id": "st%d" % j, "kind": "stored", "depth": depth, "target": target, "cached": cached,
                           "earlier": earlier}
                    j += 1
    n = 420 if quick else 2500
    nl = 30 if quick else 400
    for i in range(n):
        yield {"id": "g%d" % i, "kind": "dag", "seed": env.derive_seed(seed, ID, i),
               "kinds_per_point": 2 if quick else 6}
    for i in range(nl):
        yield {"id": "l%d" % i, "kind": "dag", "seed": env.derive_seed(seed, ID, "line", i), "lines": True,
               "kinds_per_point": 0, "kinds_per_line": 1 if quick else 3, "max_lines": 14 if quick else None}


def run_case(case):
    k = case.get("kind", "dag")
    if k == "dag":
        case = F.expand_case(case, "c17")
        return F.FaultRunner(case, Judge(), "c17").run()
    if k == "rec":
        return run_rec(case)
    if k == "witness":
        return run_witness(case)
    if k == "stored":
        return run_stored(case)
    raise ValueError(k)


def shrink(case, violations, deadline):
    if case.get("kind", "dag") != "dag":
        return None
    return F.shrink_case(case, run_case, violations, deadline)


def finalize(cov, results):
    c = cov["counters"]
    cov["exhaustive"] = bool(c.get("failure_points_in_clean_runs")) and \
        c.get("failure_points_taken") == c.get("failure_points_in_clean_runs")
    cov["explanation"] = ("exhaustive refers to the failure positions of each clean run: every ENTER/EXIT event of "
                          "every generated model's clean evaluation was used as a failure position (%s of %s)"
                          % (c.get("failure_points_taken"), c.get("failure_points_in_clean_runs")))


def wrap_of_line(S, name, line):
    """which try-wrapper (if any) encloses the call at `line` of generated cells `name`"""
    if not (name.startswith("c") and name[1:].isdigit()):
        return "try/except" if name == "hcatch" and line == 4 else None
    src = S.sources[name].split("\n")
    if line < 2 or line > len(src):
        return None
    if src[line - 2].strip() != "try:":
        return None
    nxt = src[line].strip() if line < len(src) else ""
    if nxt.startswith("finally"):
        return "finally"
    if nxt.startswith("except Never__"):
        return "nomatch"
    if nxt.startswith("except BaseException"):
        return "reraise"
    if nxt.startswith("except UserErr__"):
        return "convert"
    if nxt.startswith("except IndexError"):
        return "handler"
    return "try"


class Judge:
    ID = "C17"

    def after_sequence(self, R, op):
        pass

    def after_failure(self, R, obs):
        S = R.S
        kind = obs["kind"]
        where = {"point": list(obs["point"]), "kind": kind, "when": obs["when"], "seq": F._seqdesc(obs["op"]),
                 "index": obs["index"], "chain": [F.jel(e) for e in obs["chain"]], "lines": obs["lines"]}
        if obs["result"][0] == "ok":
            raise Inconclusive("armed failure did not surface (C05's matter): %r" % (where,))
        exc = obs["exc"]
        if not obs["raw"] and not isinstance(exc, FormulaError):
            raise Inconclusive("failed evaluation raised %s, not FormulaError (C05's matter)" % type(exc).__name__)
        inj = obs["injected"]
        hist = obs["op"].get("hist") or []
        histtag = "after " + "+".join(sorted(set(hist))) if hist else ("second failure" if obs["index"] else
                                                                        "no earlier failure")
        # -- get_error() is the original exception
        R.count("get_error_checks")
        ge = obs["get_error"]
        err = ge[1] if ge[0] == "ok" else None
        translated = False
        if kind == "none":
            ok = isinstance(err, NoneReturnedError)
        else:
            ok = F.is_original(err, inj)
            translated = ok and err is not inj
        if not ok:
            R.V("get-error", "get_error() is not the exception of the most recent failure", history=histtag,
                got=repr(err)[:200], injected=repr(inj)[:200], **where)
            return
        tb = obs["tb"]
        if tb is None:
            R.V("traceback-raised", "get_traceback() raised after a failed evaluation", error=R.tb_error, **where)
            return
        if translated:
            R.count("translated_exceptions")
            return
        # -- nodes: exactly the executing chain, outermost first, ending with the raiser
        R.count("traceback_checks")
        chain = obs["chain"]
        frames = obs["frames"]
        nodes = [e for e, _ in tb]
        where["traceback"] = [[F.jel(e), ln] for e, ln in tb]
        if nodes != chain:
            entered = set(obs["entered"])
            if len(nodes) > len(chain) and nodes[:len(chain)] == chain:
                extra = nodes[len(chain):]
                src = "a failure that a formula handled in this evaluation" if all(e in entered for e in extra) \
                    else "an earlier evaluation"
                sig = "traceback ends with nodes that were not executing, left by %s" % src
            elif len(nodes) < len(chain) and chain[:len(nodes)] == nodes:
                sig = "traceback misses the innermost executing nodes"
            elif len(nodes) < len(chain) and chain[len(chain) - len(nodes):] == nodes:
                sig = "traceback misses the outermost executing nodes"
            elif sorted(nodes, key=repr) == sorted(chain, key=repr):
                sig = "traceback lists the executing nodes in the wrong order"
            else:
                sig = "traceback nodes differ from the executing chain"
            R.V("nodes", sig, history=histtag, **where)
            return
        R.cell("history x outcome", histtag + "|exact")
        # -- lines
        lm = S.lines
        for i, ((el, ln), fr) in enumerate(zip(tb, frames)):
            last = i == len(tb) - 1
            name = el[1]
            # harness cross-check: the frame's line must be one the generator laid a matching call on
            if not last and name in lm:
                callee = chain[i + 1][1]
                allowed = lm[name]["calls"].get(callee)
                if allowed is None or not (set([fr["line"]] + list(fr["inner"])) & set(allowed)):
                    raise Inconclusive("frame line %r of %s not in the line map %r for callee %s"
                                       % (fr, name, allowed, callee))
                w = wrap_of_line(S, name, fr["line"])
                if w:
                    R.count("wrapped_frames_on_chain")
                    R.cell("try-wrapper around the pending call", w)
            if last and kind == "none":
                R.count("line_unasserted_none")
                continue
            if last and obs["when"] == "pre" and not obs["converted"] and fr["line"] != 2:
                raise Inconclusive("entry failure not on the pre__ line: %r" % (fr,))
            if last and obs["when"] == "post" and not obs["converted"] and name in lm and "ret" in lm[name] \
                    and fr["line"] != lm[name]["ret"]:
                raise Inconclusive("exit failure not on the return line: %r" % (fr,))
            R.count("line_checks")
            if ln == fr["line"]:
                continue
            if ln in fr["inner"]:
                R.count("line_inner_accepted")
                continue
            what = "raising statement" if last else "pending call"
            w = wrap_of_line(S, name, fr["line"]) if not last else None
            R.V("line", "traceback line is not the line of the %s%s" % (
                what, " (call inside try/%s)" % w if w else ""), position=i, element=F.jel(el), reported=ln,
                expected=fr["line"], source=S.sources.get(name), **where)
            return
        R.cell("chain depth x when", "%d|%s" % (min(len(chain), 9), obs["when"]))


# ---------------------------------------------------------------------------------------------
def run_rec(case):
    """traceback of a chain cut by the recursion limit: all entered elements, each at its call line"""
    style, n = case["style"], case["n"]
    probe = F.Probe()
    probe.frames_on = False
    vio, cnt = [], {"traceback_checks": 0, "line_checks": 0, "get_error_checks": 0}
    per_level = {"cached": 1, "uncached": 1, "mixed": 2, "item": 2}[style]
    x = max(1, n // per_level - 1)
    m, top = F.build_chain(style, probe)
    old = mx.get_recursion()
    calls = {"f": {"cached": 4, "uncached": 4, "mixed": 3, "item": 3}[style], "u": 4, "h": 4}
    try:
        mx.set_recursion(100000)
        r = F.attempt(top, x)
        if r != ("ok", x):
            raise Inconclusive("clean chain evaluation gave %r" % (r,))
        D = probe.maxdepth
        for L in (D - 2, D - 3, max(1, D // 2)):
            if L < 1:
                continue
            for prior in (0, 1):
                m.clear_all()
                probe.reset()
                if prior:
                    mx.set_recursion(max(1, L - 1))
                    F.attempt(top, x)
                    m.clear_all()
                    probe.reset()
                mx.set_recursion(L)
                r = F.attempt(top, x)
                if r[0] != "exc" or not isinstance(r[1], FormulaError):
                    raise Inconclusive("chain beyond the limit did not raise FormulaError (C05's matter)")
                err = mx.get_error()
                cnt["get_error_checks"] += 1
                where = {"style": style, "depth": D, "limit": L, "prior_failure": prior}
                if not isinstance(err, DeepReferenceError):
                    vio.append({"kind": "get-error", "signature": "get_error() is not the exception of the most "
                                "recent failure (recursion limit)", "detail": dict(where, got=repr(err)[:200])})
                    break
                tb = [(F.node_el(nd), ln) for nd, ln in mx.get_traceback()]
                chain = list(probe.stack)
                cnt["traceback_checks"] += 1
                nodes = [e for e, _ in tb]
                if nodes != chain:
                    vio.append({"kind": "nodes", "signature": "traceback nodes differ from the executing chain "
                                "(recursion limit)",
                                "detail": dict(where, traceback=[F.jel(e) for e in nodes][-6:],
                                               chain=[F.jel(e) for e in chain][-6:],
                                               len_tb=len(nodes), len_chain=len(chain))})
                    break
                for i, (el, ln) in enumerate(tb):
                    cnt["line_checks"] += 1
                    want = calls[el[1]] if el[1] != "<space>" else None
                    if want is None:
                        continue
                    if ln != want:
                        vio.append({"kind": "line", "signature": "traceback line is not the line of the pending call "
                                    "(recursion limit)", "detail": dict(where, position=i, element=F.jel(el),
                                                                        reported=ln, expected=want)})
                        break
                if vio:
                    break
            if vio:
                break
    finally:
        mx.set_recursion(old)
        try:
            m.close()
        except Exception:    # noqa
            pass
    return {"violations": vio, "counters": cnt, "nontrivial": True, "shape": "rec:%s:%d" % (style, n), "case": case}


def run_stored(case):
    """a formula handles a failure and keeps the exception object; a later evaluation raises that object
    (as it is, or with its traceback removed).  The later failure is a failure like any other: FormulaError,
    get_error() is the object, the traceback is the chain executing now."""
    from ..mxutil import reset_session
    reset_session()
    vio, cnt = [], {"traceback_checks": 0, "line_checks": 0, "get_error_checks": 0, "stored_exception_checks": 0}
    depth, target, cached = case["depth"], case["target"], case["cached"]

    def V(kind, sig, **d):
        vio.append({"kind": kind, "signature": sig, "detail": dict(d, case={k_: case[k_] for k_ in
                                                                            ("depth", "target", "cached", "earlier")})})
    m = mx.new_model("M")
    S = m.new_space("S")
    keep = []
    S.keep = keep
    S.new_cells("bad", formula="def bad(x):\n    raise ValueError('E%d' % x)")
    prev = "bad"
    for i in range(depth - 1):          # the original failure happens below a chain of formulas
        S.new_cells("m%d" % i, formula="def m%d(x):\n    return %s(x) + 1" % (i, prev))
        prev = "m%d" % i
    S.new_cells("a", formula="def a(x):\n    try:\n        return %s(x)\n    except ValueError as e:\n"
                             "        keep.append(e)\n        return 0" % prev, is_cached=cached)
    S.new_cells("b", formula="def b(x):\n    raise keep[0]")
    S.new_cells("c", formula="def c(x):\n    raise keep[0].with_traceback(None)")
    S.new_cells("d", formula="def d(x):\n    return b(x) + 1")
    if case["earlier"] == "handled":
        if S.a(1) != 0 or len(keep) != 1:
            raise Inconclusive("the handler did not store the exception")
    else:
        try:
            getattr(S, prev)(1)
        except FormulaError:
            keep.append(mx.get_error())
        if len(keep) != 1 or not isinstance(keep[0], ValueError):
            raise Inconclusive("the unhandled failure did not give the exception")
    stored = keep[0]
    chain = {"b": ["b"], "c": ["c"], "d": ["d", "b"]}[target]
    line = {"b": 2, "c": 2, "d": 2}
    for attempt_no in (1, 2):           # the same again: the first failure must not change the second
        cnt["stored_exception_checks"] += 1
        try:
            getattr(S, target)(1)
        except FormulaError:
            pass
        except BaseException as e:      # noqa
            V("raised", "failed evaluation raised %s instead of FormulaError (stored exception raised again)"
              % type(e).__name__, attempt=attempt_no, msg=str(e)[:120])
            break
        else:
            V("raised", "an evaluation that raises returned a value (stored exception raised again)")
            break
        cnt["get_error_checks"] += 1
        if mx.get_error() is not stored:
            V("get-error", "get_error() is not the exception of the most recent failure (stored exception)",
              got=repr(mx.get_error())[:120])
        tb = mx.get_traceback()
        cnt["traceback_checks"] += 1
        names = [nd.obj.name for nd, _ in tb]
        if names != chain:
            V("nodes", "traceback nodes differ from the executing chain (stored exception raised again)",
              traceback=names, chain=chain, attempt=attempt_no)
        else:
            for (nd, ln), nm in zip(tb, chain):
                cnt["line_checks"] += 1
                if ln != line[nm]:
                    V("line", "traceback line is not the line of the pending call (stored exception raised again)",
                      element=nm, reported=ln, expected=line[nm])
        for nm in chain:
            if len(S.cells[nm]) != 0:
                V("held", "an element of the failing chain holds a value (stored exception raised again)", element=nm)
        if vio:
            break
    if not vio:
        # later evaluations are not affected
        try:
            ok = S.a(2) == 0 and S.a(1) == 0
        except BaseException as e:      # noqa
            ok = False
        if not ok:
            V("later", "an evaluation after the failure does not give the values it gave before (stored exception)")
    try:
        m.close()
    except Exception:    # noqa
        pass
    return {"violations": vio, "counters": cnt, "nontrivial": True,
            "shape": "stored:%d:%s:%s:%s" % (depth, target, cached, case["earlier"]), "case": case}


def run_witness(case):
    import importlib.util
    import os
    path = os.path.join(env.VERIF, "findings", "witnesses.py")
    spec = importlib.util.spec_from_file_location("mxv_witnesses", path)
    w = importlib.util.module_from_spec(spec)
    spec.loader.exec_module(w)
    r = getattr(w, case["name"])()
    vio = []
    if r:
        vio.append({"kind": "witness", "signature": "traceback ends with nodes that were not executing, left by an "
                    "earlier evaluation (witness %s)" % case["name"], "detail": {"observed": r}})
    return {"violations": vio, "counters": {"witness_probes": 1, "traceback_checks": 1}, "nontrivial": True,
            "shape": "witness:" + case["name"], "case": case}
