"""C02 - no stale value survives any edit.

Oracle: the property's own - a fresh model that replayed only the edits.  The live
model evaluates between the edits, the fresh one never does; after the last
operation both answer the full query set in the same order and must agree on every
value (or on the class of the original exception).  The reference evaluator gives a
second opinion that is counted, never deciding.

Workload: (1) a directed matrix: one model that contains every dependency-path kind
(call by name / through a child path / through an object-valued reference, reference
by name / by attribute path into child, sibling, via _model, via _space, model-level
reference by name, via _model, through a child namespace, derived members read from a
third space, ItemSpace members), each path also through an optionally uncached
intermediate, crossed with every edit kind; (2) random models from the formula
grammar with random edit histories interleaved with evaluations.
"""
import random

from .. import env
from ..mxutil import mx, reset_session, sanity
from ..live import World
from ..gen import ModelGen, EditGen, EDIT_KINDS
from .. import refmodel as R
from .. import c02_handled
from .. import c02_readers

ID = "C02"
LEVEL = "exploration"
RULE = ("directed: matrix model (11 dependency-path kinds x {direct, through cached, through uncached intermediate} "
        "+ inheritance + ItemSpace) x 60 edit kinds x {everything evaluated before the edit} x paddings of random "
        "further edits; handled-failure probe: a formula that catches the failure of a callee x 5 kinds of source the "
        "callee used x 3 modes x cached/uncached intermediate x depth (60 cases); "
        "random: grammar models x histories of 3-14 edits interleaved with evaluations. Oracle = fresh "
        "model that replayed only the edits. Non-trivial = at least one edit changed the answer of a query that was "
        "held before it (an 'effective' edit); distinct = distinct (edit-kind sequence, model seed)")
ASSUMPTIONS = ["fresh-replay model is built by the same library (C01 ties values to the reference evaluator)",
               "exceptions are compared by the class of the original exception"]
MIN_COUNTERS = {"quick": {"queries_compared": 20000, "effective_edits": 200, "edits": 1500,
                          "handled_probe_fixture_ok": 60, "handled_first_evaluations": 40},
                "thorough": {"queries_compared": 500000, "effective_edits": 8000, "edits": 40000,
                             "handled_probe_fixture_ok": 60, "handled_first_evaluations": 40}}
SHARD_TIMEOUT = {"quick": 900, "thorough": 5400}


# ------------------------------------------------------------------ directed matrix (port of recon r2)
def cell(space, name, body, cached=True, params=None):
    return {"op": "new_cells", "space": space, "name": name, "params": params or [["x", None]], "body": body,
            "cached": cached}


PATHS = {
    "a": "x + k",                 # own ref by name
    "b": "a(x) + 1",              # call by name
    "c": "Ch.cc(x)",              # call via child attribute path
    "d": "Ch.r + x",              # ref via child attribute path
    "e": "_model.Q.s + x",        # ref via _model path
    "f": "qobj.qc(x)",            # call via object-valued ref
    "gg": "g + x",                # model ref by name
    "hh": "_model.h + x",         # model ref via _model
    "i": "Ch.g + x",              # model ref seen through child namespace
    "j": "_space.k + x",          # own ref via _space
    "l": "_model.P.Ch.r + x",     # ref via long _model path
}


def matrix_build(uncached):
    ops = [
        {"op": "set_ref", "space": "", "name": "g", "value": {"lit": 1}},
        {"op": "set_ref", "space": "", "name": "h", "value": {"lit": 2}},
        {"op": "new_space", "name": "P"},
        {"op": "new_space", "parent": "P", "name": "Ch"},
        {"op": "new_space", "name": "Q"},
        {"op": "set_ref", "space": "P.Ch", "name": "r", "value": {"lit": 3}, "via": "setattr"},
        cell("P.Ch", "cc", "x + r"),
        {"op": "set_ref", "space": "Q", "name": "s", "value": {"lit": 4}, "via": "setattr"},
        cell("Q", "qc", "x + s"),
        {"op": "set_ref", "space": "P", "name": "k", "value": {"lit": 5}, "via": "setattr"},
        {"op": "set_ref", "space": "P", "name": "qobj", "value": {"space": "Q"}, "mode": "absolute"},
        {"op": "new_space", "name": "Q2"},
        cell("Q2", "qc", "x + 100"),
        cell("Q2", "qc2", "x + 300"),
        # (Q2 is never deleted by the matrix edits: a reference to a deleted object is C13's subject)
        {"op": "set_ref", "space": "P", "name": "qcell", "value": {"cell": "Q2.qc"}, "mode": "absolute"},
    ]
    for n, body in PATHS.items():
        ops.append(cell("P", n, body))
        ops.append(cell("P", "u" + n, body, cached=not uncached))     # the same through two nested
        ops.append(cell("P", "uu" + n, "u%s(x)" % n, cached=not uncached))   # (optionally uncached) intermediates
        ops.append(cell("P", "cu" + n, "uu%s(x) * 2" % n))
    ops += [
        {"op": "new_space", "name": "B"},
        {"op": "set_ref", "space": "B", "name": "w", "value": {"lit": 7}, "via": "setattr"},
        cell("B", "bc", "x + w"),
        {"op": "new_space", "name": "D", "bases": ["B"]},
        cell("D", "dc", "bc(x) + w"),
        {"op": "new_space", "name": "T"},
        cell("T", "tw", "_model.D.w + x"),
        cell("T", "tb", "_model.D.bc(x)"),
        cell("T", "tu", "_model.P.ua(x) + 1"),
        cell("T", "ta", "_model.P.a(x) * 2"),            # a caller in another space: survives namespace changes of P
        {"op": "new_space", "parent": "P.Ch", "name": "Gc"},
        cell("P.Ch.Gc", "g0", "x + 7", cached=not uncached),
        cell("P", "cg", "Ch.Gc.g0(x) * 2"),
        cell("T", "tq", "_model.P.qobj.qc(x)"),         # object-valued references read by attribute path
        cell("T", "tc", "_model.P.qcell(x)"),
        cell("T", "tr", "_model.P.Ch.r + x"),            # a reference of a child space read by absolute path
        # a reference derived from the first of two bases that both define it, read by attribute path from outside:
        # a base change re-binds the derived reference in place
        {"op": "new_space", "name": "B2"},
        {"op": "set_ref", "space": "B2", "name": "w", "value": {"lit": 75}, "via": "setattr"},
        {"op": "new_space", "name": "D2", "bases": ["B", "B2"]},
        cell("T", "tw2", "_model.D2.w + x"),
        {"op": "new_space", "name": "I", "formula": {"params": [["p", None]]}},
        {"op": "set_ref", "space": "I", "name": "t", "value": {"lit": 9}, "via": "setattr"},
        {"op": "new_space", "parent": "I", "name": "Ch"},
        {"op": "set_ref", "space": "I.Ch", "name": "v", "value": {"lit": 11}, "via": "setattr"},
        cell("I", "ic", "p + x + t + g"),
        cell("I.Ch", "icc", "p * 10 + v + x"),
        cell("I", "idd", "Ch.v + Ch.icc(x)"),
        {"op": "new_space", "name": "J", "bases": ["B"], "formula": {"params": [["p", None]]}},
        cell("T", "tj", "_model.J(1).bc(x) + _model.I(1).ic(x)"),
    ]
    return ops


def F(space, name, body, params=None):
    return {"op": "set_formula", "space": space, "name": name, "params": params or [["x", None]], "body": body}


def sref(space, name, v, **kw):
    return dict({"op": "set_ref", "space": space, "name": name, "value": {"lit": v}, "via": "setattr"}, **kw)


S_P = [["s", "P"]]
MATRIX_EDITS = {
    "change P.k": sref("P", "k", 50), "del P.k": {"op": "del_ref", "space": "P", "name": "k"},
    "change Ch.r": sref("P.Ch", "r", 30), "del Ch.r": {"op": "del_ref", "space": "P.Ch", "name": "r"},
    "change Q.s": sref("Q", "s", 40), "del Q.s": {"op": "del_ref", "space": "Q", "name": "s"},
    "rebind P.qobj": {"op": "set_ref", "space": "P", "name": "qobj", "value": {"space": "Q2"}, "mode": "absolute"},
    "rebind P.qobj to B": {"op": "set_ref", "space": "P", "name": "qobj", "value": {"space": "B"}, "mode": "absolute"},
    "rebind P.qcell": {"op": "set_ref", "space": "P", "name": "qcell", "value": {"cell": "Q2.qc2"}, "mode": "absolute"},
    "formula Q2.qc": F("Q2", "qc", "x + 200"),
    "del P.qobj": {"op": "del_ref", "space": "P", "name": "qobj"},
    "change m.g": sref("", "g", 10), "del m.g": {"op": "del_ref", "space": "", "name": "g"},
    "change m.h": sref("", "h", 20), "del m.h": {"op": "del_ref", "space": "", "name": "h"},
    "new m ref z": sref("", "z", 0),
    "shadow g in Ch": sref("P.Ch", "g", 100), "shadow g in P": sref("P", "g", 100),
    "shadow g in I": sref("I", "g", 100), "shadow h in P": sref("P", "h", 100),
    "shadow w in T": sref("T", "w", 100),
    "formula P.a": F("P", "a", "x + k + 1000"), "formula Ch.cc": F("P.Ch", "cc", "x + r + 1000"),
    "formula Q.qc": F("Q", "qc", "x + s + 1000"), "formula B.bc": F("B", "bc", "x + w + 1000"),
    "formula P.ua": F("P", "ua", "x + k + 1000"), "formula I.icc": F("I.Ch", "icc", "77"),
    "formula I.ic": F("I", "ic", "p + 5000"),
    "space formula I": {"op": "set_space_formula", "space": "I",
                        "formula": {"params": [["p", None]], "refs": {"t": "1000"}}},
    "new cells in P": cell("P", "zz", "0"), "new cells in Ch": cell("P.Ch", "zz", "0"),
    "new cells in Q": cell("Q", "zz", "0"), "new cells in B": cell("B", "zz", "0"),
    "del P.a": {"op": "del_cells", "space": "P", "name": "a"},
    "del P.ua": {"op": "del_cells", "space": "P", "name": "ua"},
    "del Ch.cc": {"op": "del_cells", "space": "P.Ch", "name": "cc"},
    "del Q.qc": {"op": "del_cells", "space": "Q", "name": "qc"},
    "del B.bc": {"op": "del_cells", "space": "B", "name": "bc"},
    "rename P.a": {"op": "rename_cells", "space": "P", "name": "a", "new": "a2"},
    "rename Ch.cc": {"op": "rename_cells", "space": "P.Ch", "name": "cc", "new": "cc2"},
    "rename Q.qc": {"op": "rename_cells", "space": "Q", "name": "qc", "new": "qc2"},
    "rename B.bc": {"op": "rename_cells", "space": "B", "name": "bc", "new": "bc2"},
    "new space in P": {"op": "new_space", "parent": "P", "name": "Zs"},
    "new space in Q": {"op": "new_space", "parent": "Q", "name": "Zs"},
    "del P.Ch": {"op": "del_space", "path": "P.Ch"}, "del Q": {"op": "del_space", "path": "Q"},
    "rename Ch": {"op": "rename_space", "path": "P.Ch", "new": "Ch2"},
    "rename Q": {"op": "rename_space", "path": "Q", "new": "Q7"},
    "rename P": {"op": "rename_space", "path": "P", "new": "P9"}, "del P": {"op": "del_space", "path": "P"},
    "del D": {"op": "del_space", "path": "D"}, "rename D": {"op": "rename_space", "path": "D", "new": "D2"},
    "del B": {"op": "del_space", "path": "B"}, "del I.Ch": {"op": "del_space", "path": "I.Ch"},
    "change B.w": sref("B", "w", 70), "del B.w": {"op": "del_ref", "space": "B", "name": "w"},
    "override D.w": sref("D", "w", 700), "override D.bc": F("D", "bc", "-x"),
    "override J.bc": F("J", "bc", "-x - p"),
    "remove base D<-B": {"op": "remove_bases", "space": "D", "bases": ["B"]},
    "remove base D2<-B": {"op": "remove_bases", "space": "D2", "bases": ["B"]},
    "remove base J<-B": {"op": "remove_bases", "space": "J", "bases": ["B"]},
    "add base Q<-B": {"op": "add_bases", "space": "Q", "bases": ["B"]},
    "add base I<-B": {"op": "add_bases", "space": "I", "bases": ["B"]},
    "assign P.a[1]": {"op": "assign", "inst": S_P, "name": "a", "args": [1], "value": 1000},
    "assign Ch.cc[1]": {"op": "assign", "inst": [["s", "P"], ["s", "Ch"]], "name": "cc", "args": [1], "value": 1000},
    "assign Q.qc[1]": {"op": "assign", "inst": [["s", "Q"]], "name": "qc", "args": [1], "value": 1000},
    "assign B.bc[1]": {"op": "assign", "inst": [["s", "B"]], "name": "bc", "args": [1], "value": 1000},
    "clear_at P.a[1]": {"op": "clear_at", "inst": S_P, "name": "a", "args": [1]},
    "change I.t": sref("I", "t", 90), "change I.Ch.v": sref("I.Ch", "v", 110),
    "del I.Ch.icc": {"op": "del_cells", "space": "I.Ch", "name": "icc"},
    "new cells in I.Ch": cell("I.Ch", "zz", "0"), "new ref in I.Ch": sref("I.Ch", "nr", 1),
    "del Ch.Gc": {"op": "del_space", "path": "P.Ch.Gc"},
    "rename Ch.Gc": {"op": "rename_space", "path": "P.Ch.Gc", "new": "Gc2"},
    "formula Gc.g0": F("P.Ch.Gc", "g0", "x + 1007"),
    "assign P.a[1] again": {"op": "assign", "inst": S_P, "name": "a", "args": [1], "value": 2000},
    "uncache P.a": {"op": "set_cached", "space": "P", "name": "a", "cached": False},
    "uncache Ch.cc": {"op": "set_cached", "space": "P.Ch", "name": "cc", "cached": False},
    "uncache B.bc": {"op": "set_cached", "space": "B", "name": "bc", "cached": False},
    "cache P.ua": {"op": "set_cached", "space": "P", "name": "ua", "cached": True},
    "uncache I.Ch.icc": {"op": "set_cached", "space": "I.Ch", "name": "icc", "cached": False},
}
MATRIX_KEYS = sorted(MATRIX_EDITS)


def gen_cases(tier, seed):
    pads = 2 if tier == "quick" else 12
    i = 0
    for unc in (False, True):
        for ki, k in enumerate(MATRIX_KEYS):
            for pad in range(pads):
                if tier == "quick" and pad and (ki + unc) % 2:
                    continue
                yield {"id": "mx%d" % i, "kind": "matrix", "edit": k, "uncached": unc, "pad": pad,
                       "seed": env.derive_seed(seed, ID, "mx", k, unc, pad),
                       "checkpoints": "all" if pad else "final"}
                i += 1
    for j, (a_, b_) in enumerate(SEQUENCES):
        for unc in (False, True):
            yield {"id": "sq%d_%d" % (j, unc), "kind": "sequence", "edits": [a_, b_], "uncached": unc,
                   "seed": env.derive_seed(seed, ID, "sq", j, unc), "checkpoints": "all"}
    for c in c02_handled.cases():
        yield c
    for c in c02_readers.cases():
        yield c
    n = 400 if tier == "quick" else 15000
    for j in range(n):
        yield {"id": "r%d" % j, "kind": "random", "seed": env.derive_seed(seed, ID, "r", j),
               "nedits": 3 + j % 10, "itemspaces": j % 3 == 0,
               "checkpoints": "all" if (tier == "thorough" or j % 5 == 0) else "final"}


SEQUENCES = [   # an input, read by dependents (also from another space), then an edit of the same cells
    ("assign P.a[1]", "rename P.a"), ("assign P.a[1]", "del P.a"), ("assign P.a[1]", "formula P.a"),
    ("assign P.a[1]", "assign P.a[1] again"), ("assign P.a[1]", "clear_at P.a[1]"), ("assign P.a[1]", "uncache P.a"),
    ("assign Ch.cc[1]", "del Ch.cc"), ("assign Ch.cc[1]", "rename Ch.cc"), ("assign Q.qc[1]", "rename Q.qc"),
    ("assign Q.qc[1]", "del Q.qc"), ("assign B.bc[1]", "del B.bc"), ("assign B.bc[1]", "rename B.bc"),
    ("assign B.bc[1]", "remove base D<-B"), ("assign P.a[1]", "del P.Ch"), ("assign Ch.cc[1]", "rename Ch"),
]


def expand(case):
    if "ops" in case or case.get("kind") in ("handled", "readers", "equalassign"):
        return case
    rnd = random.Random(case["seed"])
    c = dict(case)
    if case["kind"] == "sequence":
        ops = matrix_build(case["uncached"])
        ops.append({"op": "evalall"})
        for k in case["edits"]:
            ops.append(dict(MATRIX_EDITS[k], tag=k))
            ops.append({"op": "evalall"})
        c["ops"] = ops
        return c
    if case["kind"] == "matrix":
        ops = matrix_build(case["uncached"])
        ops.append({"op": "evalall"})
        ops.append(dict(MATRIX_EDITS[case["edit"]], tag=case["edit"]))
        if case["pad"]:
            # further edits from the matrix, each preceded by a full evaluation or not
            for k in rnd.sample(MATRIX_KEYS, rnd.randint(1, 3)):
                if rnd.random() < 0.7:
                    ops.append({"op": "evalall"})
                ops.append(dict(MATRIX_EDITS[k], tag=k))
        c["ops"] = ops
        return c
    g = ModelGen(rnd, itemspaces=case.get("itemspaces", False)).build()
    eg = EditGen(g)
    ops = list(g.ops)
    g_ops_len = len(g.ops)
    ops.append({"op": "evalall"})
    for _ in range(case["nedits"]):
        for _try in range(6):
            e = eg.one()
            if e is not None:
                break
        if e is None:
            continue
        ops.append(dict(e, tag=e["op"]))
        r = rnd.random()
        if r < 0.5:
            ops.append({"op": "evalall"})
        elif r < 0.8:
            ops.append({"op": "evalsome", "seed": rnd.randrange(1 << 30)})
    c["ops"] = ops
    return c


def all_queries(w):
    g = ModelGen(random.Random(0))
    g.rm = w.rm
    return g.queries(domain=(0, 1, 2), max_per_cell=2)


def run_queries(w, qs):
    out = {}
    for q in qs:
        out[qkey(q)] = w.live_value(q["inst"], q["name"], q["args"])
    return out


def qkey(q):
    return "%s|%s|%s" % (q["inst"], q["name"], q["args"])


def build_fresh(edits):
    """a model to which only the edits were applied, no evaluation in between"""
    for m in list(mx.get_models().values()):
        if m.name == "F":
            m.close()
    fresh = World("F")
    res = []
    for op in edits:
        res.append(fresh.apply(op))
    return fresh, res


DISAGREE = []


def run_case(case):
    case = expand(case)
    if case.get("kind") == "handled":
        return c02_handled.run(case)
    if case.get("kind") in ("readers", "equalassign"):
        return c02_readers.run(case)
    reset_session()
    live = World("M")
    vio = []
    cnt = {"edits": 0, "effective_edits": 0, "queries_compared": 0, "evals_between": 0, "checkpoints": 0,
           "refmodel_agree": 0, "refmodel_disagree": 0, "refmodel_unknown": 0, "rejected_edits": 0,
           "errors_compared": 0}
    matrix = {}
    kinds = []
    last_vals = {}
    edits, results = [], []
    every = case.get("checkpoints", "final") == "all"
    eff_total = 0
    nq = 0
    sample_q = None

    def V(kind, sig, **d):
        vio.append({"kind": kind, "signature": sig, "detail": d})

    def checkpoint(final):
        nonlocal eff_total, nq, sample_q
        cnt["checkpoints"] += 1
        fresh, fres = build_fresh(edits)
        for op2, rl, rf in zip(edits, results, fres):
            if rl[0] != rf[0] or (rl[0] == "rej" and rl[1] != rf[1]):
                V("accept", "an edit is accepted or rejected depending on earlier evaluations", op=op2,
                  live=list(rl), fresh=list(rf))
                return
        qs = all_queries(fresh)
        nq = len(qs)
        lv = run_queries(live, qs)
        fv = run_queries(fresh, qs)
        if qs:
            sample_q = {"query": qs[0], "live": lv[qkey(qs[0])], "fresh": fv[qkey(qs[0])]}
        for q in qs:
            kq = qkey(q)
            cnt["queries_compared"] += 1
            if isinstance(fv[kq], tuple):
                cnt["errors_compared"] += 1
            if _is_err(lv[kq]) and _is_err(fv[kq]) and _n(lv[kq]) != _n(fv[kq]):
                # both raise, with different classes (seen for formulas that touch a reference to a deleted
                # object): the statement is about values; counted, not judged
                cnt["error_class_differs"] = cnt.get("error_class_differs", 0) + 1
            elif _n(lv[kq]) != _n(fv[kq]):
                V("stale", classify(edits, q), query=q, live=lv[kq], fresh=fv[kq],
                  edits=[o.get("tag", o["op"]) for o in case["ops"]
                         if o["op"] not in ("evalall", "evalsome", "nop")][-6:])
                if len(vio) >= 3:
                    break
            elif final:
                rv = fresh.ref_value(q["inst"], q["name"], q["args"])
                if rv is R.UNKNOWN:
                    cnt["refmodel_unknown"] += 1
                elif _n(rv) == _n(fv[kq]):
                    cnt["refmodel_agree"] += 1
                else:
                    cnt["refmodel_disagree"] += 1
                    if len(DISAGREE) < 20:      # (kept for inspection: tools and ad-hoc runs)
                        DISAGREE.append({"query": q, "model": fv[kq], "reference": rv})
        eff = sum(1 for kq, v in fv.items() if kq in last_vals and _n(last_vals[kq]) != _n(v))
        if eff:
            eff_total += 1
        last_vals.update(lv)
        if not vio:
            s = sanity(fresh.m)
            if s:
                V("sanity", "library self-check failed on the replayed model", probs=s[:3])
        fresh.m.close()

    for i, op in enumerate(case["ops"]):
        k = op["op"]
        if k == "nop":
            continue
        if k in ("evalall", "evalsome"):
            qs = all_queries(live)
            if k == "evalsome":
                r2 = random.Random(op["seed"])
                qs = [q for q in qs if r2.random() < 0.4]
            last_vals.update(run_queries(live, qs))
            cnt["evals_between"] += len(qs)
            continue
        tag = op.get("tag")
        op2 = {a: b for a, b in op.items() if a != "tag"}
        rl = live.apply(op2)
        edits.append(op2)
        results.append(rl)
        if tag is not None:
            cnt["edits"] += 1
            kinds.append(tag)
            if rl[0] == "rej":
                cnt["rejected_edits"] += 1
            if every:
                checkpoint(False)
                if vio:
                    break
    if not vio:
        checkpoint(True)
    if not vio:
        s = sanity(live.m)
        if s:
            V("sanity", "library self-check failed after the history", probs=s[:3])
    cnt["effective_edits"] = eff_total
    for t in set(kinds):
        matrix[t] = matrix.get(t, 0) + 1
    return {"violations": vio, "counters": cnt, "nontrivial": eff_total > 0,
            "shape": "%s|%s|%s" % (case.get("kind"), ",".join(kinds), case.get("uncached", case["seed"] & 0xFFFF)),
            "matrix": {"edit_kind": matrix}, "case": case,
            "sample": {"kind": case.get("kind"), "edits": kinds[:8], "queries": nq, "effective_checkpoints": eff_total,
                       "example": sample_q}}


def classify(edits, q):
    """mechanism signature: kinds of the last edits of the (shrunk) history + kind of instance that is stale"""
    kinds = sorted(set(o["op"] for o in edits[-2:]))
    inst = "item" if any(s[0] == "i" for s in q["inst"]) else "static"
    return "stale value after %s (%s instance)" % ("+".join(kinds), inst)


def _is_err(v):
    return isinstance(v, (tuple, list)) and len(v) == 2 and v[0] == "ERR"


def _n(v):
    return list(v) if isinstance(v, tuple) else v


def shrink(case, violations, deadline):
    if case.get("kind") in ("handled", "readers", "equalassign"):
        return None
    from ..shrink import shrink_ops
    return shrink_ops(expand(case), run_case, violations, deadline)
