"""C15 - an exported package computes the same values as the model.

Workload: generated models of the documented export subset (mxv/c15_gen.py): static
spaces with child / grandchild spaces, inheritance with overridden cells and
references (incl. diamonds and mirrored child spaces), parametrised spaces (def and
lambda parameter formulas, defaults) with nested parametrised and static children,
literal / pickled / module / object-valued references, cached and uncached cells, def
and lambda cells, and a formula grammar aimed at the translator's scope analysis
(comprehensions of all kinds and nestings, generator expressions, lambdas, nested
functions, classes, walrus, f-strings, match, imports, locals / parameters / targets
named like references, cells and built-ins, keyword / star calls, ItemSpaces created
from inside formulas).  Every model is exported; one child process per package, in
which importing modelx is blocked, evaluates a shuffled query set (every cells of every
instance x arguments x call spellings; ItemSpaces through call, keyword and
subscription spellings, several argument sets, nested ones in interleaved creation
order).  A twin of the model with the cached flag of a few cells flipped is exported
and compared the same way.

Oracle: differential, model value vs package value, per query.  Where the model itself
raises, the statement says nothing and nothing is asserted.

Signatures: a disagreement is attributed to the lowest-ranked disagreeing cells (for an
exception in the package: the innermost exported method on the traceback).  The signature
is "<outcome> | <instance kind>" and, once shrunk, the grammar forms left in the minimal
formula.  Four mechanisms are listed in known_findings.json (K_METHOD, K_CLASSATTR, K_TRY,
K_SPACE; witnesses in findings/c15_witnesses.py); a violation gets one of those signatures
only when the exception observed names exactly what that mechanism mistranslates in that
formula (`known_shape`, `known_space_shape`, `known_export_failure`), so nothing else is
absorbed.  Each has a directed probe and a per-model low-probability switch in the
generator (c15_gen.Gen: `risky`).  The six shapes repaired in /repo are ordinary grammar
forms plus directed regression probes.  Development switches in the environment of ./check:
MXV_C15_RISKY=0 (no known shapes, no known probes), MXV_C15_ONLY=a,b (only these repaired
shapes).
"""
import hashlib
import json
import os
import random
import re
import shutil
import subprocess
import tempfile

from .. import env
from ..mxutil import mx, reset_session, errclass, Inconclusive
from .. import c15_gen as G
from ..c15_child import canon, walk

ID = "C15"
LEVEL = "translation_validation"
RULE = ("seeded random models of the documented export subset built from an op list (1-4 top spaces with "
        "inheritance/diamonds, child and grandchild spaces, parametrised spaces with defaults and nested "
        "parametrised children, literal/pickled/module/object references, cached+uncached, def+lambda cells, "
        "formulas from a scope-stressing grammar); each exported once as generated and once with <=3 cached "
        "flags flipped; per package one modelx-free child process evaluates the shuffled query set. "
        "non-trivial = package executed and >= 20 model-valued comparisons incl. >= 1 in a derived, Item or "
        "dynamic child space; distinct = distinct hash of the op list (all formula sources and structure)")
ASSUMPTIONS = [
    "the export subset is the one documented in export_model's docstring: object-valued references inside "
    "parametrised space trees are absolute or point outside the tree; no IOSpec; no reliance on coercion of "
    "parameterless cells.  Parameter formulas returning refs/base are not excluded by the docstring: they are "
    "probed (directed + low weight) and listed as a known finding; all other generated parameter formulas return None",
    "the model side is the reference (tied to the pure evaluator by C01); where the model raises nothing is asserted",
    "values are compared through a type-tagged canonical form (mxv/c15_child.py: canon) computed on both sides",
    "child interpreter: same /venv python, PYTHONHASHSEED=0, PYTHONPATH removed, modelx blocked by a meta-path finder",
]
MIN_COUNTERS = {
    "quick": {"programs": 200, "comparisons": 20000, "cmp_static": 3000, "cmp_derived": 2000, "cmp_item": 2000,
              "cmp_nested_item": 300, "cmp_dyn_child": 500, "cmp_uncached": 2000, "twin_programs": 50,
              "cmp_flipped": 300},
    "thorough": {"programs": 3000, "comparisons": 400000, "cmp_static": 60000, "cmp_derived": 40000,
                 "cmp_item": 40000, "cmp_nested_item": 6000, "cmp_dyn_child": 10000, "cmp_uncached": 40000,
                 "twin_programs": 800, "cmp_flipped": 6000},
}
SHARD_TIMEOUT = {"quick": 900, "thorough": 5400}
MAX_CONFIRM = 8          # distinct signature sets confirmed by replay (each replay also shrinks: ~1 min)
CHILD = os.path.join(os.path.dirname(os.path.dirname(os.path.abspath(__file__))), "c15_child.py")
MAX_QUERIES = 240


# --------------------------------------------------------------------------- directed cases
def _sp(name, parent="", bases=(), params=None, lam=False):
    f = None
    if params is not None:
        ptxt = ", ".join(p if d is None else "%s=%r" % (p, d) for p, d in params)
        f = ("lambda %s: None" % ptxt) if lam else "def _formula(%s):\n    return None" % ptxt
    return {"op": "space", "parent": parent, "name": name, "bases": list(bases), "formula": f,
            "params": [list(p) for p in params] if params is not None else None}


def _c(space, name, src, cached=True, tags=()):
    return {"op": "cells", "space": space, "name": name, "src": src, "cached": cached, "tags": list(tags)}


def _r(space, name, value, mode=None):
    op = {"op": "ref", "space": space, "name": name, "value": value}
    if mode:
        op["mode"] = mode
    return op


DIRECTED = [
    # regression probe of the repaired mechanism M (b10cccc): comprehension after a nested class scope
    [_sp("A"), _c("A", "c0", "def c0(x):\n    return x + 1"),
     _c("A", "c1", "def c1(x):\n    class K:\n        w = 3\n    return K.w + sum([c0(i) for i in range(x)])",
        tags=["class-body", "listcomp"])],
    # nested ItemSpaces with defaults, cells reading every level's parameters, static child in between
    [_r("", "g", {"lit": 3}), _sp("P", params=[("p", None), ("q", 2)]), _r("P", "r", {"lit": 5}),
     _c("P", "c0", "def c0(x):\n    return p * 100 + q * 10 + x + r + g"),
     _sp("Ch", "P", params=[("n", None)], lam=True),
     _c("P.Ch", "d0", "def d0(x):\n    return p * 1000 + q * 100 + n * 10 + x"),
     _c("P.Ch", "d1", "def d1(x, y=1):\n    return d0(x) + y + (d1(x - 1, y) if x > 0 else 0)", cached=False),
     _sp("Gc", "P.Ch"), _c("P.Ch.Gc", "k0", "def k0():\n    return p + q + n"),
     _c("P", "c2", "def c2(x):\n    return Ch(x).d0(1) + Ch[x + 1].Gc.k0() + c0(x)")],
    # inheritance: overridden reference and cells, uncached derived cells, mutable return through a cache
    [_sp("A"), _r("A", "r", {"lit": 2}), _r("A", "tup", {"tuple": [{"lit": 1}, {"lit": 2}, {"lit": 3}]}),
     _c("A", "mu", "def mu(x):\n    return [x, r]", cached=False),
     _c("A", "c0", "def c0(x):\n    return x + r + tup[x % 3]"),
     _c("A", "c2", "def c2(x):\n    return (mu(x).append(7) or len(mu(x))) + c0(x)"),
     _sp("B", bases=["A"]), _r("B", "r", {"lit": 11}),
     {"op": "override", "space": "B", "name": "c0", "src": "def c0(x):\n    return x * 2 + r", "cached": True},
     _sp("C", bases=["A"]), {"op": "set_cached", "space": "C", "name": "mu", "cached": True},
     _sp("D", bases=["B", "C"])],
    # two-parameter cells: keys must use every argument; keyword and default spellings
    [_sp("A"), _c("A", "c1", "def c1(x, y=2):\n    return x * 10 + y"),
     _c("A", "c5", "def c5(x, y=0):\n    return c1(x, y) + c1(y, x) + c1(x) + c1(y=x, x=y)"),
     _c("A", "t1", "lambda x, y=1: (c1(x, y), c5(y, x))")],
]


# regression probes of the translation defects found by this check and repaired in /repo
# (findings/c15_witnesses.py): always run
REGRESSION = ["inf", "kwglobal", "paren", "comp_target", "dunder", "clash"]     # c15_gen.Gen.on keys, same order
DIRECTED += [
    [_sp("A"), _r("A", "r", {"inf": 1}), _r("A", "s", {"inf": -1}), _r("A", "v", {"inf": 0}),
     _c("A", "c0", "def c0(x):\n    return (x < r, x > s, v != v)")],
    [_sp("A"), _r("A", "k", {"lit": 2}), _c("A", "c0", "def c0(x, k=1):\n    return x * k"),
     _c("A", "c1", "def c1(x):\n    return c0(x, k=k)")],
    [_sp("A"), _r("A", "r", {"lit": 2}), _c("A", "c0", "def c0(x):\n    return (r) * x")],
    [_sp("A"), _r("A", "r", {"lit": 7}), _c("A", "c0", "def c0(x):\n    return sum([r for r in range(x)]) + r"),
     _c("A", "c1", "def c1(x):\n    return x + r")],
    [_sp("A"), _c("A", "c0", "def c0(x):\n    return __import__('math').floor(x / 2)")],
    [_sp("A"), _c("A", "c0", "def c0(x):\n    return x + 1"), _c("A", "c1", "def c1(x):\n    return c0(x) * 2"),
     _sp("P", params=[("p", None)]), _c("P", "c0", "def c0(x):\n    return x + p"),
     _c("P", "c1", "def c1(x):\n    return c0(x) * 3"), _r("", "c0", {"lit": 50})],
]

# regression probes of the mechanisms listed in known_findings.json (K_METHOD, K_CLASSATTR, K_TRY, K_SPACE x 2, K_PARAM)
KNOWN_SHAPES = [
    [_sp("A"), _r("A", "r", {"lit": 2}),
     _c("A", "c0", "def c0(x):\n    class K:\n        def m(self, z):\n            return z + r\n    return K().m(x)")],
    [_sp("A"), _r("A", "w", {"lit": 5}), _c("A", "c0", "def c0(x):\n    class K:\n        w = w\n    return K.w + x")],
    [_sp("A"), _r("A", "r", {"lit": 2}),
     _c("A", "c0", "def c0(x):\n    try:\n        t = 6 // x\n    except ZeroDivisionError:\n"
                   "        t = (lambda z: z + r)(1)\n    else:\n        t += sum(i + r for i in range(2))\n    return t")],
    [{"op": "space", "parent": "", "name": "P", "bases": [], "params": [["p", None], ["q", 2]],
      "formula": "def _formula(p, q=2):\n    return {'refs': {'t2': p * 10 + q}}"},
     _c("P", "c0", "def c0(x):\n    return t2 + x")],
    [_sp("B"), _r("B", "r", {"lit": 7}), _c("B", "c0", "def c0(x):\n    return x + r"),
     {"op": "space", "parent": "", "name": "P", "bases": [], "params": [["p", None]],
      "formula": "def _formula(p):\n    return {'base': _space.model.B}"},
     _c("P", "c0", "def c0(x):\n    return -1")],
    [{"op": "space", "parent": "", "name": "P", "bases": [], "params": [["p", None], ["oct", 3]],
      "formula": "def _formula(p, oct=3):\n    return None"},
     _c("P", "c0", "def c0(x):\n    return p * 10 + oct + x")],
]


def gen_cases(tier, seed):
    n = 330 if tier == "quick" else 5000
    # MXV_C15_RISKY=0 switches off the forms that trigger the translation defects already found on the
    # unchanged tree (used when testing the check against mutants while those defects are undecided)
    risky = os.environ.get("MXV_C15_RISKY")
    # MXV_C15_ONLY=paren,inf (development): only these repaired shapes are generated / probed
    only = os.environ.get("MXV_C15_ONLY")
    only = [k for k in only.split(",") if k] if only is not None else None
    for i in range(n):
        feat = {}
        if risky is not None:
            feat["risky"] = float(risky)
        if only is not None:
            feat["only_on"] = only
        if i % 7 == 3:
            feat["itemspaces"] = False
        if i % 5 == 4:
            feat["inheritance"] = False
        if i % 11 == 5:
            feat["depth"] = 3
        if i % 4 == 1:
            feat["uncached"] = 0.45
        yield {"id": "p%d" % i, "seed": env.derive_seed(seed, ID, i), "feat": feat, "twin": i % 3 == 0}
    nreg = len(DIRECTED) - len(REGRESSION)
    for j, ops in enumerate(DIRECTED):
        if only is not None and j >= nreg and REGRESSION[j - nreg] not in only:
            continue
        yield {"id": "d%d" % j, "seed": env.derive_seed(seed, ID, "d", j), "ops": ops, "twin": True}
    if risky is None or float(risky) > 0:
        for j, ops in enumerate(KNOWN_SHAPES):
            yield {"id": "w%d" % j, "seed": env.derive_seed(seed, ID, "w", j), "ops": ops, "twin": False}


def expand(case):
    if "ops" in case and ("flips" in case or not case.get("twin")):
        return case
    c = dict(case)
    if "ops" not in c:
        g = G.Gen(random.Random(case["seed"]), case.get("feat")).build()
        c["ops"] = g.ops
    if c.get("twin") and "flips" not in c:
        rnd = random.Random(case["seed"] ^ 0xF11B)
        cands = [op for op in c["ops"] if op["op"] in ("cells", "override") and op["name"] != "ul"]
        c["flips"] = [{"op": "set_cached", "space": op["space"], "name": op["name"], "cached": not op.get("cached", True)}
                      for op in rnd.sample(cands, min(3, len(cands)))]
    return c


# --------------------------------------------------------------------------- queries
def _spec_from_ops(ops):
    """static space tree described by the ops: path -> {"params": [[name, default]...]|None, "children": [names]}"""
    tree = {"": {"params": None, "children": []}}
    for op in ops:
        if op.get("op") == "space":
            path = (op["parent"] + "." if op["parent"] else "") + op["name"]
            if op["parent"] not in tree:
                continue
            ps = op.get("params")
            if ps is None and op.get("formula"):
                ps = _params_of(op["formula"])
            tree[path] = {"params": ps, "children": []}
            tree[op["parent"]]["children"].append(op["name"])
    return tree


def _params_of(src):
    m = re.match(r"\s*(?:lambda\s*([^:]*):|def\s+\w+\(([^)]*)\))", src)
    txt = (m.group(1) if m.group(1) is not None else m.group(2)) if m else ""
    out = []
    for part in [p.strip() for p in txt.split(",") if p.strip()]:
        if "=" in part:
            n, d = part.split("=", 1)
            out.append([n.strip(), int(d)])
        else:
            out.append([part, None])
    return out


def _static(m, path):
    o = m
    for p in path.split("."):
        o = getattr(o, p) if o is m else o.spaces[p]
    return o


def _cell_params(c):
    """[(name, has_default)] through the public signature of the formula"""
    out = []
    for n, p in c.formula.signature.parameters.items():
        out.append((n, p.default is not p.empty))
    return out


def _is_derived(c):
    try:
        return bool(c.is_derived())
    except Exception:     # noqa
        return bool(c._is_derived())


def derive_queries(m, ops, seed):
    rnd = random.Random(seed ^ 0xC15)
    tree = _spec_from_ops(ops)
    insts = []      # (steps, static path, n item steps, inside item tree)

    def item_steps(ps):
        """a few (spelling, args, kwargs) for a parametrised space"""
        names = [p for p, _ in ps]
        a1, a2 = rnd.sample([1, 2, 3], 2)
        out = []
        if len(ps) == 1:
            out += [["c", [a1]], ["g", [a1]], ["c", [], {names[0]: a2}], ["c", [a2]]]
        else:
            d = ps[1][1]
            b = rnd.choice([1, 2, 3])
            out += [["c", [a1, b]], ["g", [a1, b]], ["c", [a2], {names[1]: b}], ["c", [], {names[0]: a1, names[1]: b}]]
            if d is not None:
                out += [["c", [a1]], ["g", [a1]], ["c", [a1, d]], ["c", [a2]]]
        return out

    def rec(path, steps, nitem):
        node = tree[path]
        name = path.rsplit(".", 1)[-1]
        steps = steps + [["s", name]]
        if node["params"] is None:
            insts.append((steps, path, nitem))
            for ch in node["children"]:
                rec(path + "." + ch, steps, nitem)
        else:
            insts.append((steps, path, nitem))          # the base space itself
            its = item_steps(node["params"])
            if nitem >= 1:
                its = rnd.sample(its, min(3, len(its)))
            for st in its:
                insts.append((steps + [st], path, nitem + 1))
                for ch in node["children"]:
                    rec(path + "." + ch, steps + [st], nitem + 1)

    for top in tree[""]["children"]:
        rec(top, [], 0)

    qs = []
    for steps, path, nitem in insts:
        try:
            sp = _static(m, path)
        except Exception:     # noqa
            continue
        is_base_of_items = tree[path]["params"] is not None and steps[-1][0] == "s"
        for cname, c in sp.cells.items():
            ps = _cell_params(c)
            combos = []
            if cname == "ul" and len(ps) == 1:
                # the list-taking uncached helper of the generator: an unhashable argument
                combos = [([[1, x]], {}) for x in rnd.sample([0, 1, 2, 3], 2)]
            elif not ps:
                combos = [([], {})]
            else:
                xs = rnd.sample([0, 1, 2, 3], 2 if (nitem or is_base_of_items) else 3)
                for x in xs:
                    form = rnd.random()
                    if len(ps) == 1:
                        combos.append(([x], {}) if form < 0.8 else ([], {ps[0][0]: x}))
                    else:
                        y = rnd.choice([0, 1, 2, 3])
                        if form < 0.3:
                            combos.append(([x], {}))
                        elif form < 0.6:
                            combos.append(([x, y], {}))
                        elif form < 0.8:
                            combos.append(([x], {ps[1][0]: y}))
                        else:
                            combos.append(([], {ps[0][0]: x, ps[1][0]: y}))
                    if len(ps) > 1 and rnd.random() < 0.5:
                        # the same first argument with another second one: keys must not collide
                        combos.append(([x, (combos[-1][0][1] + 1 if len(combos[-1][0]) > 1 else 3) % 4], {}))
            for args, kw in combos:
                qs.append({"path": steps, "cell": cname, "args": args, "kw": kw, "space": path, "nitem": nitem,
                           "dyn": nitem > 0 and steps[-1][0] == "s"})
    rnd.shuffle(qs)
    if len(qs) > MAX_QUERIES:
        qs = qs[:MAX_QUERIES]
    # repeats: some queries again at the end (held values, existing ItemSpaces)
    qs += [dict(q) for q in rnd.sample(qs, min(len(qs), 12))]
    return qs


# --------------------------------------------------------------------------- running one package
def eval_live(m, q):
    try:
        f = walk(m, q)
        return ["ok", canon(f(*q.get("args", []), **q.get("kw", {})))]
    except RecursionError:
        return ["err", "RecursionError", ""]
    except Exception as e:      # noqa
        return ["err", errclass(e), str(e)[:120]]


def run_child(root, pkg, queries, tag):
    qf = os.path.join(root, "q_%s.json" % tag)
    of = os.path.join(root, "o_%s.json" % tag)
    with open(qf, "w") as f:
        json.dump([{k: q[k] for k in ("path", "cell", "args", "kw")} if "path" in q else {"nop": True}
                   for q in queries], f)
    cenv = env.child_env()
    cenv.pop("PYTHONPATH", None)
    cenv["PYTHONDONTWRITEBYTECODE"] = "1"
    try:
        p = subprocess.run([env.PYTHON, CHILD, root, pkg, qf, of], env=cenv, cwd=root, timeout=180,
                           stdout=subprocess.PIPE, stderr=subprocess.PIPE)
    except subprocess.TimeoutExpired:
        raise Inconclusive("child process evaluating the package timed out")
    if not os.path.exists(of):
        raise Inconclusive("child process produced no result (rc=%s): %s" % (
            p.returncode, p.stderr.decode(errors="replace")[-400:]))
    with open(of) as f:
        return json.load(f)


def method_text(pkgdir, space_path, name):
    """the generated method(s) of a cells, for the violation detail"""
    parts = space_path.split(".")
    d = os.path.join(pkgdir, *["_m_" + p for p in parts[:-1]])
    try:
        with open(os.path.join(d, "_mx_classes.py")) as f:
            src = f.read()
    except OSError:
        return None
    m = re.search(r"^class _c_%s\(.*?(?=^class |\Z)" % re.escape(parts[-1]), src, re.S | re.M)
    if not m:
        return None
    body = m.group(0)
    out = []
    for fn in ("_f_" + name, name):
        mm = re.search(r"^    def %s\(.*?(?=^    def |^    @|\Z)" % re.escape(fn), body, re.S | re.M)
        if mm:
            out.append(mm.group(0).rstrip())
    return "\n".join(out)[:1500] or None


def _path_of_module(pkgdir, filename, clsname):
    """static space path of class `_c_<name>` defined in module `filename` of the package"""
    rel = os.path.relpath(os.path.dirname(filename), pkgdir)
    parts = [p[3:] for p in rel.split(os.sep) if p.startswith("_m_")]
    return ".".join(parts + [clsname[3:] if clsname.startswith("_c_") else clsname])


def culprit_of_import_error(pkgdir, info):
    """(static space path, method name) containing the line an import error points at"""
    fn, ln = info.get("filename"), info.get("lineno")
    if not fn or not ln or not os.path.exists(fn):
        return None
    with open(fn) as f:
        lines = f.read().split("\n")
    meth = cls = None
    for i in range(min(ln, len(lines)) - 1, -1, -1):
        mm = re.match(r"    def (\w+)\(", lines[i])
        if mm and meth is None:
            meth = mm.group(1)
        mc = re.match(r"class (_c_\w+)\(", lines[i])
        if mc:
            cls = mc.group(1)
            break
    if cls is None:
        return None
    if meth and meth.startswith("_f_"):
        meth = meth[3:]
    return _path_of_module(pkgdir, fn, cls), meth


# --------------------------------------------------------------------------- known findings
# Signatures of the mechanisms listed in known_findings.json.  A violation gets one of them only when what
# was observed is what that mechanism produces *and* the formula has the shape (the name in the error
# message is the name the shape mistranslates); everything else keeps a generic signature, so another
# mistranslation in a model that happens to contain a known shape is still reported.
K_METHOD = "known shape: global read in a method of a class defined in the formula"
K_CLASSATTR = "known shape: class attribute initialised from a global of the same name"
K_TRY = "known shape: try statement with nested scopes in an except handler and in the else block"
K_SPACE = "known shape: parameter formula returning refs or base"
K_PARAM = "known shape: parameter of a parametrised space named like a built-in"
_SCOPES = None


def _ast(src):
    import ast
    try:
        return ast.parse(src.strip() if not src.lstrip().startswith("lambda") else "_ = " + src.strip())
    except SyntaxError:
        return None


def _try_shape_names(tree):
    """names read inside nested scopes of handlers / else blocks of try statements that have nested scopes in
    both; None when the formula has no such try statement"""
    import ast
    scopes = (ast.Lambda, ast.FunctionDef, ast.ClassDef, ast.ListComp, ast.SetComp, ast.DictComp, ast.GeneratorExp)
    names = None
    for n in ast.walk(tree):
        if isinstance(n, ast.Try):
            parts = [list(n.handlers), list(n.orelse)]
            inner = [[t for st in part for t in ast.walk(st) if isinstance(t, scopes)] for part in parts]
            if inner[0] and inner[1]:
                names = names or set()
                for sc in inner[0] + inner[1]:
                    names |= {t.id for t in ast.walk(sc) if isinstance(t, ast.Name)}
    return names


def known_shape(b, src):
    """signature of a listed mechanism for package result `b` (["err", class, message, ...]) raised in the
    formula `src`, or None"""
    import ast
    if b[0] != "err" or not src:
        return None
    tree = _ast(src)
    if tree is None:
        return None
    msg = b[2] if len(b) > 2 else ""
    if b[1] == "AttributeError":
        mm = re.match(r"'(\w+)' object has no attribute '(\w+)'", msg)
        if mm:
            for n in ast.walk(tree):
                if isinstance(n, ast.ClassDef) and n.name == mm.group(1):
                    for f in n.body:
                        if isinstance(f, ast.FunctionDef) and f.args.args and f.args.args[0].arg == "self" and any(
                                isinstance(t, ast.Name) and isinstance(t.ctx, ast.Load) and t.id == mm.group(2)
                                for t in ast.walk(f)):
                            return K_METHOD
    if b[1] == "NameError":
        mm = re.match(r"name '(\w+)' is not defined", msg)
        if mm:
            name = mm.group(1)
            for n in ast.walk(tree):
                if isinstance(n, ast.ClassDef):
                    for st in n.body:
                        if isinstance(st, ast.Assign) and any(isinstance(t, ast.Name) and t.id == name
                                                              for t in st.targets) and any(
                                isinstance(t, ast.Name) and t.id == name for t in ast.walk(st.value)):
                            return K_CLASSATTR
            names = _try_shape_names(tree)
            if names and name in names:
                return K_TRY
    return None


def _space_formula_keys(src):
    """{'refs': {names}, 'base': bool} returned by a parameter formula (literal dict results only)"""
    import ast
    out = {"refs": set(), "base": False}
    tree = _ast(src or "")
    if tree is None:
        return out
    for n in ast.walk(tree):
        if isinstance(n, ast.Dict):
            for k, v in zip(n.keys, n.values):
                if isinstance(k, ast.Constant) and k.value == "refs" and isinstance(v, ast.Dict):
                    out["refs"] |= {kk.value for kk in v.keys if isinstance(kk, ast.Constant)}
                if isinstance(k, ast.Constant) and k.value == "base":
                    out["base"] = True
    return out


def known_space_shape(ops, q, b, csp=None):
    """K_SPACE when the queried instance lies in an ItemSpace whose parameter formula returns `base`, or the
    package misses an attribute that the parameter formula of an enclosing space returns in `refs`"""
    forms = {}
    for op in ops:
        if op.get("op") == "space" and op.get("formula"):
            forms[(op["parent"] + "." if op["parent"] else "") + op["name"]] = _space_formula_keys(op["formula"])
    path, anc = "", []
    for st in q["path"]:
        if st[0] == "s":
            path = (path + "." if path else "") + st[1]
        elif path in forms:
            anc.append(forms[path])
    if any(f["base"] for f in anc):
        return K_SPACE
    if b[0] == "err" and b[1] == "AttributeError":
        # the space in which the exception was raised (it may have been reached through a caller in a static
        # space) or one of its ancestors returns the missing name from its parameter formula
        mm = re.match(r"'_c_(\w+)' object has no attribute '(\w+)'", b[2] if len(b) > 2 else "")
        if mm and csp and csp.rsplit(".", 1)[-1] == mm.group(1):
            parts = csp.split(".")
            own = [forms[".".join(parts[:i])] for i in range(1, len(parts) + 1) if ".".join(parts[:i]) in forms]
            if any(mm.group(2) in f["refs"] for f in own):
                return K_SPACE
    return None


def known_param_shape(ops, q, b, src):
    """K_PARAM when the package fails on a built-in function where the model has the argument: a parametrised
    space on the queried path has a parameter named like a built-in, the failing formula reads that name, and the
    error message names the built-in function object"""
    import ast
    import builtins
    if not (b[0] == "err" and len(b) > 2 and "builtin_function_or_method" in str(b[2])):
        return None
    names = set()
    for op in ops:
        if op.get("op") == "space" and op.get("params"):
            names |= {p_[0] for p_ in op["params"] if p_[0] in vars(builtins)}
    tree = _ast(src or "")
    if not names or tree is None:
        return None
    read = {n.id for n in ast.walk(tree) if isinstance(n, ast.Name) and isinstance(n.ctx, ast.Load)}
    if names & read and any(st[0] in ("c", "g") for st in q["path"]):
        return K_PARAM
    return None


def known_export_failure(m, ops, exc, tb):
    """K_TRY when export failed in the scope/table pairing and exactly the formulas with the try shape make
    the translator fail on their own"""
    if not (isinstance(exc, AssertionError) and tb and tb[-1].name == "adjust_scope_table_mapping"):
        return None
    try:
        from modelx.export.transformer import FormulaTransformer, lambda_to_func, is_lambda_expr
    except Exception:     # noqa
        return None
    failing = shaped = 0
    for sp in _spec_from_ops(ops):
        if not sp:
            continue
        try:
            cells = list(_static(m, sp).cells.items())
        except Exception:     # noqa
            continue
        for name, c in cells:
            src = c.formula.source
            try:
                FormulaTransformer(lambda_to_func(src, name) if is_lambda_expr(src) else src, set(), set())
            except AssertionError:
                failing += 1
                tree = _ast(src)
                if tree is not None and _try_shape_names(tree) is not None:
                    shaped += 1
            except Exception:     # noqa
                return None
    return K_TRY if failing and failing == shaped else None


class OpIndex:
    """source text -> defining op, to attach grammar tags to a live cells"""
    def __init__(self, ops):
        self.by_src = {}
        self.by_name = {}
        for op in ops:
            if op.get("op") in ("cells", "override"):
                try:
                    self.by_src[_norm_src(G.cell_source(op))] = op
                except Exception:     # noqa
                    pass
                self.by_name.setdefault(op["name"], op)
        self.cache = {}

    def tags(self, m, space, name):
        key = (space, name)
        if key not in self.cache:
            op = None
            try:
                op = self.by_src.get(_norm_src(_static(m, space).cells[name].formula.source))
            except Exception:     # noqa
                pass
            self.cache[key] = op_tags(op) if op is not None else ["?"]
        return self.cache[key]


def _norm_src(s):
    return re.sub(r"\s+", " ", s).strip()


def op_tags(op):
    t = set(op.get("tags") or [])
    for b in op.get("blocks") or []:
        if not b.get("nop"):
            t.update(b.get("tags") or [])
    if op.get("lam"):
        t.add("lambda-cells")
    return sorted(t) or ["plain"]


def kind_of(q, derived):
    if q["nitem"] >= 2:
        return "nested_item"
    if q["nitem"] == 1:
        return "dyn_child" if q["dyn"] else "item"
    return "derived" if derived else "static"


def run_variant(case, ops, tag, root, cnt, matrix, vio, sample):
    reset_session()
    m = G.build_model(mx, ops, "M")
    idx = OpIndex(ops)
    queries = case.get("queries")
    if queries is None:
        queries = derive_queries(m, ops, case["seed"])
    live = [eval_live(m, q) if "path" in q else ["skip"] for q in queries]
    pkgdir = os.path.join(root, "pkg_" + tag)

    def V(kind, sig, **d):
        vio.append({"kind": kind, "signature": sig, "detail": dict(d, variant=tag)})

    try:
        m.export(pkgdir)
    except Exception as e:      # noqa
        import traceback
        tb = traceback.extract_tb(e.__traceback__)
        V("export-raised", known_export_failure(m, ops, e, tb) or
          "export raised %s | at %s" % (type(e).__name__, tb[-1].name if tb else "?"),
          msg=str(e)[:300], where=["%s:%s %s" % (os.path.basename(t.filename), t.lineno, t.name) for t in tb[-4:]])
        return 0
    res = run_child(root, "pkg_" + tag, queries, tag)
    cnt["programs"] += 1
    if tag != "base":
        cnt["twin_programs"] += 1
    if res.get("modelx_loaded"):
        V("modelx-imported", "the package imported modelx")
    flipped = {(f["space"], f["name"]) for f in case.get("flips", [])} if tag != "base" else set()
    if res.get("import"):
        info = res["import"]
        cul = culprit_of_import_error(pkgdir, info)
        sig = "package import failed: %s | forms: ?" % info["type"]
        src = None
        if cul and cul[1] == "_mx_assign_refs":
            sig = "package import failed: %s | in the reference assignments" % info["type"]
        elif cul and cul[1]:
            try:
                src = _static(m, cul[0]).cells[cul[1]].formula.source
            except Exception:     # noqa
                src = None
            sig = "package import failed: %s | %s" % (info["type"], (
                "forms: " + ",".join(idx.tags(m, cul[0], cul[1])) if case.get("shrunk") else "in a formula"))
        V("import-failed", sig,
          error=info, culprit=cul, source=src, n_queries=len(queries),
          cells=(cul[0] + "." + cul[1]) if cul and cul[1] else None)
        return 0
    results = res["results"]
    if len(results) != len(queries):
        raise Inconclusive("child returned %d results for %d queries" % (len(results), len(queries)))
    bad = []
    ncmp = 0
    for q, a, b in zip(queries, live, results):
        if "path" not in q:
            continue
        cnt["queries"] += 1
        if a[0] == "err":
            cnt["model_raises"] += 1
            if b[0] == "err":
                cnt["both_raise"] += 1
            continue
        try:
            c = _static(m, q["space"]).cells[q["cell"]]
            derived, cached = _is_derived(c), bool(c.is_cached)
        except Exception:     # noqa
            derived, cached = False, True
        kind = kind_of(q, derived)
        cnt["comparisons"] += 1
        cnt["cmp_" + kind] += 1
        ncmp += 1
        if not cached:
            cnt["cmp_uncached"] += 1
        if (q["space"], q["cell"]) in flipped:
            cnt["cmp_flipped"] += 1
        if q["kw"]:
            cnt["cmp_keyword_spelling"] += 1
        if any(st[0] == "g" for st in q["path"]):
            cnt["cmp_subscript_itemspace"] += 1
        tags = idx.tags(m, q["space"], q["cell"])
        for t in tags:
            matrix["form x instance kind"]["%s | %s" % (t, kind)] = \
                matrix["form x instance kind"].get("%s | %s" % (t, kind), 0) + 1
        if b[0] == "ok" and a[1] == b[1]:
            continue
        bad.append((G.RANK.get(q["cell"], 99), q["nitem"], q, a, b, kind, tags, cached))
    if ncmp and sample is not None and "example" not in sample:
        for q, a, b in zip(queries, live, results):
            if "path" in q and a[0] == "ok" and q["nitem"]:
                sample["example"] = {"query": {k: q[k] for k in ("path", "cell", "args", "kw")}, "model": a, "package": b,
                                     "generated_method": method_text(pkgdir, q["space"], q["cell"])}
                break
    if bad:
        items = []
        for rank, _, q, a, b, kind, tags, cached in bad:
            csp, ccell = q["space"], q["cell"]
            if b[0] == "err" and len(b) > 3 and b[3]:
                o = b[3]
                fn = o[2][3:] if o[2].startswith("_f_") else o[2]
                osp = _path_of_module(pkgdir, o[0], o[1])
                try:
                    if fn in _static(m, osp).cells:
                        csp, ccell = osp, fn
                except Exception:     # noqa
                    pass
            items.append((G.RANK.get(ccell, 99), q["nitem"], csp, ccell, q, a, b, kind, cached))
        items.sort(key=lambda t: t[:4])
        seen = set()
        for rank, _, csp, ccell, q, a, b, kind, cached in items:
            outcome = "package raises %s" % b[1] if b[0] == "err" else "package value differs"
            src = None
            try:
                c = _static(m, csp).cells[ccell]
                src = c.formula.source
                cached = bool(c.is_cached)
            except Exception:     # noqa
                pass
            sig = known_shape(b, src) or known_space_shape(ops, q, b, csp) or known_param_shape(ops, q, b, src)
            if sig is None:
                # coarse while unshrunk (few distinct signatures => few confirmation replays); the grammar
                # forms of the minimal formula are added once the case has been shrunk
                sig = "%s | %s%s" % (outcome, kind, "" if cached else " uncached")
                if case.get("shrunk"):
                    sig += " | forms: " + ",".join(idx.tags(m, csp, ccell))
            if sig in seen:
                continue
            seen.add(sig)
            V("raises" if b[0] == "err" else "value", sig, query={k: q[k] for k in ("path", "cell", "args", "kw")},
              model=a, package=b[:3], source=src, generated=method_text(pkgdir, csp, ccell),
              disagreeing_queries=len(bad), cells=csp + "." + ccell)
            if len(seen) >= 3:
                break
    return ncmp


def run_case(case):
    case = expand(case)
    ops = case["ops"]
    import collections
    cnt = collections.Counter({k: 0 for k in (
        "programs", "twin_programs", "queries", "comparisons", "model_raises", "both_raise", "cmp_static",
        "cmp_derived", "cmp_item", "cmp_nested_item", "cmp_dyn_child", "cmp_uncached", "cmp_flipped",
        "cmp_keyword_spelling", "cmp_subscript_itemspace", "cells_defined", "spaces", "parametrised_spaces")})
    matrix = {"form x instance kind": {}}
    vio = []
    sample = {}
    cnt["cells_defined"] = sum(1 for op in ops if op.get("op") in ("cells", "override"))
    cnt["spaces"] = sum(1 for op in ops if op.get("op") == "space")
    cnt["parametrised_spaces"] = sum(1 for op in ops if op.get("op") == "space" and op.get("formula"))
    root = tempfile.mkdtemp(prefix="mxv_c15_")
    ncmp = 0
    try:
        ncmp = run_variant(case, ops, "base", root, cnt, matrix, vio, sample)
        if case.get("twin") and case.get("flips") and not vio:
            ncmp += run_variant(case, ops + case["flips"], "twin", root, cnt, matrix, vio, sample)
    finally:
        shutil.rmtree(root, ignore_errors=True)
        reset_session()
    interesting = cnt["cmp_derived"] + cnt["cmp_item"] + cnt["cmp_nested_item"] + cnt["cmp_dyn_child"]
    srcs = []
    for op in ops:
        if op.get("op") in ("cells", "override") and len(srcs) < 3:
            srcs.append({"space": op["space"], "name": op["name"], "cached": op.get("cached", True),
                         "source": G.cell_source(op)})
    sample.update({"n_ops": len(ops), "spaces": [dict(path=(op["parent"] + "." if op["parent"] else "") + op["name"],
                                                      bases=op.get("bases"), formula=op.get("formula"))
                                                 for op in ops if op.get("op") == "space"],
                   "some_cells": srcs, "comparisons": ncmp, "flips": case.get("flips")})
    return {"violations": vio, "counters": dict(cnt), "matrix": matrix,
            "nontrivial": ncmp >= 20 and interesting >= 1,
            "shape": hashlib.sha256(json.dumps(ops, sort_keys=True).encode()).hexdigest()[:16],
            "case": case, "sample": sample}


def finalize(cov, results):
    c = cov.get("counters", {})
    cov["programs"] = int(c.get("programs", 0))
    cov["disagreements_checked"] = int(c.get("comparisons", 0))
    cov["disagreements_checked_meaning"] = ("number of (query) comparisons model value vs package value made, "
                                            "each a check for a disagreement; model-raising queries excluded")


# --------------------------------------------------------------------------- shrinking
def shrink(case, violations, deadline):
    import copy
    import time
    from ..shrink import shrink_ops
    case = copy.deepcopy(expand(case))
    case.pop("shrunk", None)
    deadline = min(deadline, time.time() + 45)
    kinds = {v.get("kind") for v in violations}
    cells = {v.get("detail", {}).get("cells") for v in violations} - {None}

    def still(c):
        reset_session()
        try:
            r = run_case(c)
        except Exception:     # noqa
            return False
        for v in r.get("violations") or []:
            if v.get("kind") in kinds and (not cells or v.get("detail", {}).get("cells") in cells
                                           or v.get("kind") in ("import-failed", "export-raised")):
                return True
        return False

    # the twin is only needed when the base variant agrees
    if case.get("twin"):
        c = dict(case, twin=False)
        if still(c):
            case = c
    half = time.time() + (deadline - time.time()) * 0.55
    best = shrink_ops(case, run_case, violations, half) or case
    best.pop("shrunk", None)
    # drop statement blocks of the remaining formulas
    changed = True
    while changed and time.time() < deadline - 15:
        changed = False
        for oi, op in enumerate(best["ops"]):
            for bi, b in enumerate(op.get("blocks") or []):
                if b.get("nop") or time.time() > deadline - 15:
                    continue
                c = copy.deepcopy(best)
                c["ops"][oi]["blocks"][bi] = {"nop": True}
                if still(c):
                    best = c
                    changed = True
    # freeze and minimise the queries
    if "queries" not in best and time.time() < deadline - 10:
        try:
            reset_session()
            m = G.build_model(mx, best["ops"], "M")
            qs = derive_queries(m, best["ops"], best["seed"])
            reset_session()
            c = dict(best, queries=qs)
            if still(c):
                best = c
                want = {json.dumps(v.get("detail", {}).get("query"), sort_keys=True) for v in violations}
                r = run_case(best)
                want |= {json.dumps(v.get("detail", {}).get("query"), sort_keys=True) for v in r.get("violations") or []}
                only = [q for q in qs if json.dumps({k: q[k] for k in ("path", "cell", "args", "kw")},
                                                    sort_keys=True) in want]
                if only and still(dict(best, queries=only)):
                    best = dict(best, queries=only)
                else:
                    b2 = shrink_ops(best, run_case, r.get("violations") or violations, deadline - 3, key="queries")
                    if b2:
                        best = b2
        except Exception:     # noqa
            pass
    best["shrunk"] = True
    return best
