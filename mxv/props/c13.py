"""C13 - deletion is complete: old handles raise, nothing computed from the deleted object survives.

Handles are taken at random earlier points to cells, spaces, nested spaces, derived
copies in sub spaces, ItemSpaces, their dynamic child spaces and dynamic cells.  After
every deletion trigger (del of a cells / space / reference, deletion in a base so that
derived copies vanish, remove_bases, rename, discarding ItemSpaces by a base edit, by
clear_at / del on the parametrised space, or by replacing its formula) every handle is
poked:
  * if the reference definitions say the object no longer exists, every use of the
    handle must raise the deleted-object error;
  * otherwise it must either raise that error or be the very object now reachable
    under its own path (never orphaned state);
and the containers, base lists and the dependency graph must not mention a deleted
object, and every query must answer like a fresh model that replayed only the edits
(no held value computed from the deleted object remains).
"""
import random

from .. import env
from ..mxutil import mx, reset_session, sanity, val, walk_spaces
from ..live import World
from ..gen import ModelGen, EditGen
from .. import refmodel as R
from . import c02
from modelx.core.errors import DeletedObjectError

ID = "C13"
LEVEL = "exploration"
RULE = ("seeded random models (grammar of C01 incl. inheritance, nesting, ItemSpaces) x histories of 3-9 edits biased "
        "to deletion triggers (del cells/space/ref, delete in a base, remove_bases, rename, ItemSpace discard by "
        "clear_at / del / formula change / base edit) with evaluation rounds and handle-taking in between; after every "
        "edit: every handle poked (5 uses each), containers / bases / dependency graph scanned for deleted objects, "
        "all queries compared with a fresh replay. Non-trivial = at least one handle had to raise; distinct = "
        "distinct (model seed, edit-kind sequence)")
ASSUMPTIONS = ["model.close() is not a deletion in the sense of the statement",
               "an object 'no longer exists' when the reference definitions lost it (space deleted, member name no "
               "longer defined or derived in that space, ItemSpace discarded is only required when its parametrised "
               "space is gone or lost its formula)"]
MIN_COUNTERS = {"quick": {"handle_pokes": 30000, "must_raise": 2500, "graph_scans": 1200, "queries_vs_fresh": 30000,
                          "deletion_triggers": 1200},
                "thorough": {"handle_pokes": 900000, "must_raise": 60000, "graph_scans": 30000,
                             "queries_vs_fresh": 800000, "deletion_triggers": 30000}}
SHARD_TIMEOUT = {"quick": 900, "thorough": 5400}

DEL_KINDS = ["del_cells", "del_cells", "del_space", "del_ref", "del_model_ref", "remove_bases", "rename_cells",
             "rename_space", "space_formula", "override_cells", "set_formula", "new_cells", "change_ref", "add_bases",
             "assign", "assign"]      # (values assigned by the user: deleting their cells must not leave dependents)


def gen_cases(tier, seed):
    n = 420 if tier == "quick" else 12000
    for i in range(n):
        yield {"id": "h%d" % i, "seed": env.derive_seed(seed, ID, i), "nedits": 3 + i % 7, "itemspaces": i % 2 == 0}
    for j, name in enumerate(DIRECTED):
        yield {"id": "d%d" % j, "directed": j}
    # every ordered tree of up to 5 spaces x every space of it as the deleted one
    j = 0
    for shape in _trees(5 if tier == "quick" else 6):
        n = _count(shape)
        for target in range(n):
            yield {"id": "t%d" % j, "kind": "tree", "shape": shape, "target": target}
            j += 1


def _trees(maxn):
    """ordered rooted trees (nested lists of children) with 1..maxn nodes"""
    def forests(n):             # ordered forests with n nodes
        if n == 0:
            return [[]]
        out = []
        for k in range(1, n + 1):           # size of the first tree
            for first in trees(k):
                for rest in forests(n - k):
                    out.append([first] + rest)
        return out

    def trees(n):
        return forests(n - 1)               # a tree = root + forest of children
    out = []
    for n in range(1, maxn + 1):
        out += trees(n)
    return out


def _count(shape):
    return 1 + sum(_count(c) for c in shape)


DIRECTED = ["c", "H", "U", "BB", "DD"]


def expand(case):
    if "ops" in case or "directed" in case or case.get("kind") == "tree":
        return case
    rnd = random.Random(case["seed"])
    g = ModelGen(rnd, itemspaces=case.get("itemspaces", False))
    g.f["inputs"] = False
    g.build()
    eg = EditGen(g, allow_del_base=True)
    ops = list(g.ops)
    if case.get("itemspaces") and rnd.random() < 0.5:
        tops = [s for s in g.rm.children.values() if s.formula is None]
        if tops:
            t = rnd.choice(tops)
            op = {"op": "new_space", "name": "PB", "formula": {"params": [["p", None]], "base": t.path()}}
            g.emit(op)
            ops.append(op)
    ops.append({"op": "evalall"})
    for _ in range(case["nedits"]):
        r = rnd.random()
        if r < 0.08:
            # delete a whole top-level space that is parametrised, or is the base of instances of another
            ps = [s for s in g.rm.children.values() if s.formula is not None
                  or any(o.formula is not None and o.formula.base is s for o in g.rm.walk())]
            if ps:
                e = {"op": "del_space", "path": rnd.choice(ps).path()}
                if not eg._would_dangle(e):
                    g.emit(e)
                    ops.append(dict(e, tag="del_space"))
                    ops.append({"op": "evalall"})
                    continue
        if r < 0.2:
            # discard one ItemSpace directly
            ps = [s for s in g.rm.walk() if s.formula is not None
                  and not any(a.formula is not None for a in R._ancestors(s))]
            if ps:
                s = rnd.choice(ps)
                ops.append({"op": "item_discard", "space": s.path(), "arg": rnd.choice([1, 2]),
                            "how": rnd.choice(["clear_at", "del"]), "tag": "item_discard"})
                ops.append({"op": "evalall"})
                continue
        e = None
        for _t in range(8):
            e = eg.one(rnd.choice(DEL_KINDS))
            if e is not None:
                break
        if e is None:
            continue
        ops.append(dict(e, tag=e["op"]))
        if rnd.random() < 0.6:
            ops.append({"op": "evalall"})
    c = dict(case)
    c["ops"] = ops
    return c


class Handle:
    def __init__(self, kind, obj, rspace, name=None, steps=None, inst_space=None):
        self.kind = kind            # space | cells | item | dyn | dyncells
        self.obj = obj
        self.rspace = rspace        # RSpace (static owner / parametrised space for instances)
        self.name = name
        self.steps = steps
        self.desc = "%s %s%s" % (kind, rspace.path(), "." + name if name else "")
        self.cdef = None


def take_handles(w, handles, rnd):
    rm = w.rm
    for s in rm.walk():
        if any(a.formula is not None for a in R._ancestors(s)):
            continue
        try:
            live = w.get_live(s.path())
        except Exception:      # noqa
            continue
        if rnd.random() < 0.6:
            handles.append(Handle("space", live, s))
        for n in R.members(s)["cells"]:
            if rnd.random() < 0.5:
                try:
                    handles.append(Handle("cells", live.cells[n], s, n))
                except Exception:     # noqa
                    pass
        if s.formula is not None:
            for a in (1, 2):
                inst = val(lambda: live(a))
                if isinstance(inst, tuple):
                    continue
                handles.append(Handle("item", inst, s, steps=a))
                base = s.formula.base or s
                for n in R.members(base)["cells"]:
                    if rnd.random() < 0.4:
                        c = val(lambda: inst.cells[n])
                        if not isinstance(c, tuple):
                            handles.append(Handle("dyncells", c, s, n, steps=a))
                for chn in base.children:
                    ch = val(lambda: inst.spaces[chn])
                    if not isinstance(ch, tuple):
                        handles.append(Handle("dyn", ch, s, chn, steps=a))


def uses(h):
    o = h.obj
    if h.kind in ("cells", "dyncells"):
        return [("name", lambda: o.name), ("formula", lambda: o.formula), ("call", lambda: o(0)),
                ("len", lambda: len(o)), ("parent", lambda: o.parent)]
    return [("name", lambda: o.name), ("cells", lambda: list(o.cells)), ("spaces", lambda: list(o.spaces)),
            ("fullname", lambda: o.fullname), ("refs", lambda: list(o.refs))]


def exists(w, h):
    """does the object the handle was taken for still exist by the reference definitions?  None = no opinion"""
    s = h.rspace
    if s.deleted or _detached(w.rm, s):
        return False
    if h.kind == "space":
        return True
    if h.kind == "cells":
        return True if h.name in R.members(s)["cells"] else False
    # instances: gone for sure only when the parametrised space lost its formula
    if s.formula is None:
        return False
    return None


def _detached(rm, s):
    p = s
    while isinstance(p, R.RSpace):
        par = p.parent
        if par.children.get(p.name) is not p:
            return True
        p = par
    return p is not rm


def reachable(w, h):
    """the object now reachable under the handle's own path"""
    o = h.obj

    def rerequest(x):
        if x is w.m:
            return x
        p = rerequest(x.parent)
        if hasattr(x, "argvalues"):
            return p(*x.argvalues)
        return p.spaces[x.name]
    if h.kind in ("cells", "dyncells"):
        return rerequest(o.parent).cells[o.name]
    return rerequest(o)


def run_tree(case):
    """a space tree of the given shape, every space with a cells, a reference, a deriving space and a reader in
    another space; one space of the tree is deleted: every handle into the deleted subtree raises, nothing
    computed from it stays, no container / base list / graph mentions it; the rest of the tree is untouched"""
    reset_session()
    vio = []
    cnt = {"handle_pokes": 0, "must_raise": 0, "raised": 0, "answered_live": 0, "graph_scans": 0,
           "deletion_triggers": 0, "handles": 0, "container_scans": 0, "tree_cases": 1}

    def V(kind, sig, **d):
        if len(vio) < 4:
            vio.append({"kind": kind, "signature": sig, "detail": dict(d, shape=case["shape"], target=case["target"])})
    m = mx.new_model("M")
    T = m.new_space("T")
    nodes = []          # (space, path list, parent index)

    def build(parent, shape, name, pidx):
        sp = parent.new_space(name)
        idx = len(nodes)
        path = (nodes[pidx][1] + [name]) if pidx is not None else [name]
        nodes.append((sp, path, pidx))
        sp.new_cells("c", formula="lambda x: x + %d" % (idx * 10))
        sp.r = idx
        for k, ch in enumerate(shape):
            build(sp, ch, "N%d" % k, idx)
        return idx
    build(m, case["shape"], "R", None)
    derived = []
    for i, (sp, path, _p) in enumerate(nodes):
        T.new_cells("t%d" % i, formula="lambda x: _model.%s.c(x) + _model.%s.r" % (".".join(path), ".".join(path)))
        derived.append(m.new_space("D%d" % i, bases=sp))
    for i in range(len(nodes)):
        T.cells["t%d" % i](1)
        derived[i].c(1)
    handles = [(i, "space", sp) for i, (sp, _, _) in enumerate(nodes)] + \
              [(i, "cells", sp.c) for i, (sp, _, _) in enumerate(nodes)]
    cnt["handles"] = len(handles)
    tgt = case["target"]
    gone = set()
    for i, (sp, path, pidx) in enumerate(nodes):
        q = i
        while q is not None:
            if q == tgt:
                gone.add(i)
                break
            q = nodes[q][2]
    tsp, tpath, tp = nodes[tgt]
    owner = m if tp is None else nodes[tp][0]
    cnt["deletion_triggers"] += 1
    try:
        delattr(owner, tpath[-1])
    except Exception as e:      # noqa
        V("op-raised", "deleting a space raised %s" % type(e).__name__, msg=str(e)[:200])
        return {"violations": vio, "counters": cnt, "nontrivial": True, "shape": "tree-%r-%d" % (case["shape"], tgt)}
    for i, kind, o in handles:
        us = [("name", lambda o=o: o.name), ("fullname", lambda o=o: o.fullname)]
        us += [("cells", lambda o=o: list(o.cells)), ("spaces", lambda o=o: list(o.spaces))] if kind == "space" else \
              [("call", lambda o=o: o(1)), ("len", lambda o=o: len(o)), ("formula", lambda o=o: o.formula)]
        if i in gone:
            cnt["must_raise"] += 1
        for uname, fn in us:
            cnt["handle_pokes"] += 1
            try:
                fn()
                answered = True
            except DeletedObjectError:
                answered = False
                cnt["raised"] += 1
            except Exception as e:      # noqa
                V("handle-other-error", "a handle neither works nor raises the deleted-object error (after del_space)",
                  node=nodes[i][1], use=uname, error=type(e).__name__)
                break
            if answered and i in gone:
                V("handle-answers", "a handle to a %s that no longer exists still answers (after del_space)" % kind,
                  node=nodes[i][1], use=uname)
                break
            if not answered and i not in gone:
                V("handle-dead", "a handle to a %s outside the deleted tree raises the deleted-object error" % kind,
                  node=nodes[i][1], use=uname)
                break
            if answered:
                cnt["answered_live"] += 1
    # nothing computed from the deleted spaces stays; readers of the others keep their values
    for i in range(len(nodes)):
        held = dict(T.cells["t%d" % i])
        if i in gone and held:
            V("stale", "a value computed from a deleted object is still held (after del_space)", reader="T.t%d" % i,
              node=nodes[i][1])
        # (values computed from the spaces that remain may go as well: deleting a child changes the namespace of
        # its parent; the statement does not forbid that)
        d = derived[i]
        cnt["container_scans"] += 1
        if i in gone:
            try:
                if "c" in d.cells or "r" in d._own_refs or list(d.bases):
                    V("container", "a container or base list holds a deleted object (after del_space)",
                      space="D%d" % i, cells=list(d.cells), bases=[b.fullname for b in d.bases])
            except DeletedObjectError:
                V("handle-dead", "a space deriving from a deleted space raises the deleted-object error", space="D%d" % i)
    cnt["graph_scans"] += 1
    for nd in list(m.tracegraph.nodes):
        impl = nd[0]
        if impl.interface._impl is not impl:
            V("graph-deleted", "the dependency graph mentions an element of a deleted object (after del_space)",
              node=repr(nd)[:100])
            break
    sn = sanity(m)
    if sn and not vio:
        V("sanity", "library self-check failed after del_space", probs=sn[:3])
    return {"violations": vio, "counters": cnt, "nontrivial": True, "shape": "tree-%r-%d" % (case["shape"], tgt),
            "matrix": {"tree deletion: nodes in tree": {str(len(nodes)): 1}}}


def run_case(case):
    if case.get("kind") == "tree":
        return run_tree(case)
    case = expand(case)
    if "directed" in case:
        from . import c12
        r = c12._directed(DIRECTED[case["directed"]])
        r["case"] = case
        return r
    reset_session()
    w = World("M")
    rnd = random.Random(case["seed"] ^ 0xABCDEF)
    vio = []
    cnt = {"handle_pokes": 0, "must_raise": 0, "raised": 0, "answered_live": 0, "graph_scans": 0,
           "queries_vs_fresh": 0, "deletion_triggers": 0, "handles": 0, "container_scans": 0}
    handles = []
    edits = []
    kinds = []

    def V(kind, sig, **d):
        if len(vio) < 4:
            vio.append({"kind": kind, "signature": sig, "detail": d})

    def poke(step, tag):
        for h in handles:
            ex = exists(w, h)
            if ex is False:
                cnt["must_raise"] += 1
            for uname, fn in uses(h):
                cnt["handle_pokes"] += 1
                try:
                    fn()
                    answered = True
                except DeletedObjectError:
                    answered = False
                    cnt["raised"] += 1
                except Exception as e:      # noqa
                    if uname == "call":
                        answered = True      # the formula itself failed: the handle works
                    else:
                        V("handle-other-error", "a handle neither works nor raises the deleted-object error "
                          "(after %s)" % tag, handle=h.desc, use=uname, error=type(e).__name__, step=step)
                        break
                if answered and ex is False:
                    V("handle-answers", "a handle to a %s that no longer exists still answers (after %s)"
                      % ({"cells": "cells", "space": "space", "item": "ItemSpace", "dyn": "dynamic space",
                          "dyncells": "dynamic cells"}[h.kind], tag), handle=h.desc, use=uname, step=step)
                    break
                if answered:
                    cur = val(lambda: reachable(w, h))
                    if cur is not h.obj:
                        V("handle-orphan", "a handle answers but is not the object reachable under its own path "
                          "(after %s)" % tag, handle=h.desc, use=uname,
                          reach=repr(cur)[:80], step=step)
                        break
                    cnt["answered_live"] += 1

    def scans(step, tag):
        cnt["graph_scans"] += 1
        try:
            for nd in list(w.m.tracegraph.nodes):
                impl = nd[0]
                if impl.interface._impl is not impl:
                    V("graph-deleted", "the dependency graph mentions an element of a deleted object (after %s)" % tag,
                      node=repr(nd)[:100], step=step)
                    break
        except AttributeError:
            pass
        for s in walk_spaces(w.m):
            cnt["container_scans"] += 1
            try:
                for b in list(s.bases) + list(s._direct_bases):
                    b.name
                for c in s.cells.values():
                    c.name
                for k in s.named_spaces.values():
                    k.name
            except DeletedObjectError:
                V("container-deleted", "a container or base list holds a deleted object (after %s)" % tag,
                  space=s.fullname, step=step)

    for step, op in enumerate(case["ops"]):
        k = op["op"]
        if k == "nop":
            continue
        if k == "evalall":
            c02.run_queries(w, c02.all_queries(w))
            take_handles(w, handles, rnd)
            cnt["handles"] = len(handles)
            continue
        tag = op.get("tag")
        op2 = {a: b for a, b in op.items() if a != "tag"}
        if k == "item_discard":
            try:
                sp = w.get_live(op["space"])
                if op["how"] == "clear_at":
                    sp.clear_at(op["arg"])
                else:
                    del sp[op["arg"]]
            except Exception:      # noqa
                pass
            # the instance is re-created on the next request: nothing to mirror in the definitions
        else:
            affected = []
            if k == "rename_cells":
                try:
                    affected = [w.rm.get(p_) for p_ in R.deriving_paths(w.rm, op2["space"], op2["name"])]
                except KeyError:
                    pass
            r = w.apply(op2)
            edits.append(op2)
            if k == "rename_cells" and r[0] == "ok":
                # a renamed cells keeps its identity: the handle goes on under the new name
                for h in handles:
                    if h.kind == "cells" and h.name == op2["name"] and any(h.rspace is a for a in affected):
                        h.name = op2["new"]
        if tag is None:
            continue
        kinds.append(tag)
        cnt["deletion_triggers"] += 1
        poke(step, tag)
        if not vio:
            scans(step, tag)
        if not vio:
            fresh, fres = c02.build_fresh(edits)
            qs = c02.all_queries(fresh)
            lv = c02.run_queries(w, qs)
            fv = c02.run_queries(fresh, qs)
            for q in qs:
                kq = c02.qkey(q)
                cnt["queries_vs_fresh"] += 1
                if _n(lv[kq]) != _n(fv[kq]) and not (c02._is_err(lv[kq]) and c02._is_err(fv[kq])):
                    V("stale", "a value computed from a deleted object is still held (after %s)" % tag, query=q,
                      live=lv[kq], fresh=fv[kq], step=step)
                    break
            fresh.m.close()
        if not vio:
            s = sanity(w.m)
            if s:
                V("sanity", "library self-check failed after %s" % tag, probs=s[:3], step=step)
        if vio:
            break
    return {"violations": vio[:3], "counters": cnt, "nontrivial": cnt["must_raise"] > 0,
            "shape": "%x|%s" % (case["seed"] & 0xFFFFFF, ",".join(kinds)),
            "matrix": {"trigger": {k: kinds.count(k) for k in set(kinds)}}, "case": case,
            "sample": {"edits": kinds, "handles": [h.desc for h in handles[:8]], "n_handles": len(handles)}}


def _n(v):
    return list(v) if isinstance(v, tuple) else v


def shrink(case, violations, deadline):
    if "directed" in case or case.get("kind") == "tree":
        return None
    from ..shrink import shrink_ops
    return shrink_ops(expand(case), run_case, violations, deadline)
