"""C11 - rejected edits change nothing; the inheritance relation stays well-formed.

For generated models (inheritance, nesting, parametrised spaces, inputs), at random
points of random histories, every kind of invalid operation applicable to the model is
tried (rejection reason x operation that can trigger it).  If the operation raised, the
public description of the whole model (spaces, bases, cells and formulas, references,
static inputs) must be exactly what it was, every query must still answer as before and
the library's self-checks must pass.  Whatever was accepted must leave the base
relation acyclic with a C3 linearisation for every space and only valid identifiers
not starting with an underscore as names of user-created spaces and cells.
"""
import keyword
import random

from .. import env
from ..mxutil import mx, reset_session, sanity, snap_model, dict_diff, walk_spaces, val, relfull
from ..live import World
from ..gen import ModelGen, EditGen
from .. import refmodel as R
from . import c02

ID = "C11"
LEVEL = "exploration"
RULE = ("seeded random models (grammar of C01 incl. inheritance, nesting, ItemSpaces, inputs) x histories mixing valid "
        "edits, evaluation rounds and invalid operations drawn from 70 (reason x operation) kinds instantiated on the "
        "model's actual names; snapshot + all query values compared before/after every operation that raised. "
        "Non-trivial = the case contains at least one rejected operation on a model holding values; distinct = "
        "distinct (model seed, invalid-kind sequence)")
ASSUMPTIONS = ["ItemSpace contents are not definitions; only static inputs are part of the snapshot",
               "new_cells with an invalid name is documented to fall back to an automatic name: judged by the name "
               "invariant, not as a rejection"]
MIN_COUNTERS = {"quick": {"rejected_ops": 1500, "snapshots_compared": 1500, "values_compared": 40000,
                          "invariant_checks": 800, "kinds_rejected": 40},
                "thorough": {"rejected_ops": 50000, "snapshots_compared": 50000, "values_compared": 1200000,
                             "invariant_checks": 30000, "kinds_rejected": 45}}
SHARD_TIMEOUT = {"quick": 900, "thorough": 5400}

BAD_NAMES = ["", "1a", "_x", "for", "a b", "a.b", "é-"]


# ------------------------------------------------------------------ invalid operations (data -> API calls)
def pick(rnd, seq):
    seq = list(seq)
    return rnd.choice(seq) if seq else None


def gen_invalid(rnd, rm):
    """one invalid operation instantiated on the current definitions; None when not applicable"""
    spaces = list(rm.walk())
    if not spaces:
        return None
    static = [s for s in spaces if s.formula is None and not any(a.formula is not None for a in R._ancestors(s))]
    kind = rnd.choice(KINDS)
    sp = rnd.choice(spaces)
    mem = R.members(sp)
    path = sp.path()
    bn = rnd.choice(BAD_NAMES)
    tops = list(rm.children.values())
    o = {"bad": kind}
    if kind == "new_space_badname":
        return dict(o, parent=rnd.choice(["", path]), name=bn)
    if kind == "new_cells_badname":
        return dict(o, space=path, name=bn)
    if kind == "rename_cells_badname":
        n = pick(rnd, sp.cells)
        return n and dict(o, space=path, cells=n, name=bn)
    if kind == "rename_space_badname":
        return dict(o, space=path, name=bn)
    if kind == "rename_model_badname":
        return dict(o, name=bn)
    if kind == "set_ref_badname":
        return dict(o, space=path, name=bn)
    if kind == "new_cells_autoname_clash":
        # a reference / child space named like the next automatic cells name, then a cells created without a name
        return dict(o, space=path, prep=rnd.choice(["ref", "space"]), formula=rnd.choice([None, "lambda x: x"]))
    if kind == "new_cells_funcname_underscore":
        # no usable name given and a function whose own name is not allowed either: the cells gets an automatic name
        return dict(o, space=path, name=rnd.choice([None, "1st", "_p"]), func=rnd.choice(["_hid", "__dun__", "_"]))
    if kind == "new_cells_clash":
        n = pick(rnd, list(mem["cells"]) + list(mem["refs"]) + list(sp.children) + list(rm.refs))
        return n and dict(o, space=path, name=n)
    if kind == "new_space_clash":
        n = pick(rnd, list(mem["cells"]) + list(mem["refs"]) + list(sp.children))
        return n and dict(o, parent=path, name=n)
    if kind == "model_new_space_clash":
        n = pick(rnd, list(rm.refs))           # (an existing space name means "rename the old one": C19)
        return n and dict(o, name=n)
    if kind == "model_ref_clash_space":
        n = pick(rnd, rm.children)
        return n and dict(o, name=n)
    if kind == "rename_cells_clash":
        n = pick(rnd, sp.cells)
        t = pick(rnd, [x for x in list(mem["cells"]) + list(mem["refs"]) + list(sp.children) if x != n])
        return n and t and dict(o, space=path, cells=n, name=t)
    if kind in ("rename_cells_clash_sub_cells", "rename_cells_clash_sub_member"):
        n = pick(rnd, [x for x in sp.cells if not any(x in b.cells for b in R.mro(sp)[1:])])
        if not n:
            return None
        cands = []
        for s in rm.subs_of(sp):
            pool = list(s.cells) if kind.endswith("sub_cells") else list(s.refs) + list(s.children)
            cands += [x for x in pool if x not in mem["cells"] and x not in mem["refs"] and x not in sp.children]
        t = pick(rnd, cands)
        return t and dict(o, space=path, cells=n, name=t)
    if kind == "rename_derived_cells":
        n = pick(rnd, [x for x, (d, c) in mem["cells"].items() if d is not sp])
        return n and dict(o, space=path, cells=n, name="zq1")
    if kind == "rename_space_clash":
        parent = sp.parent
        sibs = [x for x in parent.children if x != sp.name]
        pm = R.members(parent) if isinstance(parent, R.RSpace) else {"cells": {}, "refs": rm.refs}
        t = pick(rnd, sibs + list(pm["cells"]) + list(pm["refs"]))
        return t and dict(o, space=path, name=t)
    if kind == "ref_clash_cells":
        n = pick(rnd, [x for x in mem["cells"]])
        if n and len(mem["cells"][n][1].params) == 0:
            return None          # `space.x = v` on a scalar cells assigns its value
        return n and dict(o, space=path, name=n)
    if kind == "ref_clash_sub_member":
        for s in rm.subs_of(sp):
            n = pick(rnd, [x for x in list(s.cells) + list(s.children) if x not in mem["cells"]
                           and x not in mem["refs"] and x not in sp.children])
            if n:
                return dict(o, space=path, name=n)
        return None
    if kind == "cells_clash_sub_member":
        for s in rm.subs_of(sp):
            n = pick(rnd, [x for x in list(s.refs) + list(s.children) if x not in mem["cells"]
                           and x not in mem["refs"] and x not in sp.children])
            if n:
                return dict(o, space=path, name=n)
        return None
    if kind == "setattr_nonscalar_cells":
        n = pick(rnd, [x for x, (d, c) in mem["cells"].items() if len(c.params) > 0])
        return n and dict(o, space=path, name=n)
    if kind == "add_bases_self":
        return dict(o, space=path, base=path)
    if kind == "add_bases_cycle":
        subs = rm.subs_of(sp)
        s = pick(rnd, subs)
        return s and dict(o, space=path, base=s.path())
    if kind == "add_bases_bad_mro":
        # X <- Y exists; Z gets bases [X, Y] -> no linearisation
        for y in spaces:
            for x in y.bases:
                z = pick(rnd, [t for t in tops if t is not x and t is not y and not t.bases
                               and not rm.subs_of(t)])
                if z:
                    return dict(o, space=z.path(), bases=[x.path(), y.path()])
        return None
    if kind == "new_space_bad_mro":
        for y in spaces:
            for x in y.bases:
                return dict(o, name="BadMro", bases=[x.path(), y.path()])
        return None
    if kind == "new_space_cyclic_parent":
        return dict(o, parent=path, name="SubOfParent", bases=[path])
    if kind == "add_bases_child":
        ch = pick(rnd, sp.children.values())
        return ch and dict(o, space=path, base=ch.path())
    if kind == "add_bases_parent":
        if isinstance(sp.parent, R.RSpace):
            return dict(o, space=path, base=sp.parent.path())
        return None
    if kind in ("add_bases_kind_conflict", "add_bases_kind_conflict_in_sub"):
        # the clash may be with the space itself or (…_in_sub) only with one of the spaces deriving from it
        holders = [sp] if kind == "add_bases_kind_conflict" else rm.subs_of(sp)
        for t in rnd.sample(spaces, len(spaces)):
            if t is sp or t in R.mro(sp) or sp in R.mro(t) or t.is_within(sp) or sp.is_within(t):
                continue
            tm = R.members(t)
            for h in holders:
                if t in R.mro(h) or h.is_within(t) or t.is_within(h):
                    continue
                hm = R.members(h)
                if _kinds_clash(tm, t, hm, h):
                    return dict(o, bad="add_bases_kind_conflict", space=path, base=t.path())
        return None
    if kind == "new_space_kind_conflict":
        # a new space from two bases that use one name for different kinds of member
        for a in rnd.sample(spaces, len(spaces)):
            am = R.members(a)
            for b in rnd.sample(spaces, len(spaces)):
                if b is a or b in R.mro(a) or a in R.mro(b) or a.is_within(b) or b.is_within(a):
                    continue
                if _kinds_clash(am, a, R.members(b), b):
                    return dict(o, name="KN%d" % rnd.randrange(10 ** 6), bases=[a.path(), b.path()])
        return None
    if kind == "new_space_refs_conflict":
        n = pick(rnd, list(mem["cells"]) + list(sp.children))
        return n and dict(o, name="KR%d" % rnd.randrange(10 ** 6), bases=[path], refs={n: 1})
    if kind == "new_cells_funcname_clash":
        # no name given: the cells is named after its formula
        cands = list(mem["refs"]) + list(sp.children)
        for s in rm.subs_of(sp):
            cands += list(s.refs) + list(s.children)
        n = pick(rnd, [x for x in cands if x not in mem["cells"] and x.isidentifier() and not x.startswith("_")])
        return n and dict(o, space=path, name=n)
    if kind == "remove_bases_not_base":
        t = pick(rnd, [x for x in tops if x is not sp and x not in sp.bases])
        return t and dict(o, space=path, base=t.path())
    if kind == "del_derived_cells":
        n = pick(rnd, [x for x, (d, c) in mem["cells"].items() if d is not sp])
        return n and dict(o, space=path, name=n, via=rnd.choice(["delattr", "view"]))
    if kind == "del_derived_ref":
        n = pick(rnd, [x for x, (d, c) in mem["refs"].items() if d is not sp])
        return n and dict(o, space=path, name=n)
    if kind == "del_missing":
        return dict(o, space=rnd.choice(["", path]), name="nothing_here")
    if kind == "del_special":
        return dict(o, space=path, name=rnd.choice(["_self", "_space", "_model"]))
    if kind == "del_model_ref_via_space":
        n = pick(rnd, [x for x in rm.refs if x not in mem["refs"] and x not in mem["cells"]])
        return n and dict(o, space=path, name=n)
    if kind in ("formula_syntax", "formula_not_function", "formula_two_statements", "formula_async", "formula_int",
                "formula_two_lambdas", "formula_funcobj_global_default", "formula_funcobj_two_lambdas"):
        n = pick(rnd, mem["cells"])
        return n and dict(o, space=path, name=n)
    if kind in ("new_cells_syntax", "new_cells_not_function"):
        return dict(o, space=path, name="nwc")
    if kind in ("space_formula_syntax", "space_formula_not_function", "space_formula_int"):
        return dict(o, space=path)
    if kind == "formula_on_dynamic_cells":
        ps = [s for s in static if False]
        for s in spaces:
            if s.formula is not None and not any(a.formula is not None for a in R._ancestors(s)):
                n = pick(rnd, R.members(s.formula.base or s)["cells"])
                if n:
                    return dict(o, space=s.path(), name=n)
        return None
    if kind in ("assign_none", "assign_uncached", "assign_too_many_args", "value_nonscalar", "assign_unhashable"):
        if sp not in static:
            return None
        if kind == "assign_uncached":
            n = pick(rnd, [x for x, (d, c) in mem["cells"].items() if not c.cached])
        elif kind == "assign_none":
            ev = R.Evaluator(rm)
            n = pick(rnd, [x for x, (d, c) in mem["cells"].items() if c.cached
                           and not ev.allow_none(R.Inst(sp), x)])
        else:
            n = pick(rnd, [x for x, (d, c) in mem["cells"].items() if c.cached and len(c.params) > 0])
        return n and dict(o, space=path, name=n)
    if kind == "relref_out_of_scope":
        if not rm.subs_of(sp) or sp not in static:
            return None
        t = pick(rnd, [x for x in static if not x.is_within(sp) and not sp.is_within(x) and x not in R.mro(sp)
                       and not any(sp is b or x is b for s in rm.subs_of(sp) for b in [s])])
        return t and dict(o, space=path, name="rrx", target=t.path())
    if kind == "set_ref_bad_mode":
        return dict(o, space=path, name="rrm")
    if kind == "set_ref_property_name":
        return dict(o, space=path, name=rnd.choice(["cells", "name", "parent", "spaces", "formula"]))
    if kind == "copy_clash":
        t = pick(rnd, [x for x in tops if x is not sp])
        return t and isinstance(sp.parent, R.RModel) and dict(o, space=path, name=t.name)
    if kind == "new_space_from_bad_module":
        return dict(o)
    return None


def _kinds_clash(am, a, bm, b):
    """do the members of two spaces use one name for different kinds of thing?"""
    ka = [set(am["cells"]), set(am["refs"]), set(a.children)]
    kb = [set(bm["cells"]), set(bm["refs"]), set(b.children)]
    return any(ka[i] & kb[j] for i in range(3) for j in range(3) if i != j)


KINDS = ["new_space_badname", "new_cells_badname", "rename_cells_badname", "rename_space_badname",
         "rename_model_badname", "set_ref_badname", "new_cells_clash", "new_space_clash", "model_new_space_clash",
         "model_ref_clash_space", "rename_cells_clash", "rename_cells_clash_sub_cells", "rename_cells_clash_sub_member",
         "rename_derived_cells", "rename_space_clash",
         "ref_clash_cells", "ref_clash_sub_member", "cells_clash_sub_member", "setattr_nonscalar_cells",
         "add_bases_self", "add_bases_cycle", "add_bases_bad_mro", "new_space_bad_mro", "new_space_cyclic_parent",
         "add_bases_child", "add_bases_parent", "add_bases_kind_conflict", "add_bases_kind_conflict_in_sub", "new_space_kind_conflict",
         "new_space_refs_conflict", "new_cells_funcname_clash", "new_cells_funcname_underscore",
         "new_cells_autoname_clash", "add_bases_relref_scope", "new_space_relref_scope", "remove_bases_not_base",
         "del_derived_cells", "del_derived_ref", "del_missing", "del_special", "del_model_ref_via_space",
         "formula_syntax", "formula_not_function", "formula_two_statements", "formula_async", "formula_int",
         "formula_two_lambdas", "formula_funcobj_global_default", "formula_funcobj_two_lambdas", "new_cells_syntax", "new_cells_not_function", "space_formula_syntax",
         "space_formula_not_function", "space_formula_int", "formula_on_dynamic_cells", "assign_none",
         "assign_uncached", "assign_too_many_args", "value_nonscalar", "assign_unhashable", "relref_out_of_scope",
         "set_ref_bad_mode", "set_ref_property_name", "copy_clash", "new_space_from_bad_module"]

_GLOBAL_DEFAULT = 3


def _needs_global(x, y=_GLOBAL_DEFAULT):       # valid Python, but its source cannot be executed on its own
    return x


_two_lambdas = (lambda x: 1, lambda y: 2)       # two lambdas on one source line


BAD_FORMULAS = {
    "formula_funcobj_global_default": _needs_global, "formula_funcobj_two_lambdas": _two_lambdas[1],
    "formula_syntax": "def f(x) return", "formula_not_function": "x = 1",
    "formula_two_statements": "def f(x):\n    return x\ny = 2", "formula_async": "async def f(x):\n    return x",
    "formula_int": 5, "formula_two_lambdas": "f = (lambda x: 1, lambda y: 2)",
    "new_cells_syntax": "def nwc(x) return", "new_cells_not_function": "1 + 1",
    "space_formula_syntax": "lambda p p", "space_formula_not_function": "3", "space_formula_int": 7,
}


def apply_invalid(w, o):
    """perform the operation through the public API; returns None if accepted, else the exception"""
    m = w.m
    k = o["bad"]
    g = w.get_live
    try:
        if k == "new_space_badname":
            g(o["parent"]).new_space(o["name"])
        elif k == "new_cells_badname":
            g(o["space"]).new_cells(o["name"], formula="lambda: 1")
        elif k in ("rename_cells_badname", "rename_cells_clash", "rename_derived_cells",
                   "rename_cells_clash_sub_cells", "rename_cells_clash_sub_member"):
            g(o["space"]).cells[o["cells"]].rename(o["name"])
        elif k in ("rename_space_badname", "rename_space_clash"):
            g(o["space"]).rename(o["name"])
        elif k == "rename_model_badname":
            m.rename(o["name"])
        elif k == "set_ref_badname":
            g(o["space"]).set_ref(o["name"], 1, "auto")
        elif k in ("new_cells_clash", "cells_clash_sub_member"):
            g(o["space"]).new_cells(o["name"], formula="lambda: 1")
        elif k == "new_space_clash":
            g(o["parent"]).new_space(o["name"])
        elif k == "model_new_space_clash":
            m.new_space(o["name"])
        elif k == "model_ref_clash_space":
            setattr(m, o["name"], 1)
        elif k in ("ref_clash_cells", "ref_clash_sub_member", "setattr_nonscalar_cells"):
            setattr(g(o["space"]), o["name"], 3)
        elif k in ("add_bases_self", "add_bases_cycle", "add_bases_child", "add_bases_parent",
                   "add_bases_kind_conflict", "add_bases_relref_scope"):
            g(o["space"]).add_bases(g(o["base"]))
        elif k == "add_bases_bad_mro":
            g(o["space"]).add_bases(*[g(b) for b in o["bases"]])
        elif k in ("new_space_bad_mro", "new_space_kind_conflict", "new_space_relref_scope"):
            m.new_space(o["name"], bases=[g(b) for b in o["bases"]])
        elif k == "new_space_refs_conflict":
            m.new_space(o["name"], bases=[g(b) for b in o["bases"]], refs=dict(o["refs"]))
        elif k == "new_cells_autoname_clash":
            sp_ = g(o["space"])
            n_ = next("Cells%d" % d_ for d_ in range(1, 100) if "Cells%d" % d_ not in sp_.cells)
            if o["prep"] == "ref":
                setattr(sp_, n_, 1)
            else:
                sp_.new_space(n_)
            if o["formula"] is None:
                sp_.new_cells()
            else:
                sp_.new_cells(formula=o["formula"])
        elif k == "new_cells_funcname_underscore":
            g(o["space"]).new_cells(o["name"], formula="def %s(x):\n    return x" % o["func"])
        elif k == "new_cells_funcname_clash":
            g(o["space"]).new_cells(formula="def %s(x):\n    return x" % o["name"])
        elif k == "new_space_cyclic_parent":
            g(o["parent"]).new_space(o["name"], bases=[g(b) for b in o["bases"]])
        elif k == "remove_bases_not_base":
            g(o["space"]).remove_bases(g(o["base"]))
        elif k == "del_derived_cells":
            if o.get("via") == "view":
                del g(o["space"]).cells[o["name"]]
            else:
                delattr(g(o["space"]), o["name"])
        elif k in ("del_derived_ref", "del_missing", "del_special", "del_model_ref_via_space"):
            delattr(g(o["space"]), o["name"])
        elif k in ("formula_syntax", "formula_not_function", "formula_two_statements", "formula_async",
                   "formula_int", "formula_two_lambdas", "formula_funcobj_global_default",
                   "formula_funcobj_two_lambdas"):
            g(o["space"]).cells[o["name"]].formula = BAD_FORMULAS[k]
        elif k in ("new_cells_syntax", "new_cells_not_function"):
            g(o["space"]).new_cells(o["name"], formula=BAD_FORMULAS[k])
        elif k in ("space_formula_syntax", "space_formula_not_function", "space_formula_int"):
            g(o["space"]).formula = BAD_FORMULAS[k]
        elif k == "formula_on_dynamic_cells":
            g(o["space"])(1).cells[o["name"]].formula = "lambda x: 0"
        elif k == "assign_none":
            g(o["space"]).cells[o["name"]][1] = None
        elif k == "assign_uncached":
            g(o["space"]).cells[o["name"]][1] = 5
        elif k == "assign_too_many_args":
            g(o["space"]).cells[o["name"]][(1, 2, 3, 4)] = 5
        elif k == "value_nonscalar":
            g(o["space"]).cells[o["name"]].value = 5
        elif k == "assign_unhashable":
            g(o["space"]).cells[o["name"]][[1, 2]] = 5
        elif k == "relref_out_of_scope":
            g(o["space"]).set_ref(o["name"], g(o["target"]), "relative")
        elif k == "set_ref_bad_mode":
            g(o["space"]).set_ref(o["name"], 1, "bogus")
        elif k == "set_ref_property_name":
            g(o["space"]).set_ref(o["name"], 1, "auto")
        elif k == "copy_clash":
            g(o["space"]).copy(m, o["name"])
        elif k == "new_space_from_bad_module":
            m.import_module("no.such.module_xyz")
        else:
            raise ValueError("unknown invalid op %s" % k)
    except Exception as e:      # noqa
        return e
    return None


# ------------------------------------------------------------------ invariants of accepted edits
def c3_live(space, seen=()):
    if space in seen:
        raise TypeError("cycle")
    bases = list(space._direct_bases)
    seqs = [c3_live(b, seen + (space,)) for b in bases] + [bases]
    res = [space]
    while True:
        seqs = [q for q in seqs if q]
        if not seqs:
            return res
        for q in seqs:
            cand = q[0]
            if not any(any(cand is x for x in t[1:]) for t in seqs):
                break
        else:
            raise TypeError("no mro")
        res.append(cand)
        seqs = [[x for x in q if x is not cand] for q in seqs]


def valid_name(n):
    return isinstance(n, str) and n.isidentifier() and not n.startswith("_") and not keyword.iskeyword(n)


def invariants(m):
    probs = []
    for s in walk_spaces(m):
        if not valid_name(s.name):
            probs.append("space named %r" % s.name)
        for n in s.cells:
            if not valid_name(n):
                probs.append("cells named %r in %s" % (n, s.fullname))
        try:
            lin = c3_live(s)
            if [relfull(b) for b in s.bases] != [relfull(b) for b in lin[1:]]:
                probs.append("bases of %s are not its C3 linearisation" % s.fullname)
        except TypeError as e:
            probs.append("base relation of %s: %s" % (s.fullname, e))
    return probs


# ------------------------------------------------------------------ cases
def gen_cases(tier, seed):
    n = 900 if tier == "quick" else 25000
    for i in range(n):
        yield {"id": "r%d" % i, "seed": env.derive_seed(seed, ID, i), "nops": 10 + i % 8, "itemspaces": i % 3 == 0}
    for j, fn in enumerate(DIRECTED):
        yield {"id": "d%d" % j, "directed": j}


def expand(case):
    if "ops" in case or "directed" in case:
        return case
    rnd = random.Random(case["seed"])
    g = ModelGen(rnd, itemspaces=case.get("itemspaces", False)).build()
    eg = EditGen(g)
    ops = list(g.ops)
    ops.append({"op": "evalall"})
    # user-assigned values in derived cells of static sub spaces: a refused operation must leave them alone
    # (several refusals used to re-derive the space first and thereby discard them)
    for s_ in g.rm.walk():
        if s_.bases and s_.formula is None and not any(a_.formula is not None for a_ in R._ancestors(s_)) \
                and rnd.random() < 0.6:
            try:
                mem_ = R.members(s_)["cells"]
            except Exception:      # noqa
                continue
            dn = [n for n, (d_, c_) in mem_.items() if d_ is not s_ and c_.cached and c_.params
                  and c_.params[0][1] is None]
            if dn:
                cn = rnd.choice(dn)
                nargs = sum(1 for _p, dflt in mem_[cn][1].params if dflt is None)
                e0 = {"op": "assign", "inst": [["s", p_] for p_ in s_.path().split(".")], "name": cn,
                      "args": [1] * nargs, "value": 444}
                g.emit(e0)
                ops.append(dict(e0, tag="assign"))
    for _ in range(case["nops"]):
        r = rnd.random()
        if r < 0.12:
            # a base whose member name is used for another kind in a *descendant* of the space: prepared by
            # valid edits, then the invalid add_bases
            cands = [s for s in g.rm.children.values() if g.rm.subs_of(s)]
            if cands:
                sp = rnd.choice(cands)
                d = rnd.choice(g.rm.subs_of(sp))
                nm, xn = "kq%d" % len(ops), "KX%d" % len(ops)
                if rnd.random() < 0.5:
                    prep = [{"op": "set_ref", "space": d.path(), "name": nm, "value": {"lit": 1}, "via": "setattr"},
                            {"op": "new_space", "name": xn},
                            {"op": "new_cells", "space": xn, "name": nm, "params": [["x", None]], "body": "x"}]
                else:
                    prep = [{"op": "new_cells", "space": d.path(), "name": nm, "params": [["x", None]], "body": "x"},
                            {"op": "new_space", "name": xn},
                            {"op": "set_ref", "space": xn, "name": nm, "value": {"lit": 1}, "via": "setattr"}]
                for p_ in prep:
                    g.emit(p_)
                    ops.append(dict(p_, tag=p_["op"]))
                ops.append({"op": "invalid", "what": {"bad": "add_bases_kind_conflict", "space": sp.path(), "base": xn}})
                if rnd.random() < 0.5:
                    ops.append({"op": "evalsome", "seed": rnd.randrange(1 << 30)})
                    ops.append({"op": "invalid", "what": {"bad": "new_space_kind_conflict", "name": "KN%d" % len(ops),
                                                          "bases": [d.path(), xn]}})
        elif r < 0.2:
            # a relative reference whose target lies outside its space is fine while nothing derives it;
            # deriving it must be refused - without leaving anything behind
            st = [s for s in g.rm.children.values() if s.formula is None and not s.children]
            free = [s for s in st if not g.rm.subs_of(s) and "rrl" not in s.refs]
            if len(st) >= 3 and free:
                a = rnd.choice(free)
                others = [s for s in st if s is not a and a not in R.mro(s) and s not in R.mro(a)]
                if len(others) >= 2:
                    z, x = rnd.sample(others, 2)
                    e = {"op": "set_ref", "space": a.path(), "name": "rrl", "value": {"space": z.path()},
                         "mode": "relative"}
                    g.emit(e)
                    ops.append(dict(e, tag="set_ref"))
                    # a sub space of x holding user-assigned values in cells derived from x: the refused
                    # add_bases must leave them alone too
                    xc = [n for n, c_ in x.cells.items() if len(c_.params) >= 1 and c_.cached
                          and c_.params[0][1] is None]
                    if xc and rnd.random() < 0.7:
                        sn = "SX%d" % len(ops)
                        e3 = {"op": "new_space", "name": sn, "bases": [x.path()]}
                        g.emit(e3)
                        ops.append(dict(e3, tag="new_space"))
                        cn = rnd.choice(xc)
                        nargs = sum(1 for _p, d_ in x.cells[cn].params if d_ is None)
                        e4 = {"op": "assign", "inst": [["s", sn]], "name": cn, "args": [1] * nargs, "value": 555}
                        g.emit(e4)
                        ops.append(dict(e4, tag="assign"))
                    ops.append({"op": "invalid", "what": {"bad": "add_bases_relref_scope", "space": x.path(),
                                                          "base": a.path()}})
                    ops.append({"op": "invalid", "what": {"bad": "new_space_relref_scope", "name": "RS%d" % len(ops),
                                                          "bases": [a.path()]}})
                    # withdraw it again so that later edits are not all refused
                    e2 = {"op": "del_ref", "space": a.path(), "name": "rrl"}
                    g.emit(e2)
                    ops.append(dict(e2, tag="del_ref"))
                    if rnd.random() < 0.5:
                        # a relative reference that would take over, in a sub space, a name the sub currently
                        # derives from another (later) base: T(a, U), U.q = 1, then a.q -> z relative
                        un, tn, qn = "UQ%d" % len(ops), "TQ%d" % len(ops), "q%d" % len(ops)
                        for e5 in ({"op": "new_space", "name": un},
                                   {"op": "set_ref", "space": un, "name": qn, "value": {"lit": 1}, "via": "setattr"},
                                   {"op": "new_space", "name": tn, "bases": [a.path(), un]}):
                            g.emit(e5)
                            ops.append(dict(e5, tag=e5["op"]))
                        ops.append({"op": "invalid", "what": {"bad": "relref_out_of_scope", "space": a.path(),
                                                              "name": qn, "target": z.path()}})
        elif r < 0.6:
            o = None
            for _t in range(6):
                o = gen_invalid(rnd, g.rm)
                if o:
                    break
            if o:
                ops.append({"op": "invalid", "what": o})
        elif r < 0.8:
            e = eg.one()
            if e:
                ops.append(dict(e, tag=e["op"]))
        else:
            ops.append({"op": "evalsome", "seed": rnd.randrange(1 << 30)})
    c = dict(case)
    c["ops"] = ops
    return c


def run_case(case):
    case = expand(case)
    if "directed" in case:
        return run_directed(case)
    reset_session()
    w = World("M")
    vio = []
    cnt = {"rejected_ops": 0, "accepted_invalid": 0, "snapshots_compared": 0, "values_compared": 0,
           "invariant_checks": 0, "valid_edits": 0}
    matrix = {}
    kinds = []

    def V(kind, sig, **d):
        vio.append({"kind": kind, "signature": sig, "detail": d})

    for step, op in enumerate(case["ops"]):
        k = op["op"]
        if k == "nop":
            continue
        if k in ("evalall", "evalsome"):
            qs = c02.all_queries(w)
            if k == "evalsome":
                r2 = random.Random(op["seed"])
                qs = [q for q in qs if r2.random() < 0.4]
            c02.run_queries(w, qs)
            continue
        if k != "invalid":
            op2 = {a: b for a, b in op.items() if a != "tag"}
            if "tag" not in op:         # construction of the model
                w.apply(op2)
                continue
            before = snap_model(w.m)
            r = w.apply(op2)
            cnt["valid_edits"] += 1
            if r[0] == "rej":
                # a generated edit the library declined: same obligation
                after = snap_model(w.m)
                cnt["snapshots_compared"] += 1
                cnt["rejected_ops"] += 1
                if after != before:
                    V("changed", "rejected %s changed the model" % op2["op"], op=op2, raised=r[1],
                      diff=[list(map(str, d))[:3] for d in dict_diff(before, after)[:4]], step=step)
                    break
            else:
                cnt["invariant_checks"] += 1
                p = invariants(w.m)
                if p:
                    V("invariant", "accepted %s leaves the model ill-formed" % op2["op"], op=op2, probs=p[:3])
                    break
            continue
        o = op["what"]
        qs = c02.all_queries(w)
        vals_before = c02.run_queries(w, qs)
        try:
            before = snap_model(w.m)
        except Exception as e:      # noqa
            raise
        err = apply_invalid(w, o)
        kinds.append(o["bad"])
        if err is None:
            cnt["accepted_invalid"] += 1
            matrix[o["bad"] + ":accepted"] = matrix.get(o["bad"] + ":accepted", 0) + 1
            cnt["invariant_checks"] += 1
            p = invariants(w.m)
            if p:
                V("invariant", "accepted %s leaves the model ill-formed" % o["bad"], op=o, probs=p[:3], step=step)
            s = sanity(w.m)
            if s and not vio:
                V("sanity", "library self-check failed after an accepted %s" % o["bad"], op=o, probs=s[:3])
            break        # the reference definitions no longer mirror the model: end of this history
        cnt["rejected_ops"] += 1
        matrix[o["bad"] + ":" + type(err).__name__] = matrix.get(o["bad"] + ":" + type(err).__name__, 0) + 1
        try:
            after = snap_model(w.m)
        except Exception as e:      # noqa
            V("broken", "model cannot be described after a rejected %s" % o["bad"], op=o,
              raised=type(err).__name__, error=repr(e)[:200], step=step)
            break
        cnt["snapshots_compared"] += 1
        if after != before:
            V("changed", "rejected %s changed the model" % o["bad"], op=o, raised=type(err).__name__,
              diff=[list(map(str, d))[:3] for d in dict_diff(before, after)[:4]], step=step)
            break
        vals_after = c02.run_queries(w, qs)
        for q in qs:
            kq = c02.qkey(q)
            cnt["values_compared"] += 1
            if _n(vals_before[kq]) != _n(vals_after[kq]):
                if c02._is_err(vals_before[kq]) and c02._is_err(vals_after[kq]):
                    continue
                V("values", "a value changed after a rejected %s" % o["bad"], op=o, raised=type(err).__name__,
                  query=q, before=vals_before[kq], after=vals_after[kq], step=step)
                break
        if vio:
            break
        s = sanity(w.m)
        if s:
            V("sanity", "library self-check failed after a rejected %s" % o["bad"], op=o,
              raised=type(err).__name__, probs=s[:3], step=step)
            break
    return {"violations": vio[:3], "counters": cnt, "nontrivial": cnt["rejected_ops"] > 0,
            "shape": "%x|%s" % (case["seed"] & 0xFFFFFF, ",".join(kinds)), "matrix": {"kind:outcome": matrix},
            "case": case, "sample": {"invalid_ops": [o["what"] for o in case["ops"] if o["op"] == "invalid"][:6]}}


def run_directed(case):
    """regression probes: witnesses of the repaired C11 mechanisms"""
    import importlib
    import sys
    import os
    sys.path.insert(0, os.path.join(env.VERIF, "findings"))
    wit = importlib.import_module("witnesses")
    name = DIRECTED[case["directed"]]
    r = getattr(wit, name)()
    vio = []
    if r:
        vio.append({"kind": "witness", "signature": "regression of repaired mechanism %s" % name, "detail": {"what": r}})
    return {"violations": vio, "counters": {"directed_probes": 1}, "nontrivial": True, "shape": "directed-" + name,
            "case": case}


DIRECTED = ["A", "F", "G", "U", "I", "J", "K", "L", "R", "EE", "FF", "RR", "SS", "TT", "WW"]


def _n(v):
    return list(v) if isinstance(v, tuple) else v


def finalize(cov, results):
    m = cov.get("matrices", {}).get("kind:outcome", {})
    rej = {k.split(":")[0] for k in m if not k.endswith(":accepted")}
    cov.setdefault("counters", {})["kinds_rejected"] = len(rej)
    cov["kinds_never_rejected"] = sorted(set(KINDS) - rej)


def shrink(case, violations, deadline):
    if "directed" in case:
        return None
    from ..shrink import shrink_ops
    return shrink_ops(expand(case), run_case, violations, deadline)
