"""C04 - write/read round trip (directory and zip) reproduces the model.

Workload: generated models (mxv/c04_gen.py: nested spaces, inheritance, parametrised
spaces, cells from a function-text grammar crossed with cached / allow_none / doc,
literal / picklable / module / object-valued references in the three modes, model-level
references, inputs in static cells and in nested ItemSpaces, IOSpec files, a few edits)
are built through the public API, written as a directory and as a zip archive, read
back, and sent through write-read-write chains (dir -> zip -> dir ...).

Oracle (all differential, the model before writing is the reference):
  * public description (snapshot) of the source model before writing == after writing
    (writing alters nothing; values held by cells included) == snapshot of every model
    read back (at any depth of the chain), with object-valued references - also inside
    containers and input values - required to be the objects found at the same place in
    the model that holds them;
  * the full query set (every cells of every static space x small argument domain,
    every cells of a set of ItemSpaces incl. nested ones) gives the same values / the
    same error classes on the source model and on every model read back;
  * relative file list of the directory == member list of the zip (+ equal text files);
  * a write that returned normally must be readable.
Formulas carry no probe (they would be pickled); a sys.monitoring census counts the
formula executions in the models read back.

Preconditions (a case that misses one is *vacuous*, counted, never a verdict):
  * the subject is a model built by accepted operations: when modelx declines an
    operation the model is rebuilt without it (whether a declined operation leaves the
    model alone is C11's question);
  * the source model does not hold deleted objects in defined references, containers or
    inputs (nothing corresponds to them in any model; C13's question);
  * the source model agrees with its own inheritance - every derived cells / non-object
    derived reference exists and equals the member it derives from (C03's question; a
    model that does not cannot be reproduced by re-deriving, which is what reading does).

Known findings: signatures listed in known_findings.json are re-tested by the directed
multi-case `d_probes` (always reported, so the runner prints KNOWN-FINDING); generated
cases that meet a listed signature count it (`known_mechanism_hits`) and report only
signatures that are not listed.  The generator confines the triggers of listed
mechanisms to a few per cent of the cases (`Gen.hz`, never zero).
"""
import hashlib
import json
import os
import random
import re
import shutil
import sys
import tempfile
import traceback
import types
import zipfile

from .. import env
from ..mxutil import mx, val, Inconclusive, dict_diff, reset_session
from .. import c04_gen as G

from modelx.core.base import Interface      # noqa: E402

ID = "C04"
LEVEL = "exploration"
RULE = ("seeded random model specs (op lists) from the C04 vocabulary - 1-4 top spaces with children/grandchildren, "
        "inheritance incl. nested bases, def/lambda space formulas, cells from a function-text grammar (def/lambda x "
        "layout x comments x doc strings) crossed with cached/allow_none/doc, literal/picklable/module/object "
        "references x auto/relative/absolute, containers holding model objects (incl. derived members), model-level "
        "references, static inputs, inputs in nested ItemSpaces, IOSpec files in sub-directories, post-construction "
        "edits; names drawn from prefix-related pools; 12 generator foci rotate - plus fixed directed models; every "
        "model is written as directory and zip (options: backup rotation, log_input, compression, path names), both "
        "are read back, then a chain of 0-2 further write/read generations alternating formats; a case is "
        "non-trivial when at least one written model was read back and the model has cells; distinct = distinct "
        "(op kinds with names, plan) hash")
ASSUMPTIONS = [
    "model objects are identified across models by their path below the model incl. ItemSpace arguments (_evalrepr)",
    "reference mode and definedness are read through space._get_object(name, as_proxy=True); direct bases through "
    "space._direct_bases (no public accessor exists)",
    "argument domain {0,1,2} for queries; ItemSpaces queried: those holding inputs plus two fixed argument tuples",
    "values are compared type-strictly (1, 1.0 and True are different): formulas use repr()/type() of references",
    "files are compared by relative name; contents additionally for *.py and *.json members",
]
MIN_COUNTERS = {
    "quick": {"roundtrips": 1800, "attr_comparisons": 350000, "value_comparisons": 150000, "listing_checks": 600,
              "source_unchanged_checks": 1200, "objref_identity_checks": 30000, "item_input_comparisons": 800,
              "chain_roundtrips": 600, "formula_executions_in_read_models": 2000000},
    "thorough": {"roundtrips": 40000, "attr_comparisons": 8000000, "value_comparisons": 3500000,
                 "listing_checks": 13000, "source_unchanged_checks": 26000, "objref_identity_checks": 650000,
                 "item_input_comparisons": 18000, "chain_roundtrips": 13000,
                 "formula_executions_in_read_models": 40000000},
}
SHARD_TIMEOUT = {"quick": 900, "thorough": 5400}
MAX_CONFIRM = 40
N_CASES = {"quick": 900, "thorough": 20000}

SIG_P = "C04-P refmode of non-object reference lost"
# mechanisms seen on the unchanged tree while building this check (reported; see findings/c04_witnesses.py)
SIG_D1 = "C04 input values of a derived cells are not written"
SIG_CR = "C04 carriage returns in documentation text are read back as newlines"
SIG_DIV = "C04 a model whose documentation text contains a section-divider line cannot be read back"
SIG_D4 = "C04 comment and blank lines before / after a def formula are not read back"
SIG_IOMODE = "C04 refmode of an IOSpec-valued reference is read back as a number"
SIG_DYNMOD = ("C04 a reference to a module that cannot be imported by name is written without error and cannot be "
              "read back")
SIG_NULLREF = ("C04 a derived reference that is a null object in the source (its target in a child space was created "
               "after the reference) is bound to that object after write/read")
SIG_WS = "C04 whitespace-only lines of a def formula captured from CRLF text are emptied when read back"
VALUE_NEUTRAL = {SIG_P, SIG_CR, SIG_D4, SIG_IOMODE}      # differences that cannot change what a cells returns
DIVIDER = "# " + "-" * 75


def gen_cases(tier, seed):
    for d in G.directed():
        yield d
    n = N_CASES[tier]
    for i in range(n):
        yield {"id": "g%d" % i, "seed": env.derive_seed(seed, ID, i), "focus": G.FOCI[i % len(G.FOCI)]}


def expand(case):
    if "ops" in case:
        return case
    d = G.generate(case["seed"], case.get("focus"))
    c = dict(case)
    c.update(d)
    return c


# ============================================================================ building
class Skip(Exception):
    """the op addresses something that does not exist (shrunk case / earlier rejection)"""


def _tuplize(k):
    if isinstance(k, list):
        return tuple(_tuplize(x) for x in k)
    return k


MODSRC = "K = 5\n\n\ndef f(x):\n    return x + K\n"


class Builder:
    def __init__(self, tmp):
        self.m = mx.new_model("M")
        self.tmp = tmp
        self.rejected = []
        self.rejected_idx = []        # ops declined by modelx
        self.doc_rejected_idx = []    # cells ops whose later doc assignment was declined
        self.idx = None
        self.skipped = 0
        self.applied = []
        import importlib, math, decimal, datetime, fractions, collections      # noqa: E401
        import numpy as np
        self.ns = {"O": self.O, "types": types, "math": math, "decimal": decimal, "datetime": datetime, "fractions": fractions,
                   "collections": collections, "np": np, "importlib": importlib}

    def O(self, expr):
        try:
            return eval("M" + ("." + expr if expr else ""), {"M": self.m, "__builtins__": {}})     # noqa: S307
        except Exception as e:     # noqa
            raise Skip("object %r: %s" % (expr, type(e).__name__))

    def space(self, path):
        o = self.m
        if path:
            for p in path.split("."):
                try:
                    o = o.spaces[p]
                except Exception:     # noqa
                    raise Skip("space %r" % path)
        return o

    def cells(self, path, name):
        s = self.space(path)
        try:
            return s.cells[name]
        except Exception:     # noqa
            raise Skip("cells %s.%s" % (path, name))

    def value(self, vs):
        try:
            return eval(vs["py"], dict(self.ns))     # noqa: S307  expression written by the generator
        except Skip:
            raise
        except Exception as e:     # noqa
            raise Inconclusive("value spec %r cannot be built: %r" % (vs, e))

    def apply(self, op, idx=None):
        k = op["op"]
        if k == "nop":
            return
        self.idx = idx
        try:
            act = getattr(self, "op_" + k)(op)      # navigation by the harness; returns the API call
        except Skip:
            self.skipped += 1
            return
        try:
            act()
            self.applied.append(op)
        except Exception as e:     # noqa   modelx declined the operation
            self.rejected.append((k, type(e).__name__))
            self.rejected_idx.append(idx)

    # each op_* resolves its targets (Skip when missing) and returns a thunk performing the API calls
    def op_model(self, op):
        def act():
            if op.get("doc") is not None:
                self.m.doc = op["doc"]
            if op.get("allow_none") is not None:
                self.m.allow_none = op["allow_none"]
        return act

    def op_space(self, op):
        parent = self.space(op["parent"])

        def act():
            s = parent.new_space(op["name"], formula=op.get("formula"))
            if op.get("doc") is not None:
                s.doc = op["doc"]
            if op.get("allow_none") is not None:
                s.allow_none = op["allow_none"]
        return act

    def op_bases(self, op):
        s = self.space(op["space"])
        bs = [self.space(b) for b in op["bases"]]
        return lambda: s.add_bases(*bs)

    def op_remove_bases(self, op):
        s = self.space(op["space"])
        bs = [self.space(b) for b in op["bases"]]
        return lambda: s.remove_bases(*bs)

    def op_cells(self, op):
        s = self.space(op["space"])

        def act():
            c = s.new_cells(op["name"], formula=op["formula"], is_cached=op.get("cached", True))
            if op.get("allow_none") is not None:
                c.allow_none = op["allow_none"]
            if op.get("doc_after") is not None:
                try:
                    c.doc = op["doc_after"]
                except Exception as e:     # noqa
                    self.rejected.append(("cells.doc", type(e).__name__))
                    self.doc_rejected_idx.append(self.idx)
        return act

    def op_set_formula(self, op):
        c = self.cells(op["space"], op["name"])

        def act():
            c.formula = op["formula"]
        return act

    def op_set_cached(self, op):
        c = self.cells(op["space"], op["name"])

        def act():
            c.is_cached = op["value"]
        return act

    def op_set_doc(self, op):
        o = self.cells(op["space"], op["name"]) if op.get("name") else self.space(op["space"])

        def act():
            o.doc = op["doc"]
        return act

    def op_ref(self, op):
        owner = self.space(op["space"])
        v = self.value(op["value"])
        if op.get("mode") and op["space"]:
            return lambda: owner.set_ref(op["name"], v, op["mode"])
        return lambda: setattr(owner, op["name"], v)

    def op_input(self, op):
        c = self.cells(op["space"], op["name"])
        v = self.value(op["value"])
        return lambda: self._assign(c, op["key"], v)

    def op_item_input(self, op):
        v = self.value(op["value"])
        expr = op["target"]

        def act():
            c = eval("M." + expr, {"M": self.m, "__builtins__": {}})      # noqa: S307  instantiates the ItemSpaces
            self._assign(c, op["key"], v)
        return act

    @staticmethod
    def _assign(c, key, v):
        key = _tuplize(key)
        if len(key) == 0:
            c.value = v
        elif len(key) == 1:
            c[key[0]] = v
        else:
            c[key] = v

    def op_iospec(self, op):
        owner = self.space(op["space"])
        kind = op["kind"]

        def act():
            import pandas as pd
            if kind == "module":
                src = os.path.join(self.tmp, "src_%s.py" % op["name"])
                with open(src, "w") as f:
                    f.write(MODSRC)
                owner.new_module(op["name"], op["path"], src)
            elif kind == "pandas_series":
                owner.new_pandas(op["name"], op["path"], pd.Series([1, 2, 3], name="s"), file_type="csv")
            else:
                df = pd.DataFrame({"a": [1, 2], "b": [3.0, 4.5]})
                owner.new_pandas(op["name"], op["path"], df, file_type="excel" if kind == "pandas_excel" else "csv")
        return act

    def op_rename_cells(self, op):
        c = self.cells(op["space"], op["name"])
        return lambda: c.rename(op["new"])

    def op_rename_space(self, op):
        s = self.space(op["space"])
        if not op["space"]:
            raise Skip("model")
        return lambda: s.rename(op["new"])

    def op_del(self, op):
        s = self.space(op["space"])
        if not op["space"]:
            raise Skip("model")
        return lambda: delattr(s, op["name"])

    def op_del_space(self, op):
        s = self.space(op["space"])
        if not op["space"]:
            raise Skip("model")
        parent = s.parent if "." in op["space"] else self.m
        return lambda: delattr(parent, s.name)


# ============================================================================ observing
_ADDR = re.compile(r" at 0x[0-9a-fA-F]+")


class Canon:
    """comparable, JSON-able form of values as seen from one model; model objects become their path below the
    model + whether the object found at that path in *this* model is the value itself"""

    def __init__(self, model, results=False):
        self.m = model
        self.name = model.name
        self.results = results      # values computed by formulas: text made from reprs of model objects is
        self.obj_checks = 0         # compared with the model's own name replaced
        self.name_re = re.compile(r"\b%s(?=[.(\[>])" % re.escape(model.name))
        try:
            from modelx.core.node import BaseNode
        except Exception:     # noqa
            BaseNode = ()
        self.BaseNode = BaseNode

    def rel(self, v):
        if v is self.m:
            return "M", True
        try:
            if not v._is_valid():
                return "<deleted>", None
            er = v._evalrepr
            mine = v.model is self.m
        except AttributeError as e:
            raise Inconclusive("cannot describe a model object: %s" % e)
        if not mine:
            return "<other model %s>" % er, None
        rest = self.name_re.sub("M", er[len(self.name):])      # arguments of an ItemSpace may be model objects
        same = None
        try:
            same = eval("M" + rest, {"M": self.m, "__builtins__": {}}) is v       # noqa: S307  repr made by modelx
        except Exception as e:     # noqa
            same = "lookup raised %s" % type(e).__name__
        self.obj_checks += 1
        return "M" + rest, same

    def __call__(self, v):
        t = type(v)
        if t is str and self.results:
            return self.name_re.sub("M", v)
        if v is None or t is str or t is int:
            return v
        if t is bool:
            return {"b": v}
        if t is float:
            return {"f": repr(v)}
        if isinstance(v, Interface):
            p, same = self.rel(v)
            return {"obj": p, "type": t.__name__, "same": same}
        if self.BaseNode and isinstance(v, self.BaseNode):
            return {"node": self(v.obj), "args": self(tuple(v.args))}
        mod = t.__module__ or ""
        if mod.startswith("numpy"):
            try:
                return {"np": t.__name__, "dtype": str(getattr(v, "dtype", "")), "v": repr(v.tolist())}
            except Exception:     # noqa
                return {"r": t.__name__ + ":" + repr(v)}
        if mod.startswith("pandas"):
            try:
                return {"pd": t.__name__, "v": v.to_csv()}
            except Exception:     # noqa
                return {"r": t.__name__ + ":" + repr(v)}
        if t is list:
            return [self(x) for x in v]
        if t is tuple:
            return {"t": [self(x) for x in v]}
        if isinstance(v, dict):
            items = sorted(([json.dumps(self(k), sort_keys=True, default=repr), self(x)] for k, x in v.items()),
                           key=lambda kv: kv[0])
            return {"d": items, "T": t.__name__}
        if isinstance(v, (set, frozenset)):
            return {"s": sorted(json.dumps(self(x), sort_keys=True, default=repr) for x in v), "T": t.__name__}
        if isinstance(v, (list, tuple)):
            return {"seq": [self(x) for x in v], "T": t.__name__}
        if isinstance(v, (bytes, bytearray)):
            return {"y": bytes(v).hex(), "T": t.__name__}
        if isinstance(v, types.ModuleType):
            if v.__name__ == "<unnamed module>":
                return {"modio": {k: repr(x) for k, x in sorted(vars(v).items())
                                  if not k.startswith("__") and isinstance(x, (int, float, str, tuple))},
                        "names": sorted(k for k in vars(v) if not k.startswith("__"))}
            return {"mod": v.__name__, "importable": sys.modules.get(v.__name__) is v}
        r = _ADDR.sub("", repr(v))
        r = self.name_re.sub("M", r)      # reprs of bound modelx objects
        return {"r": t.__name__ + ":" + r[:300]}


def value_class(v):
    if isinstance(v, Interface):
        try:
            return "object" if v._is_valid() else "deleted-object"
        except AttributeError:
            return "object"
    if isinstance(v, types.ModuleType):
        return "module"
    if type(v) in (bool, int, float, str, type(None)):
        return "literal"
    return "pickle"


def cells_inputs(c, C):
    out = {}
    for k, v in list(dict(c).items()):
        key = k if isinstance(k, tuple) else (k,)
        if c.is_input(*key):
            out[repr(key)] = C(v)
    return out


def refdesc(owner, name, C, is_model):
    try:
        p = owner._get_object(name, as_proxy=True)
        v = p.value
        d = {"value": C(v), "cls": value_class(v), "mode": p.refmode}
        if not is_model:
            d["derived"] = bool(p.is_derived())
        return d
    except AttributeError as e:
        raise Inconclusive("reference proxy not observable: %s" % e)


def snap_space(s, C, stats):
    try:
        direct = [C.rel(b)[0] for b in s._direct_bases]
    except AttributeError as e:
        raise Inconclusive("direct bases not observable: %s" % e)
    d = {"doc": s.doc, "allow_none": s.allow_none,
         "formula": s.formula.source if s.formula is not None else None,
         "params": list(s.parameters) if s.formula is not None else None,
         "direct_bases": direct, "bases": [C.rel(b)[0] for b in s.bases],
         "cells": {}, "refs": {}, "spaces": {}}
    for n, c in s.cells.items():
        d["cells"][n] = {"src": c.formula.source if c.formula is not None else None,
                         "params": list(c.parameters), "cached": c.is_cached, "allow_none": c.allow_none,
                         "doc": c.doc, "derived": bool(c._is_derived()), "inputs": cells_inputs(c, C)}
        stats["cells"] += 1
    for n in s._own_refs:
        d["refs"][n] = refdesc(s, n, C, False)
        stats["refs"] += 1
    for n, ch in s.named_spaces.items():
        d["spaces"][n] = snap_space(ch, C, stats)
    stats["spaces"] += 1
    return d


def item_inputs(m, C):
    """{path of a cells inside an ItemSpace tree: inputs} for every ItemSpace that exists, any depth"""
    out = {}

    def dyn(sp):
        for n, c in sp.cells.items():
            ins = cells_inputs(c, C)
            if ins:
                out[C.rel(c)[0]] = ins
        for ch in sp.named_spaces.values():
            dyn(ch)
            items(ch)
        items(sp)

    def items(sp):
        try:
            its = list(sp.itemspaces.values())
        except Exception:     # noqa
            its = []
        for it in its:
            dyn(it)

    def static(sp):
        items(sp)
        for ch in sp.named_spaces.values():
            static(ch)

    for s in m.spaces.values():
        static(s)
    return out


def snapshot(m):
    C = Canon(m)
    stats = {"cells": 0, "refs": 0, "spaces": 0}
    d = {"doc": m.doc, "allow_none": m.allow_none, "refs": {}, "spaces": {}}
    for n in m.refs:
        if n != "__builtins__":
            d["refs"][n] = refdesc(m, n, C, True)
            stats["refs"] += 1
    for n, s in m.spaces.items():
        d["spaces"][n] = snap_space(s, C, stats)
    d["item_inputs"] = item_inputs(m, C)
    try:
        d["iospecs"] = sorted([type(sp).__name__, str(sp.path.as_posix() if hasattr(sp.path, "as_posix") else sp.path)]
                              for sp in m.iospecs)
    except Exception as e:     # noqa
        d["iospecs"] = "unobservable %s" % type(e).__name__
    return d, stats, C.obj_checks


def held_values(m):
    """every value (input or calculated) held by static cells and by cells of existing ItemSpaces"""
    C = Canon(m)
    out = {}

    def cells_of(sp):
        for c in sp.cells.values():
            d = dict(c)
            if d:
                out[C.rel(c)[0]] = {repr(k): C(v) for k, v in d.items()}

    def walk(sp):
        cells_of(sp)
        for ch in sp.named_spaces.values():
            walk(ch)
        try:
            its = list(sp.itemspaces.values())
        except Exception:     # noqa
            its = []
        for it in its:
            walk(it)

    for s in m.spaces.values():
        walk(s)
    return out


ARGS = {0: [[]], 1: [[0], [1], [2]], 2: [[1, 2], [0, 1], [2]]}
ITEM_ARGS = {1: [[1], [2]], 2: [[1, 2], [2]]}


def _args_src(args):
    return ", ".join(repr(_tuplize(a)) for a in args)


def query_list(m, item_args):
    """[(expression below the model, args)] built from the static structure of the source model"""
    qs = []

    def walk(prefix, sp, depth, static_path):
        for n, c in sp.cells.items():
            np_ = len(c.parameters)
            for a in ARGS.get(np_, [[1] * np_]):
                qs.append((prefix + "." + n, a))
        for n, ch in sp.named_spaces.items():
            sub(prefix + "." + n, ch, depth, static_path + "." + n)

    def sub(prefix, sp, depth, static_path):
        walk(prefix, sp, depth, static_path)
        if sp.formula is not None and depth < 2:
            k = len(sp.parameters)
            cand = [list(a) for a in item_args.get(static_path if depth == 0 else "@" + prefix, [])]
            cand += ITEM_ARGS.get(k, [[1] * k])
            seen = []
            for a in cand:
                if a not in seen:
                    seen.append(a)
            for a in seen[:4]:
                walk("%s[%s]" % (prefix, _args_src(a)), sp, depth + 1, static_path)
                # the children of an ItemSpace are visited by walk() -> sub() with the item prefix

    for n, s in m.spaces.items():
        sub(n, s, 0, n)
    return qs


def run_queries(m, qs, C):
    out = {}
    g = {"M": m, "__builtins__": {}}
    for expr, args in qs:
        key = "%s(%s)" % (expr, _args_src(args))

        def call():
            return eval("M." + expr, g)(*[_tuplize(a) for a in args])        # noqa: S307
        out[key] = C(val(call))
    return out


def listing_dir(p):
    out = {}
    for d, _, fs in os.walk(p):
        for f in fs:
            full = os.path.join(d, f)
            out[os.path.relpath(full, p).replace(os.sep, "/")] = full
    return out


def listing_zip(p):
    with zipfile.ZipFile(p) as z:
        return {n: n for n in z.namelist() if not n.endswith("/")}


class Census:
    """counts executions of formula code objects (compiled by modelx with file name '<string>')"""
    TOOL = 4

    def __init__(self):
        self.n = 0
        self.on = False

    def start(self):
        mon = getattr(sys, "monitoring", None)
        if mon is None:
            return
        try:
            mon.use_tool_id(self.TOOL, "mxv_c04")
        except ValueError:
            return

        def cb(code, off):
            if code.co_filename == "<string>":
                self.n += 1
                return None
            return mon.DISABLE
        mon.register_callback(self.TOOL, mon.events.PY_START, cb)
        mon.set_events(self.TOOL, mon.events.PY_START)
        self.on = True

    def stop(self):
        if self.on:
            mon = sys.monitoring
            mon.set_events(self.TOOL, 0)
            mon.register_callback(self.TOOL, mon.events.PY_START, None)
            mon.free_tool_id(self.TOOL)
            self.on = False


# ============================================================================ classification
def _core_lines(src):
    """lines of a def source without the comment / blank lines before the def and after its last statement"""
    ls = src.split("\n")
    while ls and (not ls[0].strip() or ls[0].lstrip().startswith("#")):
        ls.pop(0)
    while ls and (not ls[-1].strip() or ls[-1].lstrip().startswith("#")):
        ls.pop()
    return ls


def _only_surrounding_lines_lost(before, after):
    """the two def sources differ only in comment / blank lines before `def` or after the last statement"""
    if not (isinstance(before, str) and isinstance(after, str)) or before == after:
        return False
    return _core_lines(before) == _core_lines(after) and len(after) < len(before)


def _ws_lines_only(before, after):
    """the two texts differ only in lines that consist of blanks in one and are empty in the other"""
    if not (isinstance(before, str) and isinstance(after, str)) or before == after:
        return False
    b, a = before.split("\n"), after.split("\n")
    return len(a) == len(b) and all(x == y or (not x.strip() and not y.strip()) for x, y in zip(b, a))


def _cr_only(before, after):
    return (isinstance(before, str) and isinstance(after, str) and "\r" in before
            and before.replace("\r\n", "\n").replace("\r", "\n") == after)


def _lookup(snap, toks):
    o = snap
    for t in toks:
        if not isinstance(o, dict) or t not in o:
            return None
        o = o[t]
    return o


def classify_diff(path, a, b, s0, what):
    """mechanism signature of one snapshot difference (path as produced by dict_diff)"""
    toks = path.strip("/").split("/")
    i = 0
    while i + 1 < len(toks) and toks[i] == "spaces":
        i += 2
    owner = toks[:i]
    rest = toks[i:]
    level = "model" if not owner else "space"
    if not rest:                                   # a whole space absent / extra
        return "C04 %s: a space is %s" % (what, "missing" if b == "<absent>" else "extra")
    head = rest[0]
    if head == "cells":
        if len(rest) == 2:
            c0 = a if isinstance(a, dict) else b
            kind = "derived" if isinstance(c0, dict) and c0.get("derived") else "defined"
            return "C04 %s: a %s cells is %s" % (what, kind, "missing" if b == "<absent>" else "extra")
        c0 = _lookup(s0, owner + rest[:2]) or {}
        src = c0.get("src") or ""
        form = "lambda" if src.lstrip().startswith("lambda") else "def"
        attr = rest[2]
        if attr == "src" and form == "def" and _only_surrounding_lines_lost(a, b):
            return SIG_D4
        if attr in ("src", "doc") and form == "def" and _ws_lines_only(a, b):
            return SIG_WS
        if attr == "inputs" and c0.get("derived") and b == "<absent>":
            return SIG_D1
        if attr == "doc" and _cr_only(a, b):
            return SIG_CR
        if attr == "inputs" and len(rest) > 3 and isinstance(a, dict) and isinstance(b, dict) and \
                a.get("obj") == b.get("obj") and a.get("same") != b.get("same"):
            return "C04 %s: model object inside an input value is not the corresponding object" % what
        return "C04 %s: %s of a %s-defined cells differs" % (what, attr, form)
    if head == "refs":
        if len(rest) == 2:
            return "C04 %s: a %s-level reference is %s" % (what, level, "missing" if b == "<absent>" else "extra")
        r0 = _lookup(s0, owner + rest[:2]) or {}
        cls = r0.get("cls", "?")
        attr = rest[2]
        if r0.get("derived") and cls == "deleted-object" and attr in ("value", "cls"):
            return SIG_NULLREF
        if attr == "mode" and cls != "object" and b == "auto" and a in ("absolute", "relative"):
            return SIG_P
        if attr == "mode" and a is False and isinstance(b, int):
            return SIG_IOMODE
        if attr == "value" and cls == "object":
            return "C04 %s: object-valued reference points at another object (%s mode)" % (what, r0.get("mode"))
        if attr == "value" and rest[-1] == "same":
            return "C04 %s: model object inside a pickled reference value is not the corresponding object" % what
        return "C04 %s: %s of a %s-level %s reference differs" % (what, attr, level, cls)
    if head == "item_inputs":
        key = rest[1] if len(rest) > 1 else ""
        depth = key.count("(")
        return "C04 %s: input values inside ItemSpaces differ (nesting depth %d)" % (what, depth)
    if head == "doc" and _cr_only(a, b):
        return SIG_CR
    return "C04 %s: %s of a %s differs" % (what, head, level)


def innermost_modelx_frame(e):
    tb = traceback.extract_tb(e.__traceback__)
    for fr in reversed(tb):
        fn = fr.filename.replace(os.sep, "/")
        if "/modelx/" in fn:
            return os.path.splitext(os.path.basename(fn))[0] + "." + fr.name
    return "?"


def inheritance_inconsistencies(s0):
    """derived cells / non-object derived references of the source that differ from the member they derive from
    (first space of `bases` that *defines* the name).  A source model in that state disagrees with its own
    inheritance; what reading re-derives is then necessarily different, and the culprit is C03's, not C04's."""
    index = {}

    def walk(d, path):
        for n, sp in (d.get("spaces") or {}).items():
            p = path + "." + n
            index[p] = sp
            walk(sp, p)
    walk(s0, "M")
    bad = []
    for p, sp in index.items():
        for b in sp["bases"]:
            if b in index:
                bad += [p + "." + n for n, c in index[b]["cells"].items() if not c.get("derived") and n not in sp["cells"]]
                bad += [p + "." + n for n, r in index[b]["refs"].items() if not r.get("derived") and n not in sp["refs"]]
        for n, c in sp["cells"].items():
            if not c.get("derived"):
                continue
            src = next((index[b]["cells"][n] for b in sp["bases"]
                        if b in index and n in index[b]["cells"] and not index[b]["cells"][n].get("derived")), None)
            if src is None or any(src[k] != c[k] for k in ("src", "params", "cached", "allow_none")):
                bad.append(p + "." + n)
        for n, r in sp["refs"].items():
            if r.get("derived") and r.get("cls") == "object" and r.get("mode") in ("auto", "relative"):
                # a derived reference into the definer's own tree must point at the object found at the same
                # relative place below the deriving space (e.g. not at a child that was renamed afterwards)
                dpath = next((b for b in sp["bases"] if b in index and n in index[b]["refs"]
                              and not index[b]["refs"][n].get("derived")), None)
                if dpath is not None:
                    tv = index[dpath]["refs"][n]["value"]
                    tpath = tv.get("obj") if isinstance(tv, dict) else None
                    actual = r["value"].get("obj") if isinstance(r["value"], dict) else None
                    if isinstance(tpath, str) and (tpath == dpath or tpath.startswith(dpath + ".")) and "(" not in tpath:
                        if actual != p + tpath[len(dpath):]:
                            bad.append(p + "." + n)
                continue
            if not r.get("derived") or r.get("cls") == "object":
                continue
            src = next((index[b]["refs"][n] for b in sp["bases"]
                        if b in index and n in index[b]["refs"] and not index[b]["refs"][n].get("derived")), None)
            if src is None or src.get("cls") == "object":
                if src is None:
                    bad.append(p + "." + n)
                continue
            if src["value"] != r["value"] or src["mode"] != r["mode"]:
                bad.append(p + "." + n)
    return bad


def dangling_defined(s0):
    """does a *defined* reference, an input value or a container of the source hold a deleted modelx object?
    (derived references whose target has no counterpart in the sub space are null objects by design - those are
    part of the description and must read back as such)"""
    def has(v):
        return '"<deleted>"' in json.dumps(v, default=repr)

    def space(d):
        for r in d["refs"].values():
            if not r.get("derived") and has(r["value"]):
                return True
        for c in d["cells"].values():
            if has(c["inputs"]):
                return True
        return any(space(x) for x in d["spaces"].values())
    if any(has(r["value"]) for r in s0["refs"].values()) or has(s0["item_inputs"]):
        return True
    return any(space(x) for x in s0["spaces"].values())


def has_divider_doc(s0):
    def docs(d):
        yield d.get("doc")
        for c in (d.get("cells") or {}).values():
            yield c.get("doc")
        for s in (d.get("spaces") or {}).values():
            yield from docs(s)
    for d in docs(s0):
        if isinstance(d, str):
            lines = d.split("\n")
            for i, ln in enumerate(lines[:-1]):
                if ln.strip() == DIVIDER and lines[i + 1].strip() in ("# Cells", "# References"):
                    return True
    return False


# ============================================================================ the case
_KNOWN = None


def known_signatures():
    global _KNOWN
    if _KNOWN is None:
        from .. import findings as F
        _KNOWN = {k["signature"] for k in F.load_known(ID)}
    return _KNOWN


def run_case(case):
    """Listed known findings (known_findings.json, read only): their fixed regression probes are the directed
    multi-case `d_probes`, whose violations are always returned so that the runner prints KNOWN-FINDING.  In every
    other case a violation whose mechanism signature is listed is counted (counter `known_mechanism_hits`, matrix
    `listed mechanisms met by generated cases`) and not returned again; signatures that are not listed are
    returned as they are."""
    if "multi" in case:
        return run_multi(case)
    r = run_single(case)
    if str(case.get("id", "")).startswith("d_") and case.get("id") not in ("d_objects",):
        r["sample"] = None              # the evidence samples show one directed and three generated cases
    known = known_signatures()
    if known and r.get("violations"):
        keep = [v for v in r["violations"] if v["signature"] not in known]
        for v in r["violations"]:
            if v["signature"] in known:
                r["counters"]["known_mechanism_hits"] = r["counters"].get("known_mechanism_hits", 0) + 1
                mm = r.setdefault("matrix", {}).setdefault("listed mechanisms met by generated cases", {})
                mm[v["signature"]] = mm.get(v["signature"], 0) + 1
        r["violations"] = keep
    return r


def run_multi(case):
    out = {"violations": [], "counters": {}, "matrix": {}, "nontrivial": True, "shape": case["id"], "case": case,
           "sample": None}
    seen = set()
    for sub in case["multi"]:
        reset_session()
        r = run_single(sub)
        for v in r.get("violations") or []:
            if v["signature"] not in seen:
                seen.add(v["signature"])
                v["detail"]["probe"] = sub["id"]
                out["violations"].append(v)
        for k, n in (r.get("counters") or {}).items():
            out["counters"][k] = out["counters"].get(k, 0) + n
        for mname, cells in (r.get("matrix") or {}).items():
            mm = out["matrix"].setdefault(mname, {})
            for k, n in cells.items():
                mm[k] = mm.get(k, 0) + n
    return out


def run_single(case):
    case = expand(case)
    ops, plan = case["ops"], case["plan"]
    rnd = random.Random(case.get("seed", 0) ^ 0xC0FFEE)
    vio = {}
    cnt = {k: 0 for k in ("roundtrips", "chain_roundtrips", "attr_comparisons", "value_comparisons", "listing_checks",
                          "file_content_checks", "source_unchanged_checks", "held_values_compared",
                          "objref_identity_checks", "item_input_comparisons", "writes", "write_raised", "reads",
                          "build_ops", "build_rejected", "build_skipped", "queries", "error_valued_queries",
                          "formula_executions_in_read_models", "rebuilds", "vacuous_dangling_source", "vacuous_inconsistent_source", "cells_compared", "refs_compared", "spaces_compared",
                          "files_listed")}
    matrix = {"cells: form x cached x allow_none x doc": {}, "references: class x mode x level": {},
              "object references: relation x mode": {}, "doc kind x owner": {}, "format chain": {},
              "inputs: where x value class": {}, "def/lambda layout features": {}, "write options": {},
              "build rejections": {}}

    def M(name, cell, n=1):
        matrix[name][cell] = matrix[name].get(cell, 0) + n

    def V(kind, sig, **detail):
        if sig not in vio:
            vio[sig] = {"kind": kind, "signature": sig, "detail": dict(detail, occurrences=1)}
        else:
            vio[sig]["detail"]["occurrences"] += 1

    tmp = tempfile.mkdtemp(prefix="mxv_c04_")
    census = Census()
    sample = {}
    completed = 0
    ncells = 0
    try:
        # ---------------------------------------------------------------- build
        # The subject is a model built by *accepted* operations.  An operation modelx declines must leave the
        # model alone, but whether it does is C11's question, not this one's: the model is rebuilt without the
        # declined operations until every operation is accepted.
        eff = list(ops)
        for attempt in range(5):
            b = Builder(tmp)
            for i, op in enumerate(eff):
                b.apply(op, i)
                cnt["build_ops"] += 1
            if attempt == 0:
                cnt["build_rejected"] = len(b.rejected)
                for k, e in b.rejected:
                    M("build rejections", "%s:%s" % (k, e))
            if not b.rejected:
                break
            drop = set(b.rejected_idx)
            eff = [dict(op, doc_after=None) if i in b.doc_rejected_idx else op
                   for i, op in enumerate(eff) if i not in drop]
            b.m.close()
            cnt["rebuilds"] += 1
        else:
            return {"status": "vacuous", "counters": cnt, "matrix": matrix, "nontrivial": False, "case": case}
        m = b.m
        cnt["build_skipped"] = b.skipped
        for op in b.applied:
            coverage_of_op(op, M)
        qs = query_list(m, case.get("item_args") or {})
        cnt["queries"] = len(qs)
        # ---------------------------------------------------------------- part of the values before writing
        if plan.get("pre_eval") and qs:
            pre = [q for q in qs if rnd.random() < 0.5]
            run_queries(m, pre, Canon(m))
        s0, stats0, oc = snapshot(m)
        cnt["objref_identity_checks"] += oc
        ncells = stats0["cells"]
        if dangling_defined(s0):
            # the source model refers to deleted objects (an edit removed the target of a reference): nothing
            # corresponds to them in any model; whether such references may exist is C13's question
            cnt["vacuous_dangling_source"] += 1
            return {"status": "vacuous", "counters": cnt, "matrix": matrix, "nontrivial": False, "case": case}
        if inheritance_inconsistencies(s0):
            cnt["vacuous_inconsistent_source"] += 1
            return {"status": "vacuous", "counters": cnt, "matrix": matrix, "nontrivial": False, "case": case}
        h0 = held_values(m)
        divider = {"divider": has_divider_doc(s0), "failures": [],
                   "dynmod": '"importable": false' in json.dumps(s0, default=repr)}
        # object-valued things of the source must be the corresponding objects to begin with (harness sanity)
        # ---------------------------------------------------------------- generation 0: write both containers
        paths = {}
        for fmt in plan["order"]:
            d = os.path.join(tmp, "g0_" + fmt)
            os.makedirs(d)
            p = os.path.join(d, plan["pathname"])
            ok = do_write(m, p, fmt, plan, cnt, V, M, pre_save=plan.get("pre_save"))
            # writing alters nothing in the model (except path)
            s1, _, _ = snapshot(m)
            cnt["source_unchanged_checks"] += 1
            for path, a, bb in dict_diff(s0, s1)[:6]:
                V("source-changed", classify_diff(path, a, bb, s0, "writing (%s) changed the source model" % fmt),
                  path=path, before=a, after=bb, fmt=fmt)
            h1 = held_values(m)
            cnt["held_values_compared"] += sum(len(v) for v in h0.values())
            if h1 != h0:
                V("source-changed", "C04 writing changed the values held by the source model",
                  diff=dict_diff(h0, h1)[:4], fmt=fmt)
            if ok:
                paths[fmt] = p
        # ---------------------------------------------------------------- same files in both containers
        if "dir" in paths and "zip" in paths:
            cnt["listing_checks"] += 1
            ld, lz = listing_dir(paths["dir"]), listing_zip(paths["zip"])
            cnt["files_listed"] += len(ld) + len(lz)
            if sorted(ld) != sorted(lz):
                only_d, only_z = sorted(set(ld) - set(lz)), sorted(set(lz) - set(ld))
                where = "in sub-directories of IO files" if any(
                    "/" in f and not f.split("/")[-2].startswith("_") and not f.endswith("__init__.py")
                    for f in only_d + only_z) else "among the model files"
                V("listing", "C04 zip members differ from the files of the directory (%s)" % where,
                  only_in_dir=only_d[:6], only_in_zip=only_z[:6])
            else:
                with zipfile.ZipFile(paths["zip"]) as z:
                    for n in sorted(ld):
                        if n.endswith((".py", ".json", ".txt")) and not n.startswith(("mods/", "data/", "files/", "io_files/")):
                            cnt["file_content_checks"] += 1
                            with open(ld[n], "rb") as f:
                                if f.read() != z.read(n):
                                    V("listing", "C04 a text file differs between directory and zip", member=n)
        # ---------------------------------------------------------------- values of the source model
        Cm = Canon(m, results=True)
        v0 = run_queries(m, qs, Cm)
        cnt["error_valued_queries"] = sum(1 for v in v0.values() if isinstance(v, dict) and "t" in v and v["t"][:1] == ["ERR"])
        # ---------------------------------------------------------------- read back, compare, chain
        census.start()
        readers = {}
        nread = 0
        for fmt in plan["order"]:
            if fmt not in paths:
                continue
            nread += 1
            r = read_and_compare(paths[fmt], "R%d" % nread, fmt, [fmt], s0, v0, qs, cnt, V, divider)
            M("format chain", fmt)
            if r is not None:
                readers[fmt] = (r, paths[fmt])
                completed += 1
        src = plan.get("chain_from")
        if src not in readers and readers:
            src = sorted(readers)[0]
        if src in readers and plan.get("chain"):
            cur, curpath = readers[src]
            hist = [src]
            for gen, fmt in enumerate(plan["chain"], 1):
                if plan.get("same_path") and gen == 1:
                    p = curpath
                else:
                    d = os.path.join(tmp, "g%d_%s" % (gen, fmt))
                    os.makedirs(d)
                    p = os.path.join(d, plan["pathname"])
                ok = do_write(cur, p, fmt, plan, cnt, V, M, pre_save=False, chain=True)
                if not ok:
                    break
                nread += 1
                hist = hist + [fmt]
                nxt = read_and_compare(p, "R%d" % nread, fmt, hist, s0, v0, qs, cnt, V, divider)
                M("format chain", ">".join(hist))
                if nxt is None:
                    break
                cnt["chain_roundtrips"] += 1
                completed += 1
                cur, curpath = nxt, p
        census.stop()
        cnt["formula_executions_in_read_models"] = census.n
        report_unreadable(divider, [f for f in plan["order"] if f in paths], V)
        sample = {"ops": [slim(o) for o in ops[:14]], "n_ops": len(ops), "plan": plan,
                  "spaces": stats0["spaces"], "cells": stats0["cells"], "refs": stats0["refs"],
                  "queries": len(qs), "files": sorted(listing_dir(paths["dir"]))[:12] if "dir" in paths else None,
                  "roundtrips": cnt["roundtrips"], "build_rejected": b.rejected[:4]}
    finally:
        census.stop()
        shutil.rmtree(tmp, ignore_errors=True)
    shape = hashlib.md5(json.dumps([[o.get("op"), o.get("space", o.get("parent")), o.get("name"), o.get("mode"),
                                     (o["value"].get("sub") if isinstance(o.get("value"), dict) else None)] for o in ops] + [plan],
                                   sort_keys=True, default=repr).encode()).hexdigest()[:16]
    return {"violations": list(vio.values()), "counters": cnt, "matrix": matrix,
            "nontrivial": completed > 0 and ncells > 0, "shape": shape, "case": case, "sample": sample}


def slim(op):
    o = dict(op)
    if isinstance(o.get("formula"), str) and len(o["formula"]) > 160:
        o["formula"] = o["formula"][:160] + "..."
    return o


def do_write(model, p, fmt, plan, cnt, V, M, pre_save=False, chain=False):
    """returns True when the write returned normally"""
    kw = {}
    if plan.get("log_input"):
        kw["log_input"] = True
    if not plan.get("backup", True):
        kw["backup"] = False
    if fmt == "zip":
        if plan.get("compression") == "stored":
            kw["compression"] = zipfile.ZIP_STORED
        elif plan.get("compression") == "deflated9":
            kw["compresslevel"] = 9
    target = p
    if plan.get("pathlib"):
        import pathlib
        target = pathlib.Path(p)
    fn = model.zip if fmt == "zip" else model.write
    M("write options", "%s|%s" % (fmt, ",".join(sorted("%s=%s" % (k, getattr(v, "name", v)) for k, v in kw.items())) or "defaults"))
    try:
        if pre_save:
            fn(target)                          # an older save of the same model: exercises backup rotation
            M("write options", "%s|over an existing save" % fmt)
        cnt["writes"] += 1
        fn(target, **kw)
        return True
    except Exception as e:     # noqa   a write that raises promises nothing here (C14 judges failed saves)
        cnt["write_raised"] += 1
        M("write options", "%s|raised %s" % (fmt, type(e).__name__))
        return False


def read_and_compare(p, name, fmt, hist, s0, v0, qs, cnt, V, divider):
    what = "after write/read"
    cnt["reads"] += 1
    try:
        r = mx.read_model(p, name=name)
    except Exception as e:     # noqa   judged by the caller once both containers have been tried
        divider["failures"].append({"fmt": fmt, "chain": list(hist), "exc": type(e).__name__,
                                    "import_error": isinstance(e, ImportError),
                                    "at": innermost_modelx_frame(e), "error": str(e)[:300]})
        return None
    cnt["roundtrips"] += 1
    s1, stats, oc = snapshot(r)
    cnt["objref_identity_checks"] += oc
    cnt["cells_compared"] += stats["cells"]
    cnt["refs_compared"] += stats["refs"]
    cnt["spaces_compared"] += stats["spaces"]
    cnt["attr_comparisons"] += stats["cells"] * 7 + stats["refs"] * 4 + stats["spaces"] * 6 + 2
    cnt["item_input_comparisons"] += sum(len(v) for v in s0["item_inputs"].values())
    sigs = set()
    for i_, (path, a, b) in enumerate(dict_diff(s0, s1)):
        # every difference is classified (a later one may be what explains a value difference below); the
        # first twelve and every further new mechanism are reported
        sig = classify_diff(path, a, b, s0, what)
        if i_ < 12 or sig not in sigs:
            V("snapshot", sig, path=path, before=a, after=b, fmt=fmt, chain=hist)
        sigs.add(sig)
    v1 = run_queries(r, qs, Canon(r, results=True))
    cnt["value_comparisons"] += len(v0)
    explained = sigs - VALUE_NEUTRAL       # a described difference that can change values is already reported
    for k in v0:
        if v0[k] != v1.get(k):
            if explained:
                V("snapshot", sorted(explained)[0], consequence={"query": k, "source": v0[k], "read": v1.get(k)})
                break
            a, b = v0[k], v1.get(k)
            ea = isinstance(a, dict) and a.get("t", [None])[:1] == ["ERR"]
            eb = isinstance(b, dict) and b.get("t", [None])[:1] == ["ERR"]
            cls = ("value vs value" if not ea and not eb else
                   "value vs %s" % b["t"][1] if not ea else
                   "%s vs value" % a["t"][1] if not eb else "%s vs %s" % (a["t"][1], b["t"][1]))
            V("value", "C04 %s: a cells returns another result (%s%s)" % (
                what, cls, ", inside an ItemSpace" if "[" in k.split("(")[0] else ""),
              query=k, source=a, read=b, fmt=fmt, chain=hist)
            break
    return r


def report_unreadable(ctx, written, V):
    """one violation per mechanism for the models that were written without error and could not be read back;
    the container format is part of the signature only when the other container of the same model was readable"""
    fails = ctx["failures"]
    if not fails:
        return
    first = [f for f in fails if len(f["chain"]) == 1]
    both = len(written) == 2 and len({f["fmt"] for f in first}) == 2 and len({(f["exc"], f["at"]) for f in first}) == 1
    for f in fails:
        if ctx["divider"]:
            sig = SIG_DIV
        elif ctx["dynmod"] and f["import_error"]:
            sig = SIG_DYNMOD
        else:
            sig = "C04 a model written without error cannot be read back: %s at %s" % (f["exc"], f["at"])
            if len(f["chain"]) == 1 and len(written) == 2 and not both and len(first) == 1:
                sig += " [%s only]" % f["fmt"]
        V("unreadable", sig, **f)


def coverage_of_op(op, M):
    k = op["op"]
    if k == "cells":
        M("cells: form x cached x allow_none x doc", "%s|%s|an=%s|doc=%s" % (
            op.get("form"), "cached" if op.get("cached", True) else "uncached", op.get("allow_none"),
            "none" if op.get("dk") in (None, "none") else op.get("dk")))
        for f in op.get("feats") or []:
            M("def/lambda layout features", f)
        if op.get("dk") not in (None, "none", "x"):
            M("doc kind x owner", "%s cells|%s" % (op.get("form"), op["dk"]))
    elif k == "set_formula":
        for f in op.get("feats") or []:
            M("def/lambda layout features", "override " + f)
    elif k == "ref":
        v = op["value"]
        level = "space" if op["space"] else "model"
        M("references: class x mode x level", "%s:%s|%s|%s" % (v["kind"], v.get("sub"), op.get("mode") or "plain", level))
        if v["kind"] == "object":
            M("object references: relation x mode", "%s|%s" % (v.get("rel", "?"), op.get("mode") or "plain"))
        if v.get("derived"):
            M("object references: relation x mode", "derived member|%s" % v["kind"])
    elif k in ("space", "model"):
        if op.get("doc") is not None:
            M("doc kind x owner", "%s|%s" % (k, op.get("dk")))
        if k == "space" and op.get("ffeat"):
            M("def/lambda layout features", "space formula " + op["ffeat"])
    elif k == "set_doc":
        M("doc kind x owner", "edit|%s" % op.get("dk"))
    elif k == "input":
        M("inputs: where x value class", "%s|%s:%s" % ("derived cells" if op.get("derived") else "static", op["value"]["kind"], op["value"].get("sub")))
    elif k == "item_input":
        M("inputs: where x value class", "itemspace depth %d|%s" % (op.get("nested", 1), op["value"]["kind"]))
    elif k == "iospec":
        M("references: class x mode x level", "iospec:%s|plain|%s" % (op["kind"], "space" if op["space"] else "model"))
    else:
        M("def/lambda layout features", "edit " + k)


def finalize(cov, results):
    """is the construct x attribute cross of the design complete in this run?"""
    m = cov.get("matrices", {}).get("cells: form x cached x allow_none x doc", {})
    cross = {}
    for cell, n in m.items():
        form, cached, an, doc = cell.split("|")
        key = "%s|%s|%s|%s" % (form, cached, an, "doc" if doc != "doc=none" else "nodoc")
        cross[key] = cross.get(key, 0) + n
    want = ["%s|%s|an=%s|%s" % (f, c, a, d) for f in ("def", "lambda") for c in ("cached", "uncached")
            for a in ("None", "True", "False") for d in ("doc", "nodoc")]
    cov["cells_cross"] = {"cells_of_24": sum(1 for w in want if cross.get(w)), "min_count": min([cross.get(w, 0) for w in want]),
                          "missing": [w for w in want if not cross.get(w)]}
    r = cov.get("matrices", {}).get("references: class x mode x level", {})
    modes = {}
    for cell, n in r.items():
        cls, mode, level = cell.split("|")
        k = "%s|%s" % ("object" if cls.startswith("object") else "non-object", mode)
        modes[k] = modes.get(k, 0) + n
    cov["reference_modes"] = modes
    cov["vacuous"] = sum(1 for x in results if x.get("status") == "vacuous")


def shrink(case, violations, deadline):
    from ..shrink import shrink_ops
    known = known_signatures()
    wanted = [v for v in violations if v.get("signature") not in known]
    if not wanted or "multi" in case:
        return None                       # listed mechanisms have their minimal witnesses already
    import time
    deadline = min(deadline, time.time() + 60)
    c = expand(case)
    c = dict(c, plan=dict(c["plan"]))
    best = shrink_ops(c, run_single, wanted[:1], deadline)
    return best
