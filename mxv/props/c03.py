"""C03 - derived members equal re-derivation from defined members along the C3 order.

After every operation of a history the live model is compared, space by space, with
derivation from scratch by the reference model (own C3, members = first definer in the
MRO): names and kinds of members, defined/derived flags, formula source, cached and
allow_none flags, reference values and modes, `bases`, and the values of every cells
(evaluated with names resolved in the sub space).

Workload: exhaustive enumeration of ordered-base DAGs on n top-level spaces (n <= 3
quick, n = 4 thorough; n = 5 sampled), each reached by several construction orders
(new_space(bases=...) / later add_bases in random interleavings, members defined before
or after the wiring), followed by K random member and base edits: define, redefine,
delete in bases; override by assignment and un-override by deletion in subs; add and
remove bases; nested parents (a child space used as a base) sampled.
"""
import itertools
import random

from .. import env
from ..mxutil import mx, reset_session, sanity, canon, relfull
from ..live import World
from .. import refmodel as R
from ..gen import has_bad_mro

ID = "C03"
LEVEL = "exploration"
RULE = ("all ordered-base DAGs on n spaces (bases of S_i are an ordered subset of S_0..S_{i-1}): n=2,3 (quick), "
        "n=4 (thorough), n=5 sampled; x construction orders x K random member/base edits over cells {c1,c2} and "
        "references {r1,r2}; comparison with derivation from scratch after every operation. Non-trivial = the "
        "history contains a member or base edit applied while some space derives the affected name; distinct = "
        "distinct (configuration, construction order, edit-kind sequence)")
ASSUMPTIONS = ["member order inside a space is not compared",
               "cells and references use disjoint names here (name clashes are C12's subject)",
               "reference model: textbook C3 + first definer in the MRO"]
MIN_COUNTERS = {"quick": {"space_comparisons": 30000, "value_checks": 30000, "configs": 172, "derived_members_seen": 8000},
                "thorough": {"space_comparisons": 500000, "value_checks": 500000, "configs": 172,
                             "derived_members_seen": 100000}}
SHARD_TIMEOUT = {"quick": 900, "thorough": 5400}

CELLS = ["c1", "c2"]
REFS = ["r1", "r2"]


def configs(n):
    """every assignment of ordered base lists: bases of S_i = ordered subset of S_0..S_{i-1}"""
    per = []
    for i in range(n):
        opts = []
        for k in range(i + 1):
            for sub in itertools.permutations(range(i), k):
                opts.append(list(sub))
        per.append(opts)
    return [list(c) for c in itertools.product(*per)]


def gen_cases(tier, seed):
    i = 0
    if tier == "quick":
        plan = [(2, 20, 8), (3, 40, 10), (4, 5, 12)]
    else:
        plan = [(2, 60, 12), (3, 200, 12), (4, 60, 12)]
    for n, reps, k in plan:
        for ci, cfg in enumerate(configs(n)):
            for rep in range(reps):
                yield {"id": "e%d" % i, "n": n, "cfg": cfg, "cfg_id": "%d:%d" % (n, ci), "k": k,
                       "seed": env.derive_seed(seed, ID, n, ci, rep), "nested": rep % 4 == 3}
                i += 1
    for j, name in enumerate(DIRECTED):
        yield {"id": "d%d" % j, "directed": j}
    # sampled n = 5 and purely random histories on 4 spaces
    m = 150 if tier == "quick" else 6000
    rnd = random.Random(env.derive_seed(seed, ID, "n5"))
    for j in range(m):
        cfg = []
        for s in range(5):
            k = rnd.choice([0, 0, 1, 1, 2, 3])
            cfg.append(rnd.sample(range(s), min(k, s)))
        yield {"id": "s%d" % j, "n": 5, "cfg": cfg, "cfg_id": "5:s", "k": 10,
               "seed": env.derive_seed(seed, ID, "n5", j), "nested": j % 3 == 0}


DIRECTED = ["B", "D", "E", "G", "U", "II", "X", "JJ"]       # regression probes (findings/witnesses.py)


def mk_cell_op(opname, space, name, k, rnd):
    lam = rnd.random() < 0.3
    body = rnd.choice(["x + %d" % k, "x + %d + r1" % k, "x + %d + (c1(0) if %r != 'c1' else 0)" % (k, name)])
    return {"op": opname, "space": space, "name": name, "params": [["x", None]], "body": body, "lam": lam,
            "cached": rnd.random() < 0.8, "probe": False}


def expand(case):
    if "ops" in case or "directed" in case:
        return case
    rnd = random.Random(case["seed"])
    n, cfg = case["n"], case["cfg"]
    names = ["S%d" % i for i in range(n)]
    ops = []
    kctr = [0]

    def k():
        kctr[0] += 1
        return kctr[0]

    def member_ops(count):
        out = []
        for _ in range(count):
            s = rnd.choice(names)
            if rnd.random() < 0.55:
                out.append(mk_cell_op("def_cells", s, rnd.choice(CELLS), k(), rnd))
            else:
                out.append({"op": "def_ref", "space": s, "name": rnd.choice(REFS), "value": {"lit": 100 + k()}})
        return out
    style = rnd.choice(["new_space", "add_bases", "mixed"])
    pre = member_ops(rnd.randint(0, 4))
    if style == "new_space":
        for i, nm in enumerate(names):
            ops.append({"op": "new_space", "name": nm, "bases": [names[b] for b in cfg[i]]})
            ops += [o for o in pre if o["space"] == nm]
    else:
        for nm in names:
            ops.append({"op": "new_space", "name": nm})
        if rnd.random() < 0.5:
            ops += pre
            pre = []
        wires = []
        for i in range(n):
            if style == "mixed" and rnd.random() < 0.5 and len(cfg[i]) > 1:
                wires.append([("add_bases", names[i], [names[b] for b in cfg[i]])])     # several at once
            else:
                wires.append([("add_bases", names[i], [names[b]]) for b in cfg[i]])
        # random interleaving that keeps each space's own order
        while any(wires):
            w = rnd.choice([x for x in wires if x])
            o, s, bs = w.pop(0)
            ops.append({"op": o, "space": s, "bases": bs})
        ops += pre
    if case.get("nested"):
        ops.append({"op": "new_space", "parent": names[0], "name": "Ch"})
        ops.append(mk_cell_op("def_cells", names[0] + ".Ch", "c2", k(), rnd))
        ops.append({"op": "def_ref", "space": names[0] + ".Ch", "name": "r2", "value": {"lit": 100 + k()}})
        if n > 1:
            ops.append({"op": "add_bases", "space": names[-1], "bases": [names[0] + ".Ch"]})
    ops.append({"op": "mark"})
    # K random edits
    for _ in range(case["k"]):
        r = rnd.random() * 1.06       # (the last kinds were added later: their share comes on top)
        s = rnd.choice(names)
        if r < 0.3:
            ops.append(mk_cell_op("def_cells", s, rnd.choice(CELLS), k(), rnd))
        elif r < 0.5:
            ops.append({"op": "def_ref", "space": s, "name": rnd.choice(REFS), "value": {"lit": 100 + k()}})
        elif r < 0.62:
            ops.append({"op": "undef_cells", "space": s, "name": rnd.choice(CELLS)})
        elif r < 0.72:
            ops.append({"op": "undef_ref", "space": s, "name": rnd.choice(REFS)})
        elif r < 0.86:
            b = rnd.choice([x for x in names if x != s])
            ops.append({"op": "add_bases", "space": s, "bases": [b]})
        elif r < 0.96:
            ops.append({"op": "remove_any_base", "space": s, "pick": rnd.randrange(8)})
        elif r < 1.0:
            ops.append({"op": "toggle_cached", "space": s, "name": rnd.choice(CELLS)})
        elif r < 1.035:
            ops.append({"op": "allow_none_defined", "space": s, "name": rnd.choice(CELLS),
                        "value": rnd.choice([True, False, None])})
        else:
            ops.append({"op": "rename_defined", "space": s, "name": rnd.choice(CELLS), "new": "q%d" % k()})
    c = dict(case)
    c["ops"] = ops
    return c


def concretize(w, op):
    """resolve ops that depend on the current definitions (define vs redefine/override, which base to remove)"""
    k = op["op"]
    rm = w.rm
    if k == "def_cells":
        sp = rm.get(op["space"])
        has = op["name"] in R.members(sp)["cells"]
        return dict(op, op="set_formula" if has else "new_cells"), ("override" if has and op["name"] not in sp.cells
                                                                      else "redefine" if has else "define")
    if k == "def_ref":
        sp = rm.get(op["space"])
        mem = R.members(sp)["refs"]
        kind = "define" if op["name"] not in mem else ("override" if op["name"] not in sp.refs else "redefine")
        return dict(op, op="set_ref", via="setattr"), kind + "_ref"
    if k == "undef_cells":
        sp = rm.get(op["space"])
        if op["name"] not in sp.cells:
            return None, None
        return dict(op, op="del_cells"), "delete"
    if k == "undef_ref":
        sp = rm.get(op["space"])
        if op["name"] not in sp.refs:
            return None, None
        return dict(op, op="del_ref"), "delete_ref"
    if k == "remove_any_base":
        sp = rm.get(op["space"])
        if not sp.bases:
            return None, None
        b = sp.bases[op["pick"] % len(sp.bases)]
        return {"op": "remove_bases", "space": op["space"], "bases": [b.path()]}, "remove_bases"
    if k == "add_bases":
        sp = rm.get(op["space"])
        have = {b.path() for b in sp.bases}
        bs = [b for b in op["bases"] if b not in have]      # adding a base twice is not specified: skipped
        if not bs:
            return None, None
        return dict(op, bases=bs), "add_bases"
    if k == "allow_none_defined":
        sp = rm.get(op["space"])
        if op["name"] not in sp.cells:
            return None, None
        return {"op": "set_allow_none", "space": op["space"], "name": op["name"], "value": op["value"]}, "allow_none"
    if k == "rename_defined":
        sp = rm.get(op["space"])
        if op["name"] not in sp.cells or any(op["name"] in b.cells for b in R.mro(sp)[1:]):
            return None, None       # only a cells that overrides nothing can be renamed
        return {"op": "rename_cells", "space": op["space"], "name": op["name"], "new": op["new"]}, "rename"
    if k == "toggle_cached":
        sp = rm.get(op["space"])
        mem = R.members(sp)["cells"]
        if op["name"] not in mem:
            return None, None
        return {"op": "set_cached", "space": op["space"], "name": op["name"],
                "cached": not mem[op["name"]][1].cached}, "toggle_cached"
    return op, k


def observe(w, sp):
    live = w.get_live(sp.path())
    cells = {}
    for n, c in live.cells.items():
        cells[n] = {"src": (c.formula.source or "").strip(), "derived": bool(c._is_derived()),
                    "cached": bool(c.is_cached), "allow_none": c.allow_none}
    refs = {}
    for n in live._own_refs:
        p = live._get_object(n, as_proxy=True)
        refs[n] = {"value": w._strip(canon(p.value)), "derived": bool(p.is_derived()), "mode": p.refmode}
    bases = [relfull(b) for b in live.bases]
    return cells, refs, bases


def expected(w, sp):
    mem = R.members(sp)
    cells = {}
    for n, (d, cd) in mem["cells"].items():
        cells[n] = {"src": cd.source(n).strip(), "derived": d is not sp, "cached": bool(cd.cached),
                    "allow_none": cd.allow_none}
    refs = {}
    for n, (d, r) in mem["refs"].items():
        b = R.binding(sp, d, r)
        if b is R.UNKNOWN:
            refs[n] = None
            continue
        v = b[1] if b[0] == "lit" else {"obj": "M." + b[1].path() + ("." + b[2] if b[0] == "cell" else "")}
        refs[n] = {"value": canon(v) if b[0] == "lit" else None, "derived": d is not sp, "mode": r.mode}
    bases = [s.path() for s in R.mro(sp)[1:]]
    return cells, refs, bases


def run_case(case):
    case = expand(case)
    if "directed" in case:
        from . import c12
        r = c12._directed(DIRECTED[case["directed"]])
        r["case"] = case
        r["counters"]["configs"] = 0
        return r
    reset_session()
    w = World("M", probe=False)
    vio = []
    cnt = {"ops": 0, "rejected": 0, "space_comparisons": 0, "value_checks": 0, "derived_members_seen": 0,
           "configs": 0, "unknown_values": 0, "edits_with_derivers": 0}
    kinds = []
    matrix = {}
    built = False

    def V(kind, sig, **d):
        vio.append({"kind": kind, "signature": sig, "detail": d})

    def compare(step, op, kind):
        for sp in w.rm.walk():
            cnt["space_comparisons"] += 1
            try:
                oc, orf, ob = observe(w, sp)
            except Exception as e:     # noqa
                V("observe", "space cannot be described after %s" % kind, space=sp.path(), error=repr(e)[:200],
                  step=step, op=op)
                return
            ec, er, eb = expected(w, sp)
            cnt["derived_members_seen"] += sum(1 for v in ec.values() if v["derived"]) + \
                sum(1 for v in er.values() if v and v["derived"])
            if ob != eb:
                V("bases", "bases differ from the C3 linearisation after %s" % kind, space=sp.path(), live=ob,
                  expected=eb, step=step, op=op)
            if set(oc) != set(ec):
                V("cells-set", "cells of a space differ from derivation from scratch after %s" % kind,
                  space=sp.path(), live=sorted(oc), expected=sorted(ec), step=step, op=op)
            else:
                for n in oc:
                    for f in ("src", "derived", "cached", "allow_none"):
                        if oc[n][f] != ec[n][f]:
                            V("cells-" + f, "%s of a cells differs from derivation from scratch after %s"
                              % ({"src": "formula", "derived": "derived flag", "cached": "cached flag",
                                  "allow_none": "allow_none"}[f], kind),
                              space=sp.path(), name=n, live=oc[n][f], expected=ec[n][f], step=step, op=op)
            if set(orf) != set(er):
                V("refs-set", "references of a space differ from derivation from scratch after %s" % kind,
                  space=sp.path(), live=sorted(orf), expected=sorted(er), step=step, op=op)
            else:
                for n in orf:
                    if er[n] is None:
                        continue
                    for f in ("value", "derived", "mode"):
                        if f == "value" and er[n]["value"] is None:
                            continue
                        if orf[n][f] != er[n][f]:
                            V("refs-" + f, "%s of a reference differs from derivation from scratch after %s"
                              % (f, kind), space=sp.path(), name=n, live=orf[n][f], expected=er[n][f],
                              step=step, op=op)
            if vio:
                return
        # values: names resolved in the sub space
        for sp in w.rm.walk():
            steps = [["s", p] for p in sp.path().split(".")]
            for n in R.members(sp)["cells"]:
                for x in (0, 1):
                    ev = w.ref_value(steps, n, [x])
                    if ev is R.UNKNOWN:
                        cnt["unknown_values"] += 1
                        continue
                    lv = w.live_value(steps, n, [x])
                    cnt["value_checks"] += 1
                    if _n(lv) != _n(ev):
                        V("value", "value of a (derived) cells differs from evaluation in the sub space after %s"
                          % kind, space=sp.path(), name=n, x=x, live=lv, expected=ev, step=step, op=op)
                        return

    for step, op0 in enumerate(case["ops"]):
        if op0["op"] == "nop":
            continue
        if op0["op"] == "mark":
            built = True
            cnt["configs"] += 1
            continue
        try:
            op, kind = concretize(w, op0)
        except KeyError:
            continue        # the space was never created (its creation was rejected)
        if op is None:
            continue
        cnt["ops"] += 1
        # does some other space derive the affected name / space?
        if built and op.get("space"):
            try:
                if w.rm.subs_of(w.rm.get(op["space"])):
                    cnt["edits_with_derivers"] += 1
            except KeyError:
                pass
        r = w.apply(op)
        if r[0] == "rej":
            cnt["rejected"] += 1
            if op["op"] == "new_space" and op.get("bases"):
                # configuration without a C3 linearisation: rejected as it must be; go on with a plain space
                compare(step, op, kind)
                if vio:
                    break
                w.apply({"op": "new_space", "name": op["name"], "parent": op.get("parent", "")})
        elif R.has_cycle(w.rm) or has_bad_mro(w.rm):
            V("no-mro", "accepted edit leaves the base relation cyclic or without a C3 linearisation", op=op,
              step=step)
            break
        if built:
            kinds.append(kind)
            matrix[kind] = matrix.get(kind, 0) + 1
        compare(step, op, kind)
        if vio:
            break
    if not vio:
        s = sanity(w.m)
        if s:
            V("sanity", "library self-check failed", probs=s[:3])
    return {"violations": vio[:4], "counters": cnt, "nontrivial": cnt["edits_with_derivers"] > 0,
            "shape": "%s|%s" % (case.get("cfg_id"), ",".join(kinds)), "matrix": {"edit_kind": matrix},
            "case": case,
            "sample": {"n": case.get("n"), "cfg": case.get("cfg"), "ops": [o for o in case["ops"]][:10],
                       "edit_kinds": kinds}}


def _n(v):
    return list(v) if isinstance(v, tuple) else v


def finalize(cov, results):
    seen = set()
    for r in results:
        sh = r.get("shape", "")
        if r.get("status") in ("ok", "violation"):
            seen.add(sh.split("|")[0])
    exact = {c for c in seen if not c.endswith(":s")}
    cov["configurations_enumerated"] = len(exact)
    cov["configuration_space"] = {"n=2": len(configs(2)), "n=3": len(configs(3)), "n=4": len(configs(4))}
    cov["exhaustive"] = all(("%d:%d" % (n, i)) in exact for n in (2, 3, 4) for i in range(len(configs(n))))


def shrink(case, violations, deadline):
    if "directed" in case:
        return None
    from ..shrink import shrink_ops
    return shrink_ops(expand(case), run_case, violations, deadline)
