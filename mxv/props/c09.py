"""C09 - the cached flag never changes any result.

The same generated model and the same history (evaluations interleaved with edits:
reference create/change/shadow/delete, formula changes, cells/space create/delete/
rename, base changes, value edits of non-varied cells) are run under every assignment
of the cached flag to k chosen cells (all 2^k, exhaustive); the flag is set either at
creation or by toggling `is_cached` after the first round of evaluations.  At every
evaluation point every query must return the same value (or fail with the same class
of original exception) as under the all-cached assignment.  Per assignment: uncached
cells hold nothing, run their formula on every call and accept unhashable arguments.
"""
import random

from .. import env
from ..mxutil import mx, reset_session, sanity, val
from ..live import World
from ..gen import ModelGen, EditGen
from .. import refmodel as R
from . import c02

ID = "C09"
LEVEL = "exploration"
RULE = ("seeded random models (grammar of C01: nesting, inheritance, ItemSpaces, references by name and attribute path) "
        "+ the C02 directed matrix model; k varied cells (k<=3 quick, k<=5 thorough), ALL 2^k flag assignments, flags "
        "set at creation or toggled mid-history; histories of 2-8 edits with full evaluation rounds in between; "
        "values compared with the all-cached run at every evaluation point. Non-trivial = an edit changed the value of "
        "a query whose evaluation passes through a varied cells; distinct = distinct (model seed, k, edit kinds)")
ASSUMPTIONS = ["baseline is the all-cached assignment (tied to the reference evaluator by C01/C02)",
               "value edits (assign/clear) are only applied to cells that are cached under every assignment"]
MIN_COUNTERS = {"quick": {"assignments_run": 500, "values_compared": 60000, "uncached_len_checks": 3000,
                          "uncached_reexec_checks": 1000, "unhashable_checks": 300},
                "thorough": {"assignments_run": 30000, "values_compared": 5000000, "uncached_len_checks": 100000,
                             "uncached_reexec_checks": 30000, "unhashable_checks": 10000}}
SHARD_TIMEOUT = {"quick": 900, "thorough": 5400}
CHUNK = {"quick": 4, "thorough": 8}

SKIP_KINDS = {"toggle_cached", "clear_all_cells"}
EDIT_PATH = [("P.k", "a"), ("Ch.r", "d"), ("Q.s", "e"), ("qobj", "f"), ("m.g", "gg"), ("m.h", "hh"), ("g in Ch", "i"),
             ("g in P", "gg"), ("h in P", "hh"), ("P.a", "b"), ("Ch.cc", "c"), ("Q.qc", "f"), ("P.Ch", "d"),
             ("rename Ch", "l"), ("del Q", "e"), ("rename Q", "e"), ("P.ua", "a")]


def gen_cases(tier, seed):
    n = 170 if tier == "quick" else 5000
    kmax = 3 if tier == "quick" else 5
    for i in range(n):
        yield {"id": "g%d" % i, "kind": "random", "seed": env.derive_seed(seed, ID, i), "k": 1 + i % kmax,
               "nedits": 2 + i % 7, "itemspaces": i % 3 == 0, "toggle": i % 2 == 1}
    # the directed matrix of C02 with its two nested intermediates per dependency path as the varied cells
    keys = c02.MATRIX_KEYS if tier == "thorough" else sorted(
        set(c02.MATRIX_KEYS[::3]) | {k for k in c02.MATRIX_KEYS if "Gc" in k or k.startswith("del ")})
    names = sorted(c02.PATHS)
    for j, k in enumerate(keys):
        # the dependency path whose end the edit touches (else any)
        p = next((v for frag, v in EDIT_PATH if frag in k), names[j % len(names)])
        third = ["P.Ch.Gc", "g0"] if "Gc" in k else (["P.Ch", "cc"] if j % 2 else ["B", "bc"])
        yield {"id": "mx%d" % j, "kind": "matrix", "edit": k, "path": p, "seed": env.derive_seed(seed, ID, "mx", k),
               "varied": [["P", "u" + p], ["P", "uu" + p], third], "toggle": j % 2 == 0}
    # the flag given in a redefinition through the decorator: every (old flag, new flag, formula changed?, evaluated?)
    j = 0
    for old in (None, True, False):
        for new in (None, True, False):
            for changed in (0, 1):
                for evaluated in (False, True):
                    yield {"id": "dc%d" % j, "kind": "defcells", "old": old, "new": new, "changed": changed,
                           "evaluated": evaluated}
                    j += 1


def expand(case):
    if "ops" in case or case.get("kind") == "defcells":
        return case
    rnd = random.Random(case["seed"])
    c = dict(case)
    if case["kind"] == "matrix":
        ops = c02.matrix_build(False)
        ops.append({"op": "evalall"})
        ops.append(dict(c02.MATRIX_EDITS[case["edit"]], tag=case["edit"]))
        ops.append({"op": "evalall"})
        pth = case.get("path", "a")
        ops.append(dict(c02.F("P", "u" + pth, c02.PATHS[pth] + " + 1000"), tag="formula of the inner intermediate"))
        ops.append({"op": "evalall"})
        ops.append({"op": "toggle_back"})
        v = case["varied"][0]
        ops.append({"op": "assign", "inst": [["s", p] for p in v[0].split(".")], "name": v[1], "args": [1],
                    "value": 777, "tag": "assign_after_recache"})
        ops.append({"op": "evalall"})
        c["ops"] = ops
        return c
    g = ModelGen(rnd, itemspaces=case.get("itemspaces", False), uncached=0.0)
    # None-returning formulas legitimately differ (uncached cells are not subject to the None check) and
    # inputs need a cached cells: neither is part of this workload
    g.f["none_values"] = False
    g.f["inputs"] = False
    g.build()
    cells = [(s.path(), n) for s in g.rm.walk() for n in s.cells]
    rnd.shuffle(cells)
    varied = [list(x) for x in cells[: case["k"]]]
    vset = {(id(g.rm.get(v[0])), v[1]) for v in varied}      # by space identity: spaces get renamed
    eg = EditGen(g)
    ops = list(g.ops)
    ops.append({"op": "evalall"})
    for _ in range(case["nedits"]):
        e = None
        for _try in range(8):
            kind = rnd.choice([k for k in __import__("mxv.gen", fromlist=["EDIT_KINDS"]).EDIT_KINDS
                               if k not in SKIP_KINDS])
            e = eg.one(kind)
            if e is None:
                continue
            if e["op"] in ("assign", "clear_at", "clear", "clear_all"):
                sp = ".".join(s[1] for s in e["inst"])
                if _derives_varied(g, sp, e["name"], vset):
                    # value edits need a cached cells under every assignment: undo the generator's bookkeeping
                    g.ops.pop()
                    if e["op"] == "assign":
                        g.inputs.clear()
                    e = None
                    continue
            break
        if e is None:
            continue
        if e["op"] == "rename_cells":
            try:
                sid = id(g.rm.get(e["space"]))
                if (sid, e["name"]) in vset:
                    vset.add((sid, e["new"]))
            except KeyError:
                pass
        ops.append(dict(e, tag=e["op"]))
        if rnd.random() < 0.8:
            ops.append({"op": "evalall"})
    ops.append({"op": "evalall"})
    if case.get("back", True):
        # switch every varied cells back to cached, assign a value in one of them right away, evaluate again
        ops.append({"op": "toggle_back"})
        live = [(s, n) for s in g.rm.walk() for n in s.cells if (id(s), n) in vset
                and s.formula is None and not any(a.formula is not None for a in R._ancestors(s))]
        if live:
            s_, n_ = rnd.choice(live)
            ops.append({"op": "assign", "inst": [["s", p] for p in s_.path().split(".")], "name": n_,
                        "args": [rnd.choice([0, 1])], "value": 777, "tag": "assign_after_recache"})
        ops.append({"op": "evalall"})
    c["ops"] = ops
    c["varied"] = varied
    return c


def _derives_varied(g, sp, name, vset):
    try:
        d = R.members(g.rm.get(sp))["cells"].get(name)
    except Exception:      # noqa
        return True
    return d is None or (id(d[0]), name) in vset


def run_assignment(case, mask):
    """returns (list of {query: value} per evaluation point, violations, counters)"""
    reset_session()
    w = World("M")
    varied = [tuple(v) for v in case["varied"]]
    unc = {varied[i] for i in range(len(varied)) if mask >> i & 1}
    toggle = case.get("toggle", False)
    points = []
    vio = []
    cnt = {"uncached_len_checks": 0, "uncached_reexec_checks": 0, "unhashable_checks": 0, "edits": 0}
    toggled = False

    def V(kind, sig, **d):
        vio.append({"kind": kind, "signature": sig, "detail": dict(d, mask=mask)})

    def live_uncached(qs):
        """(object, description) of every cells that is uncached by the definitions: in static spaces and in
        the instances the queries visit"""
        out, seen = [], set()
        ev = w.evaluator()
        for q in qs:
            key = repr(q["inst"])
            if key in seen:
                continue
            seen.add(key)
            try:
                inst = ev.inst_from_steps(q["inst"])
                live = w.live_inst(q["inst"])
            except Exception:      # noqa
                continue
            for n, (d, cd) in R.members(inst.space)["cells"].items():
                if not cd.cached:
                    try:
                        out.append((live.cells[n], inst.evalrepr("M") + "." + n, inst.kind))
                    except Exception:     # noqa
                        pass
        return out

    first_space = None
    varied_now = set()
    seeded = False
    recached = False
    for op in case["ops"]:
        if not seeded:
            # varied cells are named by the path they are created under
            for v in varied:
                try:
                    sp_ = w.rm.get(v[0])
                    if v[1] in sp_.cells:
                        varied_now.add((id(sp_), v[1]))
                except KeyError:
                    pass
            if op["op"] == "evalall":
                seeded = True
        k = op["op"]
        if k == "nop":
            continue
        if k == "new_space" and first_space is None and not op.get("parent") and not op.get("formula"):
            # a cells whose formula only tests the truth of its argument: uncached (in every assignment but
            # the all-cached one) it must accept unhashable arguments
            r0 = w.apply(op)
            first_space = op["name"]
            w.get_live(first_space).new_cells("ulist", formula="lambda x: (7 if x else 8)", is_cached=(mask == 0))
            continue
        if k == "evalall":
            if first_space is not None and mask:
                try:
                    ul = w.get_live(first_space).cells["ulist"]
                    cnt["unhashable_checks"] += 1
                    for arg, want in (([1, 2], 7), ({"a": 1}, 7), ({1, 2, 3}, 7), ([], 8)):
                        got = val(ul, arg)
                        if got != want:
                            V("unhashable", "an uncached cells rejects an unhashable argument",
                              arg=repr(arg), got=got)
                except (KeyError, AttributeError):
                    pass          # the space was deleted or renamed by the history
            qs = c02.all_queries(w)
            points.append(c02.run_queries(w, qs))
            # uncached cells hold no values, run on every call, accept unhashable arguments
            for c, desc, kind in live_uncached(qs):
                cnt["uncached_len_checks"] += 1
                try:
                    flag = c.is_cached
                except Exception:     # noqa
                    continue
                if flag:
                    V("flag-not-taken", "a %s cells of an uncached definition is cached"
                      % {"static": "derived or defined", "item": "dynamic", "dyn": "dynamic"}[kind], cells=desc)
                    continue
                if len(c):
                    V("uncached-holds", "an uncached cells holds values", cells=desc, n=len(c))
                sp, n = desc.rsplit(".", 1)
                if True:
                    # (a renamed cells keeps the old name in the probe call inside its source: count any ENTER)
                    n0 = len(w.probe.log)
                    v1 = val(c, 1)
                    n1 = len([e for e in w.probe.log[n0:] if e[0] == "E"])
                    m0 = len(w.probe.log)
                    v2 = val(c, 1)
                    n2 = len([e for e in w.probe.log[m0:] if e[0] == "E"])
                    cnt["uncached_reexec_checks"] += 1
                    if not (isinstance(v1, tuple) and v1 and v1[0] == "ERR") and (n1 < 1 or n2 < 1):
                        V("uncached-not-run", "an uncached cells did not run its formula on every call",
                          cells=desc, first=n1, second=n2)
            if toggle and not toggled:
                toggled = True
                for sp, n in sorted(unc):
                    r = w.apply({"op": "set_cached", "space": sp, "name": n, "cached": False})
            continue
        if k == "toggle_back":
            for s_ in w.rm.walk():
                for n in list(s_.cells):
                    if not s_.cells[n].cached:
                        w.apply({"op": "set_cached", "space": s_.path(), "name": n, "cached": True})
            unc = set()
            recached = True
            continue
        op2 = {a: b for a, b in op.items() if a != "tag"}
        if op2["op"] in ("assign", "clear_at", "clear", "clear_all") and "inst" in op2 and not recached:
            # value edits need a cells that is cached under every assignment: decided from the definitions (the
            # same under every assignment), so the same edits are skipped in every run of the case
            try:
                sp_ = w.rm.get(".".join(s_[1] for s_ in op2["inst"]))
                d_ = R.members(sp_)["cells"].get(op2["name"])
                if d_ is None or (id(d_[0]), op2["name"]) in varied_now:
                    continue
            except Exception:      # noqa
                continue
        if op2["op"] in ("set_formula", "set_cached") and varied_now is not None:
            # an override keeps the cached flag of the cells it overrides: it is varied too
            try:
                sp_ = w.rm.get(op2["space"])
                d_ = R.members(sp_)["cells"].get(op2["name"])
                if d_ is not None and (id(d_[0]), op2["name"]) in varied_now:
                    varied_now.add((id(sp_), op2["name"]))
            except Exception:      # noqa
                pass
        if op2["op"] == "rename_cells":
            try:
                sid = id(w.rm.get(op2["space"]))
                if (sid, op2["name"]) in varied_now:
                    varied_now.add((sid, op2["new"]))
            except KeyError:
                pass
        if op2["op"] == "new_cells" and (op2["space"], op2["name"]) in unc and not toggle:
            op2 = dict(op2, cached=False)
        r = w.apply(op2)
        if "tag" in op:
            cnt["edits"] += 1
            points.append(("edit", op2["op"], r[0], r[1] if r[0] == "rej" else None))
    s = sanity(w.m)
    if s:
        V("sanity", "library self-check failed", probs=s[:3])
    return points, vio, cnt


def run_defcells(case):
    """a cells redefined through @defcells(is_cached=flag): the new formula and the new flag apply, the caller follows"""
    import modelx as mx
    from .. import c09_defs as D
    reset_session()
    vio = []
    cnt = {"defcells_checks": 0}

    def V(sig, **d):
        vio.append({"kind": "defcells", "signature": sig, "detail": dict(d, case={k: case[k] for k in
                                                                                ("old", "new", "changed", "evaluated")})})
    m = mx.new_model("M")
    S = m.new_space("S")
    log = []
    S.log = log
    D.define(mx, S, 0, case["old"])
    D.define_caller(mx, S)
    if case["evaluated"]:
        S.g(1), S.f(2)
    variant = case["changed"]
    D.define(mx, S, variant, case["new"])
    flag_old = True if case["old"] is None else case["old"]
    flag = flag_old if case["new"] is None else case["new"]
    k = D.MULT[variant]
    cnt["defcells_checks"] += 1
    if S.f.is_cached is not flag:
        V("redefinition through defcells(is_cached=...) did not set the cached flag", got=S.f.is_cached, expected=flag)
    got = (val(S.f, 1), val(S.g, 1), val(S.f, 2))
    if got != (k, k + 1, 2 * k):
        V("redefinition through defcells(is_cached=...) did not apply the formula", got=list(got),
          expected=[k, k + 1, 2 * k])
    if not vio:
        n0 = len(log)
        S.f(1)
        n1 = len(log)
        if flag and n1 != n0:
            V("a cached cells ran its formula again for a held element")
        if not flag and (n1 != n0 + 1 or len(S.f) != 0):
            V("an uncached cells did not run its formula on every call", ran=n1 - n0, held=len(S.f))
    s = sanity(m)
    if s and not vio:
        V("library self-check failed", probs=s[:3])
    return {"violations": vio, "counters": cnt, "nontrivial": True,
            "shape": "dc-%s-%s-%s-%s" % (case["old"], case["new"], case["changed"], case["evaluated"]),
            "matrix": {"defcells old->new flag": {"%s->%s" % (case["old"], case["new"]): 1}}}


def run_case(case):
    if case.get("kind") == "defcells":
        return run_defcells(case)
    case = expand(case)
    k = len(case["varied"])
    vio = []
    cnt = {"assignments_run": 0, "values_compared": 0, "uncached_len_checks": 0, "uncached_reexec_checks": 0,
           "unhashable_checks": 0, "edits": 0, "effective_points": 0, "k%d" % k: 1}
    base, v0, c0 = run_assignment(case, 0)
    cnt["assignments_run"] += 1
    vio += v0
    # does some edit change a value at all?
    evals = [p for p in base if isinstance(p, dict)]
    for a, b in zip(evals, evals[1:]):
        if any(_n(a.get(q)) != _n(v) for q, v in b.items() if q in a):
            cnt["effective_points"] += 1
    for mask in range(1, 1 << k):
        if vio:
            break
        pts, v1, c1 = run_assignment(case, mask)
        cnt["assignments_run"] += 1
        for kk in ("uncached_len_checks", "uncached_reexec_checks", "unhashable_checks"):
            cnt[kk] += c1[kk]
        cnt["edits"] += c1["edits"]
        vio += v1
        if len(pts) != len(base):
            vio.append({"kind": "shape", "signature": "history ran differently under another flag assignment",
                        "detail": {"mask": mask}})
            break
        for i, (a, b) in enumerate(zip(base, pts)):
            if isinstance(a, tuple):
                if a != b:
                    vio.append({"kind": "accept", "signature": "an edit is accepted or rejected depending on the cached flags",
                                "detail": {"mask": mask, "baseline": list(a), "variant": list(b)}})
                    break
                continue
            for q, v in a.items():
                cnt["values_compared"] += 1
                if q not in b:
                    continue
                if _n(v) != _n(b[q]):
                    if c02._is_err(v) and c02._is_err(b[q]):
                        cnt["error_class_differs"] = cnt.get("error_class_differs", 0) + 1
                        continue
                    unc = [case["varied"][j] for j in range(k) if mask >> j & 1]
                    vio.append({"kind": "flag-changes-value",
                                "signature": "a value differs between two assignments of the cached flag",
                                "detail": {"mask": mask, "uncached": unc, "point": i, "query": q,
                                           "all_cached": v, "variant": b[q],
                                           "edits": [o.get("tag") for o in case["ops"] if o.get("tag")]}})
                    break
            if vio:
                break
    return {"violations": vio[:3], "counters": cnt, "nontrivial": cnt["effective_points"] > 0,
            "shape": "%s|%d|%s" % (case["seed"] & 0xFFFFFF, k, ",".join(o.get("tag", "") for o in case["ops"] if o.get("tag"))),
            "case": case,
            "sample": {"varied": case["varied"], "assignments": 1 << k,
                       "edits": [o.get("tag") for o in case["ops"] if o.get("tag")]}}


def _n(v):
    return list(v) if isinstance(v, tuple) else v


def finalize(cov, results):
    cov["exhaustive"] = True
    cov["exhaustive_note"] = "all 2^k assignments of the k varied cells of every case were run"


def shrink(case, violations, deadline):
    if case.get("kind") == "defcells":
        return None
    from ..shrink import shrink_ops
    return shrink_ops(expand(case), run_case, violations, deadline)
